"""C01 -- lazy cache coherence under any set_value / evaluate history.

spec/Engine.tla (+EngineValues) is explored exhaustively by TLC for each
workbook x source; every transition of the reachable graph is then executed
on the real ExcelCompiler (edge-covering tour).  After each step
 * VERDICT: the value an `evaluate` returned is compared with a from-scratch
   compile of the same workbook with the current inputs (the oracle of the
   property statement);
 * BINDING: the real object is projected to the abstract state and compared
   with the spec's successor state (difference = NOTE spec-drift; the
   verdict never depends on it).
Second direction (code -> spec): random histories on larger random
workbooks are recorded and validated by TLC against spec/TraceLazyCache.tla.
"""
import json
import os
import random

from harness import engine, parallel, randwb, tlc, tracecheck, workbooks as W, xl
from harness.evidence import Verdict

PID = 'C01'


def tour_job(arg):
    """one (workbook, pool, source, file types) graph: TLC + tours"""
    name, pool, src, fts, seed, max_viol = arg[:6]
    recalc = len(arg) > 6 and arg[6]
    setlists = arg[7] if len(arg) > 7 else ()
    rnd = random.Random(seed)
    wb = W.WORKBOOKS[name]
    oracle = engine.Oracle(wb)
    g = engine.gen_graph(name, wb, pool, src, recalc=recalc, setlists=setlists)
    out = dict(name=name, src=src, tlc=dict(
        run=f'Engine {name}/{src} pool={len(pool)} recalc={recalc}', distinct=g.tlc.distinct,
        generated=g.tlc.generated, depth=g.tlc.depth, wall_s=round(g.tlc.wall, 2)),
        tours=[], violations=[], notes=[], cases=0, keys=set(), restarts=0,
        sample=dict(workbook=name, source=src,
                    cells=W.cells(wb)[0], arrays=W.cells(wb)[1],
                    first_edges=[(a, r) for a, r, _ in g.out[g.init][:3]]))
    for ft in fts:
        workdir = tlc.new_scratch('wb')
        drift = []

        def make_model():
            return engine.RealModel(wb, src, workdir, file_type=ft)

        def on_step(model, s, act, spec_ret, t, hist):
            status, got = model.do(act, variant=rnd.choice(('str', 'list1', 'tuple1'))
                                   if act['op'] == 'set_many' else 'str')
            inputs = {a: W.py_val(x) for a, x in g.states[t]['inp'].items()}
            out['cases'] += 1
            out['keys'].add(hash((name, src, ft, s, json.dumps(act, sort_keys=True))))
            if status == 'exc':
                if len(out['violations']) < max_viol:
                    out['violations'].append((f'{act} raised {got}', dict(
                        workbook=name, source=src, file_type=ft, history=list(hist))))
                return
            if act['op'] == 'evaluate':
                st, want = oracle.values(inputs)[act['n']]
                if st != 'ok' or not xl.same_value(got, want):
                    if len(out['violations']) < max_viol:
                        out['violations'].append((
                            f'evaluate({act["n"]}) returned {got!r}; a from-scratch compile '
                            f'with inputs {inputs} gives {want!r} [{name}/{src}/{ft}]',
                            dict(workbook=name, source=src, file_type=ft,
                                 cells=W.cells(wb)[0], arrays=W.cells(wb)[1],
                                 history=list(hist), expected=repr(want), got=repr(got))))
                elif W.js_val(untrim(model, act['n'], got)) != spec_ret and len(out['notes']) < 3:
                    out['notes'].append(
                        f'oracle-mismatch (TLA+ Fresh {spec_ret} vs code {got!r}) on {name} {act}')
            if not drift:
                diffs = engine.state_matches(g.states[t], model.project())
                if diffs:
                    drift.append(1)
                    out['notes'].append(
                        f'spec-drift on {name}/{src}/{ft} after {hist[-3:]}: {diffs[:2]}')

        steps, restarts, covered = engine.tour(g, make_model, on_step, rnd=rnd)
        out['restarts'] += restarts + 1
        out['tours'].append(dict(
            workbook=name, source=src, file_type=ft, pool=len(pool),
            states=len(g.states), edges=g.n_edges, covered=covered, steps=steps,
            restarts=restarts, oracle_compiles=oracle.compiles,
            spec_drift=bool(drift)))
    out['keys'] = len(out['keys'])
    return out


def trace_job(arg):
    """random workbook: record random histories on the real object, validate
    them with TLC against TraceLazyCache (verdict) and TraceEngine (drift)"""
    idx, src, ft, n_hist, length, seed = arg
    rnd = random.Random(seed * 1000003 + idx)
    wb = randwb.random_workbook(rnd, nrows=rnd.choice([2, 3, 3, 4]),
                                ncols=rnd.choice([3, 4, 5]))
    workdir = tlc.new_scratch('rw')
    out = dict(idx=idx, src=src, violations=[], notes=[], tlc=[], traces=0,
               events=0, nodes=len(randwb.all_nodes(wb)),
               sample=dict(random_workbook=W.cells(wb)[0], arrays=W.cells(wb)[1],
                           source=src))
    direct = []

    def observe(tr, act, status, got, ret, inputs):
        if status == 'exc':
            direct.append((f'{act} raised {got}', list(tr['history'])))
        elif act['op'] == 'evaluate' and not xl.same_value(got, ret[act['n']]):
            direct.append((f'evaluate({act["n"]}) returned {got!r}; a from-scratch compile '
                           f'gives {ret[act["n"]]!r}', list(tr['history'])))

    traces = randwb.record(wb, src, rnd, n_hist, length, W.POOL_FULL, workdir,
                           ft=ft, on_observe=observe)
    out['traces'] = len(traces)
    out['events'] = sum(len(t['events']) for t in traces)
    case0 = dict(cells=W.cells(wb)[0], arrays=W.cells(wb)[1], source=src, file_type=ft)
    for desc, hist in direct[:3]:
        out['violations'].append((desc + f' [random workbook {idx}/{src}]',
                                  dict(case0, history=hist)))
    res, bad = tracecheck.validate_lazycache(traces)
    out['tlc'].append(dict(run=f'TraceLazyCache rw{idx}/{src}', distinct=res.distinct,
                           generated=res.generated, depth=res.depth,
                           wall_s=round(res.wall, 2)))
    for b in bad[:3]:
        # a rejection has no counterexample: find the stale entry on the real
        # object and show it through evaluate()
        conf = confirm_stale(wb, src, ft, workdir, traces[b]['history'])
        if conf:
            out['violations'].append((conf[0] + f' [random workbook {idx}/{src}, '
                                      'trace rejected by TraceLazyCache]',
                                      dict(case0, history=conf[1])))
        elif not direct:
            raise tlc.MachineryFailure(
                f'TraceLazyCache rejected trace {b} of random workbook {idx}/{src} '
                f'but no wrong observable could be shown: {traces[b]["history"]}')
    res2, bad2 = tracecheck.validate_engine(wb, src, W.POOL_FULL, traces, name=f'RW{idx}')
    out['tlc'].append(dict(run=f'TraceEngine rw{idx}/{src}', distinct=res2.distinct,
                           generated=res2.generated, depth=res2.depth,
                           wall_s=round(res2.wall, 2)))
    if bad2:
        out['notes'].append(f'spec-drift: TraceEngine rejected {len(bad2)} trace(s) of random '
                            f'workbook {idx}/{src}, e.g. {traces[bad2[0]]["history"][:6]}')
    out['accepted'] = len(traces) - len(set(bad) | set(bad2))
    return out


def confirm_stale(wb, src, ft, workdir, history):
    """re-execute; after each step look for a cached entry that differs from
    the from-scratch value and show it through evaluate()"""
    model = engine.RealModel(wb, src, workdir, file_type=ft)
    oracle = randwb.FreshOracle(wb)
    inputs = dict(wb['inputs'])
    n = W.nodes(wb)
    non_inputs = n['formulas'] + n['ranges'] + n['aliases']
    done = []
    for act in history:
        status, got = model.do(act)
        done.append(act)
        if act['op'] == 'set_value':
            inputs[act['n']] = W.py_val(act['v'])
        ret, raw = oracle.get(inputs)
        proj = model.project()
        for x in non_inputs:
            c = proj['cache'].get(x)
            if c is not None and c != ['?'] and c != raw[x]:
                st, val = model.do(dict(op='evaluate', n=x))
                if st == 'exc' or not xl.same_value(val, ret[x]):
                    return (f'evaluate({x}) returned {val!r}; a from-scratch compile with '
                            f'inputs {inputs} gives {ret[x]!r}',
                            done + [dict(op='evaluate', n=x)])
    return None


def untrim(model, node, got):
    """evaluate() trims 1xn / nx1 results; the cache (and the spec) keep 2-d"""
    cell = model.m.cell_map.get(W.addr(node))
    if cell is not None and isinstance(cell.value, tuple):
        return cell.value
    return got


def any_job(arg):
    kind, j = arg
    return tour_job(j) if kind == 'tour' else trace_job(j)


def run(tier, seed):
    v = Verdict(PID, tier, seed)
    jobs = []
    if tier == 'quick':
        for name in ('chain', 'nested', 'alias'):
            for src in ('NoData', 'Stored', 'Loaded'):
                jobs.append((name, W.POOL_QUICK, src,
                             ('yml',) if src == 'Loaded' else ('-',), seed, 5))
        jobs.append(('cse', W.POOL_QUICK[:4], 'NoData', ('-',), seed, 5))
        # a stored result which is the empty text (read back as "no value")
        jobs.append(('emptytext', [None, 2], 'Stored', ('-',), seed, 5))
        jobs.append(('topleft', [None, 5], 'NoData', ('-',), seed, 5))
        for src in ('NoData', 'Stored', 'Loaded'):       # precedents reached through names
            jobs.append(('named', W.POOL_QUICK[:4], src,
                         ('json',) if src == 'Loaded' else ('-',), seed, 5))
        jobs.append(('twosheet', W.POOL_QUICK[:3], 'NoData', ('-',), seed, 5))
        jobs.append(('twosheet', W.POOL_QUICK[:3], 'Loaded', ('json',), seed, 5))
        # precedents reached through the reference operators
        jobs.append(('refops', [None, 2], 'NoData', ('-',), seed, 5))
        jobs.append(('refops', [None, 2], 'Stored', ('-',), seed, 5))
        # a range of more than 10 000 cells
        jobs.append(('bigrange', [2], 'NoData', ('-',), seed, 5))
        # unbounded ranges which resolve to a single cell
        jobs.append(('onecell', [None, 5, 'a'], 'NoData', ('-',), seed, 5))
        jobs.append(('onecell', [None, 5], 'Stored', ('-',), seed, 5))
        jobs.append(('range', W.POOL_QUICK[:3], 'Stored', ('-',), seed, 5, True))
        jobs.append(('range', [2], 'NoData', ('-',), seed, 5, False,
                     [[('A1', 5), ('A2', True), ('A3', None)], [('A3', 'a'), ('A1', 0)]]))
        # a range assigned as a whole while C1 reads one of its cells directly
        jobs.append(('trimex', [2], 'NoData', ('-',), seed, 5, False,
                     [[('A1', 5), ('B1', True)], [('B1', 'a'), ('A1', 0)]]))
    else:
        for name in W.WORKBOOKS:
            for src in ('NoData', 'Stored', 'Loaded'):
                if name == 'twosheet' and src == 'Stored':
                    continue        # the stored-result writer patches one sheet only
                if name == 'bigrange' and src != 'NoData':
                    continue        # (10 000 cells per compile: one source)
                jobs.append((name, W.POOL_QUICK, src,
                             ('yml', 'json', 'pkl') if src == 'Loaded' else ('-',),
                             seed, 5))
        for name in ('chain', 'alias', 'nested'):
            for src in ('NoData', 'Stored'):
                jobs.append((name, W.POOL_FULL, src, ('-',), seed, 5))
        jobs.append(('range', [2, None], 'Stored', ('-',), seed, 5, False,
                     [[('A1', 5), ('A2', True), ('A3', None)], [('A3', 'a'), ('A1', 0)],
                      [('A1', 2), ('A2', 2), ('A3', 2)]]))
        jobs.append(('trimex', [2, None], 'Stored', ('-',), seed, 5, False,
                     [[('A1', 5), ('B1', True)], [('B1', 'a'), ('A1', 0)], [('A1', 2), ('B1', 2)]]))
        jobs.append(('grid', [2], 'NoData', ('-',), seed, 5, False,
                     [[('A1', 5), ('B1', None), ('A2', 'a')], [('A2', 0), ('A1', True)]]))
        for name in ('chain', 'range', 'alias', 'cse', 'trimex'):
            jobs.append((name, W.POOL_QUICK[:3], 'NoData', ('-',), seed, 5, True))
            jobs.append((name, W.POOL_QUICK[:3], 'Loaded', ('yml', 'pkl'), seed, 5, True))
    if tier == 'quick':
        tjobs = [(i, src, 'yml', 12, 25, seed) for i in range(3)
                 for src in ('NoData', 'Stored', 'Loaded')]
    else:
        tjobs = [(i, src, ('yml', 'json', 'pkl')[i % 3], 50, 30, seed)
                 for i in range(16) for src in ('NoData', 'Stored', 'Loaded')]
    both = parallel.run_jobs(any_job, [('tour', j) for j in jobs] +
                             [('trace', j) for j in tjobs])
    results = both[:len(jobs)]
    tres = both[len(jobs):]
    drift = 0
    for r in results:
        res = type('R', (), r['tlc'])
        v.tlc_runs.append(r['tlc'])
        v.states += r['tlc']['distinct']
        v.transitions += r['tlc']['generated']
        v.evaluations += r['cases']
        v.distinct.update((r['name'], r['src'], i) for i in range(r['keys']))
        v.traces += r['restarts']
        v.extra.setdefault('tours', []).extend(r['tours'])
        drift += sum(t['spec_drift'] for t in r['tours'])
        for n in r['notes']:
            v.note(n)
        for desc, case in r['violations']:
            v.violation(desc, case)
        v.sample(r['sample'], limit=3)
    rec_traces = rec_events = accepted = 0
    for r in tres:
        v.tlc_runs.extend(r['tlc'])
        v.states += sum(t['distinct'] for t in r['tlc'])
        v.transitions += sum(t['generated'] for t in r['tlc'])
        rec_traces += r['traces']
        rec_events += r['events']
        accepted += r['accepted']
        v.evaluations += r['events']
        v.distinct.update(('rw', r['idx'], r['src'], i) for i in range(r['events']))
        for n in r['notes']:
            v.note(n)
        for desc, case in r['violations']:
            v.violation(desc, case)
        if r['idx'] == 0:
            v.sample(r['sample'], limit=6)
    v.traces += accepted
    v.extra.update(
        recorded_traces=rec_traces, recorded_events=rec_events,
        recorded_traces_accepted_by_both_trace_specs=accepted,
        exhaustive=True, spec_drift_tours=drift,
        rule='one case = one transition (state, action) of the TLC-explored graph of '
             'Engine.tla executed on the real object; every transition of every listed '
             'workbook x source graph is covered at least once; distinct = distinct '
             '(workbook, source, file type, state, action)')
    v.assumptions = [
        'the projection (cell_map keys, cell values, dep_graph edges, _values_changed) '
        'captures all state that later behaviour depends on',
        'the from-scratch compile is the oracle; TLA+ Fresh only produces NOTEs']
    return v.finish()


def replay(path):
    """re-run one recorded history on the real code"""
    case = json.load(open(path))['case']
    m = xl.compile_wb(case['cells'], arrays=case.get('arrays'))
    print('replaying on an in-memory model (source was %s):' % case.get('source'))
    for act in case['history']:
        if act['op'] == 'evaluate':
            print(' evaluate', act['n'], '->', repr(m.evaluate(W.addr(act['n']))))
        else:
            m.set_value(W.addr(act['n']), W.py_val(act['v']))
            print(' set_value', act['n'], W.py_val(act['v']))
    print('expected', case.get('expected'), 'got', case.get('got'))
    return 0
