"""C01 -- lazy cache coherence under any set_value / evaluate history.

spec/Engine.tla (+EngineValues) is explored exhaustively by TLC for each
workbook x source; every transition of the reachable graph is then executed
on the real ExcelCompiler (edge-covering tour).  After each step
 * VERDICT: the value an `evaluate` returned is compared with a from-scratch
   compile of the same workbook with the current inputs (the oracle of the
   property statement);
 * BINDING: the real object is projected to the abstract state and compared
   with the spec's successor state (difference = NOTE spec-drift; the
   verdict never depends on it).
Second direction (code -> spec): random histories on larger random
workbooks are recorded and validated by TLC against spec/TraceLazyCache.tla.
"""
import json
import os
import random

from harness import engine, parallel, tlc, workbooks as W, xl
from harness.evidence import Verdict

PID = 'C01'


def tour_job(arg):
    """one (workbook, pool, source, file types) graph: TLC + tours"""
    name, pool, src, fts, seed, max_viol = arg
    rnd = random.Random(seed)
    wb = W.WORKBOOKS[name]
    oracle = engine.Oracle(wb)
    g = engine.gen_graph(name, wb, pool, src)
    out = dict(name=name, src=src, tlc=dict(
        run=f'Engine {name}/{src} pool={len(pool)}', distinct=g.tlc.distinct,
        generated=g.tlc.generated, depth=g.tlc.depth, wall_s=round(g.tlc.wall, 2)),
        tours=[], violations=[], notes=[], cases=0, keys=set(), restarts=0,
        sample=dict(workbook=name, source=src,
                    cells=W.cells(wb)[0], arrays=W.cells(wb)[1],
                    first_edges=[(a, r) for a, r, _ in g.out[g.init][:3]]))
    for ft in fts:
        workdir = tlc.new_scratch('wb')
        drift = []

        def make_model():
            return engine.RealModel(wb, src, workdir, file_type=ft)

        def on_step(model, s, act, spec_ret, t, hist):
            status, got = model.do(act)
            inputs = {a: W.py_val(x) for a, x in g.states[t]['inp'].items()}
            out['cases'] += 1
            out['keys'].add(hash((name, src, ft, s, json.dumps(act, sort_keys=True))))
            if status == 'exc':
                if len(out['violations']) < max_viol:
                    out['violations'].append((f'{act} raised {got}', dict(
                        workbook=name, source=src, file_type=ft, history=list(hist))))
                return
            if act['op'] == 'evaluate':
                st, want = oracle.values(inputs)[act['n']]
                if st != 'ok' or not xl.same_value(got, want):
                    if len(out['violations']) < max_viol:
                        out['violations'].append((
                            f'evaluate({act["n"]}) returned {got!r}; a from-scratch compile '
                            f'with inputs {inputs} gives {want!r} [{name}/{src}/{ft}]',
                            dict(workbook=name, source=src, file_type=ft,
                                 cells=W.cells(wb)[0], arrays=W.cells(wb)[1],
                                 history=list(hist), expected=repr(want), got=repr(got))))
                elif W.js_val(untrim(model, act['n'], got)) != spec_ret and len(out['notes']) < 3:
                    out['notes'].append(
                        f'oracle-mismatch (TLA+ Fresh {spec_ret} vs code {got!r}) on {name} {act}')
            if not drift:
                diffs = engine.state_matches(g.states[t], model.project())
                if diffs:
                    drift.append(1)
                    out['notes'].append(
                        f'spec-drift on {name}/{src}/{ft} after {hist[-3:]}: {diffs[:2]}')

        steps, restarts, covered = engine.tour(g, make_model, on_step, rnd=rnd)
        out['restarts'] += restarts + 1
        out['tours'].append(dict(
            workbook=name, source=src, file_type=ft, pool=len(pool),
            states=len(g.states), edges=g.n_edges, covered=covered, steps=steps,
            restarts=restarts, oracle_compiles=oracle.compiles,
            spec_drift=bool(drift)))
    out['keys'] = len(out['keys'])
    return out


def untrim(model, node, got):
    """evaluate() trims 1xn / nx1 results; the cache (and the spec) keep 2-d"""
    cell = model.m.cell_map.get(W.addr(node))
    if cell is not None and isinstance(cell.value, tuple):
        return cell.value
    return got


def run(tier, seed):
    v = Verdict(PID, tier, seed)
    jobs = []
    if tier == 'quick':
        for name in ('chain', 'nested', 'alias'):
            for src in ('NoData', 'Stored', 'Loaded'):
                jobs.append((name, W.POOL_QUICK, src,
                             ('yml',) if src == 'Loaded' else ('-',), seed, 5))
        jobs.append(('cse', W.POOL_QUICK[:4], 'NoData', ('-',), seed, 5))
    else:
        for name in W.WORKBOOKS:
            for src in ('NoData', 'Stored', 'Loaded'):
                jobs.append((name, W.POOL_QUICK, src,
                             ('yml', 'json', 'pkl') if src == 'Loaded' else ('-',),
                             seed, 5))
        for name in ('chain', 'alias', 'nested'):
            for src in ('NoData', 'Stored'):
                jobs.append((name, W.POOL_FULL, src, ('-',), seed, 5))
    results = parallel.run_jobs(tour_job, jobs)
    drift = 0
    for r in results:
        res = type('R', (), r['tlc'])
        v.tlc_runs.append(r['tlc'])
        v.states += r['tlc']['distinct']
        v.transitions += r['tlc']['generated']
        v.evaluations += r['cases']
        v.distinct.update((r['name'], r['src'], i) for i in range(r['keys']))
        v.traces += r['restarts']
        v.extra.setdefault('tours', []).extend(r['tours'])
        drift += sum(t['spec_drift'] for t in r['tours'])
        for n in r['notes']:
            v.note(n)
        for desc, case in r['violations']:
            v.violation(desc, case)
        v.sample(r['sample'], limit=3)
    v.extra.update(
        exhaustive=True, spec_drift_tours=drift,
        rule='one case = one transition (state, action) of the TLC-explored graph of '
             'Engine.tla executed on the real object; every transition of every listed '
             'workbook x source graph is covered at least once; distinct = distinct '
             '(workbook, source, file type, state, action)')
    v.assumptions = [
        'the projection (cell_map keys, cell values, dep_graph edges, _values_changed) '
        'captures all state that later behaviour depends on',
        'the from-scratch compile is the oracle; TLA+ Fresh only produces NOTEs']
    return v.finish()


def replay(path):
    """re-run one recorded history on the real code"""
    case = json.load(open(path))['case']
    m = xl.compile_wb(case['cells'], arrays=case.get('arrays'))
    print('replaying on an in-memory model (source was %s):' % case.get('source'))
    for act in case['history']:
        if act['op'] == 'evaluate':
            print(' evaluate', act['n'], '->', repr(m.evaluate(W.addr(act['n']))))
        else:
            m.set_value(W.addr(act['n']), W.py_val(act['v']))
            print(' set_value', act['n'], W.py_val(act['v']))
    print('expected', case.get('expected'), 'got', case.get('got'))
    return 0
