"""C02 -- formula translation is meaning-preserving.

Spec: spec/Formula.tla: a generator automaton (every state with balanced
brackets that ends in an operand is one well-formed formula; TLC enumerates
all of them up to MaxLen tokens and samples longer ones with -simulate) and
the reference semantics written from the statement (recursive-descent parser:
negation, %, ^, * /, + -, &, comparisons, all left-associative, parentheses
override; evaluator over exact rationals with the operator meaning of
ExcelValues).  TLC checks on every formula that an independent
minimal-parentheses printer inverts the parser and that wrapping any
sub-expression in parentheses leaves the tree unchanged.

Function calls: SUM and IF take values; ROW and COLUMN take a reference,
OFFSET takes a reference and two values and denotes a reference, LEN counts
the characters of a text wherever it stands.  The generator keeps reference
positions and value positions apart, the reference semantics evaluates the one
to a cell and the other to a value.  References are cells of the sheet of the
formula and of sheets whose names hold special characters ('US$'!A1).

Runs: exhaustive "lit" and "ext" (every literal and reference, few operators),
"prec" (every operator, parentheses, SUM and IF), "nest" and "code" (every nest
of ROW, OFFSET, LEN and negation over a cell, a number and a text spelled like
generated code), "arg" (every nest of SUM, IF and OFFSET), each cross-checked
against an independent count of the grammar; sampled with -simulate "sim"
(everything) and "ref" (references and values nested in each other).

Binding: every exported (tokens, sub-expression spans, value per environment)
is rendered in several spellings (plain; spaces between tokens, references
with $ markers; function names and TRUE/FALSE in other case; a redundant pair
of parentheses around a random sub-expression; all of these together),
compiled with ExcelFormula and
evaluated through ExcelFormula.build_eval_context (the callbacks read the cells
of the environment by sheet, row and column; a cell it does not bind is
blank), and also placed in a workbook that has the sheet of the formula and the
five other sheets with the cells set per the environment, and evaluated with
ExcelCompiler.evaluate.  The result must be the spec value (numbers within
1e-12 relative, text/logical/error exactly).  Values the spec marks
<<"U", ..>> (32-bit guard, fractional powers, float-sensitive comparisons,
SUM/IF/LEN/OFFSET corner cases that belong to other properties) are skipped
and counted.
"""
import json
import logging
import os
import random
import threading
from collections import Counter

from openpyxl.utils import get_column_letter

from harness import tlc, xl
from harness.checks.c10 import JVM as JVM10, brief, mismatch, show, text_of, py_variants
from harness.evidence import Verdict

PID = 'C02'
CHUNK = 500
# proposed known finding: a text literal spelled like an error value (or like
# pycel's empty-operand sentinel) is taken for that error value (for blank)
FINDING_ERROR_TEXT = 'C02_r3_2'
# deeply nested formulas make deep recursions of the parser and the evaluator
JVM = {'JAVA_TOOL_OPTIONS': JVM10['JAVA_TOOL_OPTIONS'] + ' -Xss32m'}

# the generator's bracket frames (spec/Formula.tla: stk)
COST = {'P': 1, 'S': 1, 'I3': 1, 'I2': 3, 'I1': 5, 'O3': 1, 'O2': 3, 'O1': 5, 'R': 1, 'Q': 1}
FRAME = {'SUM(': 'S', 'IF(': 'I1', 'OFFSET(': 'O1', 'ROW(': 'R', 'COLUMN(': 'R', 'LEN(': 'P'}
REFPOS = ('R', 'Q', 'O1')             # the innermost bracket wants a reference
NEXTARG = {'S': 'S', 'I1': 'I2', 'I2': 'I3', 'O1': 'O2', 'O2': 'O3'}
CLOSABLE = ('P', 'S', 'I3', 'O3', 'R', 'Q')
ALL_CALLS = tuple(FRAME)

ALL_BINARY = ['^', '*', '/', '+', '-', '&', '=', '<>', '<', '<=', '>', '>=']
CFG = {
    # name: constants of the run (mirrors spec/Formula_*.cfg)
    'prec': dict(Operands='PrecOperands', Binary='AllBinary', Prefix='{"u-", "u+"}',
                 Postfix='{"%"}', Calls='{"SUM(", "IF("}', Parens='TRUE',
                 counts=dict(nopnd=3, nref=0, nbin=12, npre=2, npost=1,
                             calls=('SUM(', 'IF('), parens=True)),
    'lit': dict(Operands='LitOperands', Binary='LitBinary', Prefix='{"u-"}',
                Postfix='{"%"}', Calls='{}', Parens='FALSE',
                counts=dict(nopnd=39, nref=2, nbin=4, npre=1, npost=1, calls=(),
                            parens=False)),
    # the second pool of literals and references, the functions of one argument
    'ext': dict(Operands='ExtPool', Binary='LitBinary', Prefix='{"u-"}',
                Postfix='{"%"}', Calls='ExtCalls', Parens='FALSE',
                counts=dict(nopnd=14, nref=6, nbin=4, npre=1, npost=1,
                            calls=('ROW(', 'COLUMN(', 'LEN('), parens=False)),
    # values nested in reference arguments, references produced by calls
    'nest': dict(Operands='NestOperands', Binary='{}', Prefix='{"u-"}',
                 Postfix='{}', Calls='NestCalls', Parens='FALSE',
                 counts=dict(nopnd=2, nref=1, nbin=0, npre=1, npost=0,
                             calls=('ROW(', 'OFFSET('), parens=False)),
    # a text that looks like generated code, counted inside reference arguments
    'code': dict(Operands='CodeOperands', Binary='{}', Prefix='{}',
                 Postfix='{}', Calls='CodeCalls', Parens='FALSE',
                 counts=dict(nopnd=3, nref=1, nbin=0, npre=0, npost=0,
                             calls=('ROW(', 'OFFSET(', 'LEN('), parens=False)),
    # a reference made by a call where a value is wanted
    'arg': dict(Operands='ArgOperands', Binary='{}', Prefix='{}',
                Postfix='{}', Calls='ArgCalls', Parens='FALSE',
                counts=dict(nopnd=2, nref=1, nbin=0, npre=0, npost=0,
                            calls=('SUM(', 'IF(', 'OFFSET('), parens=False)),
    'sim': dict(Operands='AllOperands', Binary='AllBinary', Prefix='{"u-", "u+"}',
                Postfix='{"%"}', Calls='AllCalls', Parens='TRUE', counts=None),
    'ref': dict(Operands='RefOperands', Binary='RefBinary', Prefix='{"u-"}',
                Postfix='{}', Calls='AllCalls', Parens='TRUE', counts=None),
}


def cfg_text(name, maxlen, minexport, invariants):
    c = CFG[name]

    def bind(const):        # a set written out, or the name of a definition of MC_Formula
        val = c[const]
        return f'  {const} = {val}' if val.startswith('{') else f'  {const} <- {val}'
    lines = ['CONSTANTS',
             f'  Operands <- {c["Operands"]}', bind('Binary'),
             bind('Prefix'), bind('Postfix'), bind('Calls'), f'  Parens = {c["Parens"]}',
             f'  MaxLen = {maxlen}', f'  MinExport = {minexport}',
             '  Lit <- MCLit', '  LitDev <- MCLitDev', '  Refs <- MCRefs',
             '  RefAt <- MCRefAt', '  Envs <- MCEnvs',
             'SPECIFICATION Spec']
    lines += [f'INVARIANT {i}' for i in invariants]
    return '\n'.join(lines) + '\n'


def count_formulas(nopnd, nref, nbin, npre, npost, calls, parens, maxlen):
    """(states, complete formulas) of the generator, counted independently
    of TLC by dynamic programming over (expecting-operand, bracket stack);
    nref of the nopnd operands are references (all that a reference position
    admits besides a parenthesis and OFFSET)"""
    cur = Counter({(True, ()): 1})
    states, complete = 1, 0
    for ln in range(maxlen):
        nxt = Counter()
        for (expect, stk), c in cur.items():
            def room(e, s):
                return ln + 1 + (1 if e else 0) + sum(COST[f] for f in s) <= maxlen
            refpos = bool(stk) and stk[-1] in REFPOS
            if expect:
                if room(False, stk):
                    nxt[(False, stk)] += c * (nref if refpos else nopnd)
                if not refpos and room(True, stk):
                    nxt[(True, stk)] += c * npre
                fr = 'Q' if refpos else 'P'
                if parens and room(True, stk + (fr,)):
                    nxt[(True, stk + (fr,))] += c
                for f in calls:
                    if refpos and f != 'OFFSET(':
                        continue
                    if room(True, stk + (FRAME[f],)):
                        nxt[(True, stk + (FRAME[f],))] += c
            else:
                if not refpos:
                    if room(False, stk):
                        nxt[(False, stk)] += c * npost
                    if room(True, stk):
                        nxt[(True, stk)] += c * nbin
                if stk and stk[-1] in NEXTARG:
                    s2 = stk[:-1] + (NEXTARG[stk[-1]],)
                    if room(True, s2):
                        nxt[(True, s2)] += c
                if stk and stk[-1] in CLOSABLE:
                    nxt[(False, stk[:-1])] += c
        cur = Counter({k: n for k, n in nxt.items() if n})
        states += sum(cur.values())
        complete += sum(c for (e, s), c in cur.items() if not e and not s)
    return states, complete


# ---------------------------------------------------------------------------
# rendering a token string as formula text

CASED = ALL_CALLS + ('TRUE', 'FALSE')        # tokens that have a letter case
HOME = 'S'                                   # the sheet that holds the formula
# where the formulas under test stand in the workbook: far from every cell
# that an OFFSET() of the formulas can reach
FCOL, FROW = 'XFD', 1000000


def sheet_names(tables):
    """sheet key of the spec -> name of the sheet"""
    names = {k: ''.join(chr(c) for c in codes) for k, codes in tables['sheets'].items()}
    names[HOME] = HOME
    return names


def env_cells(tables, e):
    """(sheet name, row, column) -> python value, for the cells environment e binds"""
    names = sheet_names(tables)
    out = {}
    for tok, val in tables['envs'][e].items():
        key, row, col = tables['refs'][tok]
        out[(names[key], row, col)] = py_variants(val)[0]
    return out


def workbook_cells(cells):
    """the cells of an environment as harness.xl.make_wb takes them: a blank
    cell of the formula's sheet is left out, a blank cell of another sheet
    is written (as nothing) so that the sheet exists"""
    out = {}
    for (sheet, row, col), x in cells.items():
        a = f'{get_column_letter(col)}{row}'
        if sheet != HOME:
            out[f'{sheet}!{a}'] = x
        elif x is not None:
            out[a] = x
    return out


def reader(cells):
    """evaluate / evaluate_range callbacks for build_eval_context over the
    cells of one environment.  The compiled code names a cell by its address
    text (sheet!A1, no sheet: the sheet of the formula); a cell the
    environment does not bind is blank."""
    from pycel.excelutil import AddressRange

    def cell(addr):
        return cells.get((addr.sheet or HOME, addr.row, addr.col_idx))

    def ev(addr):
        return cell(AddressRange.create(getattr(addr, 'address', addr)))

    def ev_range(addr):
        rng = AddressRange.create(getattr(addr, 'address', addr))
        return tuple(tuple(cell(a) for a in row) for row in rng.resolve_range)
    return ev, ev_range


def through_context(ExcelFormula, ctx, ev, f):
    """route 1.  A formula whose value is a reference (=OFFSET(A1,0,1)) shows
    the cell referred to: ExcelCompiler does that reading for a cell of a
    workbook, here the harness does it (a blank cell shows 0)."""
    from pycel.excelutil import is_address
    try:
        got = ctx(ExcelFormula(f))
        if is_address(got) and not got.is_range:
            got = ev(got)
            got = 0 if got is None else got
    except Exception as exc:    # noqa
        got = exc
    return got


class Speller:
    def __init__(self, tables, rnd):
        self.lit = tables['lit']
        self.num = tables['num']
        self.refs = tables['refs']
        self.sheets = sheet_names(tables)
        self.rnd = rnd

    def reference(self, t, marked):
        """a reference token as text: A1, 'US$'!A1 (the apostrophes of the
        name doubled).  marked: with the markers of absolute references ($A$1,
        $A1, A$1: the same cell) and a name that needs no apostrophes
        sometimes in apostrophes all the same"""
        key, row, col = self.refs[t]
        letter = get_column_letter(col)
        if marked:
            cell = self.rnd.choice((f'${letter}${row}', f'${letter}${row}',
                                    f'${letter}{row}', f'{letter}${row}'))
        else:
            cell = f'{letter}{row}'
        if key == HOME:
            return cell
        name = self.sheets[key]
        if not (name.isalnum() and name.isascii()) or (marked and self.rnd.random() < 0.5):
            name = "'" + name.replace("'", "''") + "'"
        return f'{name}!{cell}'

    @staticmethod
    def recase(name, fcase):
        """a function name or TRUE / FALSE in another case (Excel reads both
        without regard to case)"""
        if fcase == 1:
            return name.lower()
        if fcase == 2:
            return name.capitalize()
        if fcase == 3:
            return ''.join(ch.lower() if i % 2 == 0 else ch for i, ch in enumerate(name))
        return name

    def token(self, t, fcase=0, marked=False):
        if t in ('u-', 'u+'):
            return t[1]
        if t in self.refs:
            return self.reference(t, marked)
        if t in CASED:
            return self.recase(t[:-1], fcase) + '(' if t.endswith('(') else self.recase(t, fcase)
        if t[0] == 'T' and t[1:].isdigit():
            return '"' + text_of(self.lit[t]).replace('"', '""') + '"'
        if t in self.num:
            return ''.join(chr(c) for c in self.num[t])     # a numeral, as spelled
        return t

    def render(self, toks, spaces=False, fcase=0, wrap=None):
        parts = [self.token(t, fcase, marked=spaces) for t in toks]
        if wrap:
            lo, hi = wrap
            parts = parts[:lo - 1] + ['('] + parts[lo - 1:hi] + [')'] + parts[hi:]
        if not spaces:
            return '=' + ''.join(parts)
        out = []
        for i, p in enumerate(parts):
            if i:
                out.append(' ' * self.rnd.choice((0, 1, 1, 2)))
            out.append(p)
        return '=' + ''.join(out)

    def spellings(self, vec, lean=False):
        toks = vec['toks']
        rnd = self.rnd
        has_call = any(t in CASED for t in toks)
        span = rnd.choice(vec['sp'])
        out = [('plain', self.render(toks))]
        if not lean:
            out += [('spaces', self.render(toks, spaces=True)),
                    ('parens', self.render(toks, wrap=span))]
            if has_call:
                out.append(('case', self.render(toks, fcase=rnd.randint(1, 3))))
        out.append(('all', self.render(toks, spaces=True, fcase=rnd.randint(0, 3),
                                       wrap=rnd.choice(vec['sp']))))
        seen, uniq = set(), []
        for k, f in out:
            if f not in seen:
                seen.add(f)
                uniq.append((k, f))
        return uniq


# ---------------------------------------------------------------------------

class Collector:
    """what one worker process reports back (a Verdict without the file)"""

    def __init__(self):
        self.violations, self.samples, self.known = [], [], []
        self.evaluations = 0

    def case(self, key):
        self.evaluations += 1

    def sample(self, obj, limit=3):
        if len(self.samples) < limit:
            self.samples.append(obj)

    def violation(self, desc, case):
        self.violations.append(dict(desc=desc, case=case))

    def known_finding(self, fid, desc, case):
        self.known.append(dict(fid=fid, desc=desc, case=case))


class Counted:
    """stands in for Verdict.distinct: the cases of this check are distinct
    by construction ((route, formula text, environment), texts deduplicated
    per formula), so only their number is kept"""

    def __init__(self):
        self.n = 0

    def add(self, key):
        self.n += 1

    def __len__(self):
        return self.n


class Binder:
    def __init__(self, v, tables, rnd):
        from pycel.excelformula import ExcelFormula
        self.v, self.rnd = v, rnd
        self.tables = tables
        self.sp = Speller(tables, rnd)
        self.ExcelFormula = ExcelFormula
        self.refs = set(tables['refs'])
        self.cells = [env_cells(tables, e) for e in range(len(tables['envs']))]
        log = logging.getLogger('pycel_c02')
        log.addHandler(logging.NullHandler())
        log.propagate = False
        log.setLevel(logging.CRITICAL)
        self.ctx = []
        for cells in self.cells:
            ev, ev_range = reader(cells)
            self.ctx.append((ExcelFormula.build_eval_context(ev, ev_range, log), ev))
        self.skipped = 0
        self.by_route = Counter()
        self.by_spelling = Counter()

    def judge(self, route, kind, vec, e, f, got):
        v = self.v
        want = vec['vals'][e]
        v.case((route, f, e))
        self.by_route[route] += 1
        self.by_spelling[kind] += 1
        why = mismatch(got, want, vec['scale'][e])
        if why:
            env = {k: show(x) for k, x in self.tables['envs'][e].items()} \
                if self.uses_refs(vec) else {}
            desc = f'[{route}/{kind}] {f} {env or ""}: reference value {show(want)}; {why}'
            case = dict(route=route, spelling=kind, formula=f, env=e, toks=vec['toks'],
                        want=want, scale=vec['scale'][e], got=brief(got, 200))
            # the known deviation, and nothing else: the formula holds a text
            # literal spelled like an error value and the result is exactly
            # the value of the formula with that literal read as the error
            dev = vec.get('dev') or None
            if dev and not mismatch(got, dev[e], vec['scale'][e]):
                case['deviant'] = dev[e]
                v.known_finding(FINDING_ERROR_TEXT,
                                desc + f' (= {show(dev[e])}, the text read as an error value)',
                                case)
            else:
                v.violation(desc, case)

    def uses_refs(self, vec):
        return any(t in self.refs for t in vec['toks'])

    def bind(self, vectors, wb_share=1.0, lean_from=99):
        """evaluate every vector in every spelling through both routes
        (formulas of lean_from tokens or more: plain + everything-at-once)"""
        v = self.v
        plan = {}      # env index -> list of (kind, vec, formula)
        for vec in vectors:
            v.sample(dict(formula=self.sp.render(vec['toks']),
                          values=[show(x) for x in vec['vals']]))
            envs = range(len(self.cells)) if self.uses_refs(vec) else (0,)
            spellings = self.sp.spellings(vec, lean=len(vec['toks']) >= lean_from)
            for e in envs:
                if vec['vals'][e][0] == 'U':
                    self.skipped += 1
                    continue
                for kind, f in spellings:
                    # route 1: ExcelFormula + build_eval_context
                    got = through_context(self.ExcelFormula, *self.ctx[e], f)
                    self.judge('eval_context', kind, vec, e, f, got)
                    if wb_share >= 1.0 or self.rnd.random() < wb_share:
                        plan.setdefault(e, []).append((kind, vec, f))
        # route 2: a workbook, ExcelCompiler.evaluate
        for e, items in plan.items():
            for start in range(0, len(items), CHUNK):
                chunk = items[start:start + CHUNK]
                cells = workbook_cells(self.cells[e])
                for r, (kind, vec, f) in enumerate(chunk, 1):
                    cells[f'{FCOL}{FROW + r}'] = f
                try:
                    model = xl.compile_wb(cells)
                except Exception as exc:        # noqa
                    model = exc
                for r, (kind, vec, f) in enumerate(chunk, 1):
                    if isinstance(model, Exception):
                        got = model
                    else:
                        try:
                            got = model.evaluate(f'{HOME}!{FCOL}{FROW + r}')
                        except Exception as exc:    # noqa
                            got = exc
                    self.judge('workbook', kind, vec, e, f, got)


# ---------------------------------------------------------------------------

STATIC_CFG = {('prec', 5): 'Formula_mc.cfg', ('lit', 3): 'Formula_lit.cfg',
              ('ext', 3): 'Formula_ext.cfg', ('nest', 13): 'Formula_nest.cfg',
              ('code', 13): 'Formula_code.cfg', ('arg', 11): 'Formula_arg.cfg',
              ('sim', 9, 6): 'Formula_sim.cfg', ('ref', 13, 4): 'Formula_ref.cfg'}


def run_exhaustive(v, name, maxlen, invariants, workers=8, timeout=1500):
    if (name, maxlen) in STATIC_CFG:        # the quick tier runs the committed cfg files
        cfg = os.path.join(tlc.SPEC, STATIC_CFG[(name, maxlen)])
    else:
        cfg = os.path.join(tlc.new_scratch('formula'), f'{name}.cfg')
        with open(cfg, 'w') as f:
            f.write(cfg_text(name, maxlen, 1, invariants))
    res = tlc.run('MC_Formula', cfg, spec_dir=tlc.SPEC, workers=workers,
                  timeout=timeout, heap='6g', env=JVM)
    if not res.ok:
        raise tlc.MachineryFailure(
            f'Formula model ({name}, {maxlen} tokens) violates {res.violated}:\n'
            + res.stdout[-2500:])
    tables = [x['tables'] for x in res.json if 'tables' in x]
    vectors = [x for x in res.json if 'toks' in x]
    res.stdout, res.json = '', []
    states, complete = count_formulas(maxlen=maxlen, **CFG[name]['counts'])
    if res.distinct != states:
        raise tlc.MachineryFailure(
            f'{name}: TLC found {res.distinct} states, the independent count of the '
            f'generator is {states}')
    if len(vectors) != complete or len({tuple(x['toks']) for x in vectors}) != complete:
        raise tlc.MachineryFailure(
            f'{name}: export incomplete, {len(vectors)} formulas for {complete} '
            f'complete states')
    if not tables:
        raise tlc.MachineryFailure(f'{name}: token tables not exported')
    return res, tables[0], vectors


def run_simulation(v, name, maxlen, minexport, num, seed, timeout=600, workers=4):
    if (name, maxlen, minexport) in STATIC_CFG:
        cfg = os.path.join(tlc.SPEC, STATIC_CFG[(name, maxlen, minexport)])
    else:
        cfg = os.path.join(tlc.new_scratch('formula'), f'{name}.cfg')
        with open(cfg, 'w') as f:
            f.write(cfg_text(name, maxlen, minexport,
                             ['TypeOK', 'PrintParse', 'RedundantParens', 'ValueTotal',
                              'Export']))
    res = tlc.run('MC_Formula', cfg, spec_dir=tlc.SPEC, workers=workers,
                  simulate=dict(num=num), depth=maxlen + 2, seed=seed,
                  timeout=timeout, heap='4g', env=JVM)
    if not res.ok:
        raise tlc.MachineryFailure(
            f'Formula model (simulation {name}, {maxlen} tokens) violates {res.violated}:\n'
            + res.stdout[-2500:])
    seen, vectors = set(), []
    for x in res.json:
        if 'toks' in x and tuple(x['toks']) not in seen:
            seen.add(tuple(x['toks']))
            vectors.append(x)
    if not vectors:
        raise tlc.MachineryFailure(f'simulation {name} exported no formula')
    return res, vectors


_JOB = {}


def _bind_chunk(args):
    idx, lo, hi, wb_share, lean_from = args
    col = Collector()
    b = Binder(col, _JOB['tables'], random.Random(_JOB['seed'] * 1000003 + idx))
    b.bind(_JOB['vectors'][lo:hi], wb_share, lean_from)
    return dict(violations=col.violations[:40], nviol=len(col.violations),
                known=col.known[:10], nknown=len(col.known),
                evaluations=col.evaluations, samples=col.samples, skipped=b.skipped,
                by_route=b.by_route, by_spelling=b.by_spelling)


def bind_parallel(v, totals, tables, vectors, seed, wb_share, procs, chunk=1500,
                  lean_from=99):
    """split the vectors over worker processes (fork: the vectors are
    inherited, only the reports travel back)"""
    import multiprocessing as mp
    _JOB.update(tables=tables, vectors=vectors, seed=seed)
    jobs = [(i, lo, min(lo + chunk, len(vectors)), wb_share, lean_from)
            for i, lo in enumerate(range(0, len(vectors), chunk))]
    if procs <= 1 or len(jobs) <= 1:
        reports = [_bind_chunk(j) for j in jobs]
    else:
        with mp.get_context('fork').Pool(procs) as pool:
            reports = pool.map(_bind_chunk, jobs, chunksize=1)
    for r in reports:
        for x in r['violations']:
            if len(v.violations) < 2000:
                v.violation(x['desc'], x['case'])
        totals['violations_total'] += r['nviol']
        for x in r['known']:
            if sum(len(c) for c in v.known.values()) + len(v.violations) < 2000:
                v.known_finding(x['fid'], x['desc'], x['case'])
        totals['known_total'] += r['nknown']
        v.evaluations += r['evaluations']
        v.distinct.n += r['evaluations']
        for smp in r['samples']:
            v.sample(smp)
        totals['skipped'] += r['skipped']
        totals['by_route'].update(r['by_route'])
        totals['by_spelling'].update(r['by_spelling'])


ACTION_TOKEN = dict(AddPrefix=('u-', 'u+'), AddOpen=('(',), AddCall=ALL_CALLS,
                    AddPostfix=('%',), AddBinary=tuple(ALL_BINARY), AddComma=(',',),
                    AddClose=(')',))


def actions_taken(vectors):
    c = Counter()
    for vec in vectors:
        for t in vec['toks']:
            for act, toks in ACTION_TOKEN.items():
                if t in toks:
                    c[act] += 1
                    break
            else:
                c['AddOperand'] += 1
    return c


def run(tier, seed):
    v = Verdict(PID, tier, seed)
    v.distinct = Counted()
    rnd = random.Random(seed)
    laws = ['TypeOK', 'PrintParse', 'RedundantParens', 'ValueTotal', 'Export']
    quick = tier == 'quick'
    # token bounds of the exhaustive runs
    bound = dict(lit=3, prec=5, ext=3, nest=13, code=13, arg=11) if quick else \
        dict(lit=4, prec=7, ext=4, nest=17, code=15, arg=13)
    # the sampled runs: (most tokens, fewest tokens exported, traces)
    sims = dict(sim=(9, 6, 15), ref=(13, 4, 15)) if quick else \
        dict(sim=(12, 8, 150), ref=(15, 6, 150))
    tlc_workers = dict(lit=4, prec=6 if quick else 12, ext=2, nest=2, code=2, arg=2)
    procs = 10 if quick else 14

    # the TLC runs are independent: run them side by side and bind each
    # export as soon as it is there
    tlc.scratch_dir()
    results, errors = {}, {}

    def job(key, fn, *args, **kw):
        try:
            results[key] = fn(*args, **kw)
        except BaseException as exc:     # noqa  re-raised by wait()
            errors[key] = exc
    threads = {name: threading.Thread(target=job,
                                      args=(name, run_exhaustive, v, name, n, laws),
                                      kwargs=dict(workers=tlc_workers[name]))
               for name, n in bound.items()}
    for name, (mx, mn, num) in sims.items():
        threads[name] = threading.Thread(target=job, args=(name, run_simulation, v, name, mx,
                                                           mn, num, seed),
                                         kwargs=dict(workers=4 if name == 'sim' else 3))
    for t in threads.values():
        t.start()

    def wait(key):
        threads[key].join()
        if key in errors:
            for t in threads.values():
                t.join()
            raise errors[key]
        return results[key]

    totals = dict(skipped=0, by_route=Counter(), by_spelling=Counter(), violations_total=0,
                  known_total=0)
    seen = set()
    formulas = {}

    def fresh(vectors):
        out = []
        for x in vectors:
            k = tuple(x['toks'])
            if k not in seen:
                seen.add(k)
                out.append(x)
        return out

    tables = None
    # the small exhaustive sets: every formula through both routes, every spelling
    for k, name in enumerate(('ext', 'code', 'arg', 'nest', 'lit')):
        res, tables, vec = wait(name)
        v.add_tlc(res, f'Formula {name} <= {bound[name]} tokens')
        vec = fresh(vec)
        formulas[name] = len(vec)
        bind_parallel(v, totals, tables, vec, seed + 10 + k, 1.0, procs,
                      chunk=1500 if name == 'lit' else 150)

    sampled = {}
    for k, name in enumerate(sims):
        mx, mn, num = sims[name]
        res, vec = wait(name)
        v.add_tlc(res, f'Formula simulate {name} <= {mx} tokens')
        vec = [x for x in vec if len(x['toks']) >= mn]
        rnd.shuffle(vec)
        vec = fresh(vec[:(1000 if quick else 12000) if name == 'sim' else
                        (600 if quick else 8000)])
        sampled[name] = vec
        formulas['sampled_' + name] = len(vec)
        bind_parallel(v, totals, tables, vec, seed + 2 + k, 1.0, procs, chunk=250)

    res_p, _, vec_p = wait('prec')
    v.add_tlc(res_p, f'Formula prec <= {bound["prec"]} tokens')
    taken = actions_taken(vec_p)
    for act in ('AddOperand',) + tuple(ACTION_TOKEN):
        if not taken[act]:
            raise tlc.MachineryFailure(f'vacuous: action {act} never taken (prec run)')
    vec_p = fresh(vec_p)
    formulas['prec'] = len(vec_p)
    bind_parallel(v, totals, tables, vec_p, seed + 1, 0.35 if quick else 0.1, procs,
                  chunk=1500 if quick else 4000, lean_from=99 if quick else 7)

    v.traces = len(seen)
    lens = {name: Counter(len(x['toks']) for x in vec) for name, vec in sampled.items()}
    v.extra.update(
        exhaustive=True,
        bounds=dict({k + '_tokens': n for k, n in bound.items()},
                    **{'sampled_' + k + '_tokens': [mn, mx] for k, (mx, mn, _) in sims.items()}),
        formulas=formulas,
        sampled_by_length={name: {str(k): c[k] for k in sorted(c)} for name, c in lens.items()},
        generator_actions_in_exported_formulas=dict(taken),
        skipped_unmodelled=totals['skipped'],
        violations_total=totals['violations_total'],
        known_finding_cases_total=totals['known_total'],
        evaluations_by_route=dict(totals['by_route']),
        evaluations_by_spelling=dict(totals['by_spelling']),
        environments=[{k: show(x) for k, x in env.items()} for env in tables['envs']],
        sheets={t: f'{sheet_names(tables)[ref[0]]}!{get_column_letter(ref[2])}{ref[1]}'
                for t, ref in tables['refs'].items()},
        rule='one case = (route, formula text, environment); every exhaustive run is '
             'cross-checked against an independent count of the grammar; the workbook '
             'route (the cells of the environment on the sheet of the formula and on the '
             'five other sheets) is taken for every formula of the lit, ext, nest, code and '
             'sampled sets and for a random share of the prec set; thorough: 7-token '
             'formulas of the prec set in two spellings (plain, all variations at once) '
             'instead of five',
        not_judged=['values the reference marks U: 32-bit guard (e.g. 2^1E2), fractional '
                    'powers of positive numbers, 0^0, comparisons/concatenations/zero '
                    'tests that depend on a non-dyadic intermediate (binary floating '
                    'point), order of texts with characters outside letters/digits, '
                    'SUM of text/logical/blank arguments (C14), IF with a text '
                    'condition, two-argument IF, IF returning a blank reference, '
                    'LEN of a number or a logical, OFFSET by a fraction, a text or a '
                    'logical, the content of a cell that OFFSET reaches and the '
                    'environment does not bind',
                    'eval-context route: a formula whose value is a reference '
                    '(=OFFSET(A1,0,1)) is read by the harness as ExcelCompiler reads it '
                    'for a cell of a workbook',
                    'lower-case references (Excel stores them upper-case)',
                    'spaces between two adjacent operands (intersection operator)'])
    v.assumptions = ['TLC evaluates the Formula/ExcelValues definitions correctly',
                     'numbers compared with 1e-12 relative tolerance against the exact rational']
    return v.finish()


def replay(path):
    with open(path) as f:
        rec = json.load(f)
    case = rec['case']
    from pycel.excelformula import ExcelFormula
    # the tables (environments, sheets of the references) are the same in every run
    res = tlc.run('MC_Formula', 'Formula_ext.cfg', workers=1, timeout=600, env=JVM)
    tables = [x['tables'] for x in res.json if 'tables' in x][0]
    cells = env_cells(tables, case['env'])
    f = case['formula']
    if case['route'] == 'eval_context':
        log = logging.getLogger('pycel_c02')
        log.addHandler(logging.NullHandler())
        log.propagate = False
        ev, ev_range = reader(cells)
        got = through_context(ExcelFormula, ExcelFormula.build_eval_context(ev, ev_range, log),
                              ev, f)
    else:
        wbc = workbook_cells(cells)
        wbc[f'{FCOL}{FROW}'] = f
        try:
            got = xl.compile_wb(wbc).evaluate(f'{HOME}!{FCOL}{FROW}')
        except Exception as exc:     # noqa
            got = exc
    why = mismatch(got, case['want'], case.get('scale', 0))
    print(f"replay {rec['desc']}\n  now: {brief(got, 200)}")
    if why:
        print(f'VIOLATION property={PID} replay={path}\n  {why}')
        return 1
    print(f'{PID}: replayed case now conforms')
    return 0
