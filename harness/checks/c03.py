"""C03 -- persisted models are observationally equivalent to the saved model.

spec/Persist.tla models the save/load protocol (text file, pickle file,
"rewrite the pickle only if the text changed or the pickle is missing",
extension search order) with the named deviation DEV_StalePickle; TLC checks
LoadedEquiv and SaveIdempotent for the repaired rule and exports every
history up to the depth bound for both rules.  Every history is executed on
real files: the loaded model must equal the live model whenever the file it
came from is current; a discrepancy is attributed to known finding D9 only
when the model WITH the deviation predicts exactly the observed content and
the model WITHOUT it predicts the live content.  Further parts: content
fidelity over an adversarial value pool (yaml/json look-alikes, floats,
unicode, multi-line; D10 by predictor), long texts (one model holding a run of
1..3 spaces at every offset of texts shorter and longer than a line of the
file, and random texts of 1..400 characters over small alphabets, as constants
and as the text literals of formulas), lock-step post-load histories of the
original and the loaded model (same process, fresh process, fresh thread;
cycles on/off; yml/json/pkl), byte-identical re-save, save-load-save, and
survival of the metadata.  Saving the LOADED model (SaveLoaded / ResaveReproduces
of Persist.tla) is executed in the protocol part -- the atoms of Vals bound to
numbers of the number family on every other history -- and in the fidelity
part for every value of the pool and of the number family (integers, decimals,
floats whose shortest text is in exponent notation with 1..17 digits, the
edges of the float range), to every file type: the second files hold the
content of the first and load to the same values and extra_data.  Every part
also runs on models which need a plugin module (harness/plugin_c03.py:
VID(x) = x around formulas which are members of ranges and readers of ranges):
the module is named when the model is compiled and when it is loaded, as
Reload.tla says (the function table is the same on both sides of the trip).
"""
import json
import math
import os
import random
import subprocess
import sys
import threading

from harness import parallel, plugin_c03 as PLUG, randwb, tlc, workbooks as W, xl
from harness.evidence import Verdict

PID = 'C03'
TXT = {'yml': 'yml', 'json': 'json'}
POOL = [1e-7, 1e22, -0.0, 0.1 + 0.2, 2 ** 53 + 1, 1e300, 123456789012345678, -3, 2.5,
        True, False, None, '', 'true', 'null', '~', '1e3', '0x10', 'a: b', '- x', '#N/A',
        '=A9', '=1+1', "'q", 'üñí日本', 'line1\nline2', ' lead', 'trail ', '"quoted"', '{a: 1}',
        '[1, 2]', 'yes', 'no', 'on', 'off', '1_000', '.5', '-', '3.0', '2026-01-01', '12:30',
        '!!python/none', '&a *a', '%TAG', '>folded', '|literal', 'a #c', '\t tab', 'NaN', '.inf',
        'x' * 300, 'tab\tin', 'back\\slash', 'cr\rlf', ' ',
        'del\x7fch', 'c1\x9fctl', 'nel\x85here', 'non\ufffechar', 'emoji\U0001F600!',
        'ls\u2028ps\u2029', '\ufeffbom', 'esc\x1b[0m', 'nul\x00byte', 'crlf\r\nline', 'lone\rcr']


# the function environment of a model compiled with a plugin module: the same
# module is named when the model is compiled and when it is loaded
PLUGINS = (PLUG.MODULE,)


def plugins_of(plug):
    return PLUGINS if plug else None


def brief(exc):
    """an exception in one line: its type and the last line of its message"""
    lines = str(exc).strip().splitlines()
    return f'{type(exc).__name__}: {lines[-1][:200] if lines else ""}'


def same(a, b):
    if isinstance(a, float) and isinstance(b, float) and math.isnan(a) and math.isnan(b):
        return True
    if isinstance(a, float) and isinstance(b, float):
        return a == b and math.copysign(1, a) == math.copysign(1, b)
    return xl.same_value(a, b)


# Numbers of every class a text file writer (and the reader of its text) treats
# differently.  The shortest text of a float is in exponent notation when
# abs >= 1e16 or abs < 1e-4, and has up to 17 significant digits.
NUMBER_EDGES = [5e-324, 2.2250738585072014e-308, 1.7976931348623157e+308, 2.0 ** 63, 2.0 ** -40,
                2.0 ** 100, 1 / 3e10, (0.1 + 0.2) * 1e-6, 1e16, 1e15 + 0.5, 1e-4, 1e-5, 1e23,
                9007199254740993, 10 ** 20, -7]


def number_family(rnd, n):
    """the edges, and n floats: 1..17 significant digits x a decade below 1e-4,
    above 1e16 or in between x sign"""
    out = list(NUMBER_EDGES)
    for i in range(n):
        digits = 1 + i % 17
        mant = rnd.randint(10 ** (digits - 1), 10 ** digits - 1)
        exp = (rnd.randint(-320, -5), rnd.randint(16, 307), rnd.randint(-4, 15))[(i // 17) % 3]
        x = float(f'{mant}e{exp - digits + 1}')
        out.append(-x if rnd.random() < 0.3 else x)
    return out


def is_number(x):
    return isinstance(x, (int, float)) and not isinstance(x, bool)


def canon(x):
    """what a text file holds, comparable: floats by their digits, mappings in file order"""
    if isinstance(x, bool) or x is None:
        return x
    if isinstance(x, float):
        return ('F', repr(float(x)))
    if isinstance(x, int):
        return ('I', int(x))
    if isinstance(x, str):
        return ('S', str(x))
    if isinstance(x, dict):
        return [(canon(k), canon(v)) for k, v in x.items()]
    if isinstance(x, (list, tuple)):
        return [canon(e) for e in x]
    return ('?', repr(x))


def content_diff(path1, path2):
    """the top-level keys in which two text files differ (cells, code, constants,
    metadata, extra_data; both read with the reader from_file uses)"""
    from ruamel.yaml import YAML
    with open(path1) as f1, open(path2) as f2:
        d1, d2 = YAML().load(f1), YAML().load(f2)
    if [canon(k) for k in d1] != [canon(k) for k in d2]:
        return [f'keys {list(d1)} vs {list(d2)}']
    return [f'{k}: {str(d1[k])[:100]} vs {str(d2[k])[:100]}'
            for k in sorted(d1, key=lambda k: k != 'cell_map') if canon(d1[k]) != canon(d2[k])]


# ---------------------------------------------------------------- part A
def protocol_job(arg):
    text_ext, cycles, seed, max_leaves, plug_every, (shard, shards) = arg
    from pycel import ExcelCompiler
    out = dict(part='protocol', ext=text_ext, cycles=bool(cycles),
               tlc=[], violations=[], known=[], notes=[], cases=0, histories=0, loads=0,
               stale_seen=0, plugin_histories=0, resaves=0, bound_histories=0, sample=None)
    preds = {}
    for dev in ('TRUE', 'FALSE'):
        d = tlc.new_scratch('pers')
        cfg = os.path.join(d, 'p.cfg')
        with open(cfg, 'w') as f:
            f.write('CONSTANTS\n Inputs <- MCInputs\n Vals <- MCVals\n Init0 <- MCInit0\n'
                    f' TextIsYml = {"TRUE" if text_ext == "yml" else "FALSE"}\n'
                    f' DEV_StalePickle = {dev}\nSPECIFICATION Spec\nINVARIANT Export\n'
                    'CONSTRAINT Depth\nINVARIANT ResaveReproduces\n'
                    + ('INVARIANT LoadedEquiv\nPROPERTY SaveIdempotent\n' if dev == 'FALSE' else ''))
        res = tlc.run('MC_Persist', cfg, workers=1, timeout=900)
        if not res.ok:
            raise tlc.MachineryFailure(f'Persist.tla (DEV_StalePickle={dev}) violates {res.violated}')
        recs = [r for r in res.json if len(r['hist']) <= 5]      # within CONSTRAINT Depth
        if len(recs) != res.distinct:
            raise tlc.MachineryFailure(f'Persist export incomplete: {len(recs)} vs {res.distinct}')
        if shard == 0:
            out['tlc'].append(dict(run=f'Persist DEV_StalePickle={dev}', distinct=res.distinct,
                                   generated=res.generated, depth=res.depth,
                                   wall_s=round(res.wall, 2)))
        for rec in recs:
            preds.setdefault(json.dumps(rec['hist'], sort_keys=True), {})[dev] = rec
    # maximal histories only (every prefix is checked on the way)
    keys = sorted(k for k, p in preds.items() if 'TRUE' in p)     # behaviours of the code's rule
    hists = [json.loads(k) for k in keys]
    prefixes = {json.dumps(h[:-1], sort_keys=True) for h in hists if h}
    leaves = [h for h in hists if json.dumps(h, sort_keys=True) not in prefixes and h]
    rnd = random.Random(seed)
    rnd.shuffle(leaves)
    # histories that end by loading a file, or by saving the loaded model, observe
    # the most: keep them first
    leaves.sort(key=lambda h: h[-1]['op'] not in ('from_file', 'save_loaded'))
    out['leaves_total'] = len(leaves)
    # (thorough: the histories are shared out between several jobs)
    leaves = leaves[:max_leaves][shard::shards]
    if not any(s_['op'] == 'save_loaded' for h in leaves for s_ in h):
        raise tlc.MachineryFailure('vacuous: no history saves a loaded model')
    numbers = number_family(random.Random(seed * 31 + 7), 51)
    rnd = random.Random(seed * 1009 + shard)       # the bindings of this job's histories
    workdir = tlc.new_scratch('files')
    cells0 = {'A1': 1, 'B1': '=A1+1', 'C1': '=SUM(A1:B1)', 'D1': '=C1&"x"'}
    # the same workbook for a model with a plugin module: B1, a member of the
    # range A1:B1, and D1 call a function of it
    cells1 = dict(cells0, B1=PLUG.wrap(cells0['B1']), D1=PLUG.wrap(cells0['D1']))
    for hi, hist in enumerate(leaves):
        plug = bool(plug_every) and hi % plug_every == plug_every - 1
        # the atoms 1, 2 of Vals: the numbers 1, 2, or (every other history) two
        # numbers of the number family
        bind = {1: 1, 2: 2}
        if hi % 2:
            bind = dict(zip((1, 2), rnd.sample(numbers, 2)))
            out['bound_histories'] += 1
        cells = dict(cells1 if plug else cells0, A1=bind[1])
        out['plugin_histories'] += plug
        loaded = loaded_obs = loaded_meta = None
        base = os.path.join(workdir, f'h{hi}_model')
        m = xl.compile_wb(cells, cycles=cycles, plugins=plugins_of(plug))
        for c in 'BCD':
            m.evaluate(f'S!{c}1')
        done = []
        out['histories'] += 1
        for step in hist:
            done.append(step)
            pred = preds[json.dumps(done, sort_keys=True)]
            case = dict(text_ext=text_ext, cycles=bool(cycles), cells=cells,
                        history=[dict(s_, v=bind[s_['v']]) if 'v' in s_ else s_ for s_ in done],
                        plugins=plugins_of(plug))
            out['cases'] += 1
            try:
                if step['op'] == 'set_value':
                    m.set_value('S!A1', bind[step['v']])
                elif step['op'] == 'set_meta':
                    m.extra_data = {'note': 'edited', 'n': [1, 2]}
                elif step['op'] == 'to_file':
                    kinds = sorted(step['kinds'])
                    types = tuple({'txt': text_ext, 'pkl': 'pkl'}[k] for k in kinds)
                    before = open(base + '.' + text_ext, 'rb').read() \
                        if os.path.exists(base + '.' + text_ext) else None
                    m.to_file(base, file_types=types)
                    unchanged = pred['TRUE']['txt']['ex'] and 'txt' in kinds and \
                        preds[json.dumps(done[:-1], sort_keys=True)]['TRUE']['txt'] == pred['TRUE']['txt']
                    if unchanged and before is not None:
                        after = open(base + '.' + text_ext, 'rb').read()
                        if after != before:
                            out['violations'].append((
                                f'saving the unchanged model again changed {text_ext} file bytes',
                                case))
                    # files on disk as the model says
                    for kind, ext in (('txt', text_ext), ('pkl', 'pkl')):
                        if os.path.exists(base + '.' + ext) != pred['TRUE'][kind]['ex'] and \
                                len(out['notes']) < 3:
                            out['notes'].append(f'spec-drift: {ext} file existence differs from '
                                                f'Persist.tla after {done}')
                elif step['op'] == 'from_file':
                    name = {'txt': base + '.' + text_ext, 'pkl': base + '.pkl', 'auto': base}[step['ext']]
                    loaded = ExcelCompiler.from_file(name, plugins=plugins_of(plug))
                    out['loads'] += 1
                    got = loaded.evaluate('S!A1')
                    deps = [loaded.evaluate(f'S!{c}1') for c in 'BCD']
                    live = m.evaluate('S!A1')
                    live_deps = [m.evaluate(f'S!{c}1') for c in 'BCD']
                    loaded_obs = [got] + deps
                    loaded_meta = {k: (loaded.extra_data or {}).get(k) for k in ('note', 'n')}
                    want_dev = bind[pred['TRUE']['loaded']['c']['A1']]
                    want_ok = bind[pred['FALSE']['loaded']['c']['A1']] if 'FALSE' in pred else None
                    kind = pred['TRUE']['lastop'][2]
                    # is the file current (saved after the last change)?
                    last_save = max((i for i, s in enumerate(done)
                                     if s['op'] == 'to_file' and kind in s['kinds']), default=-1)
                    last_change = max((i for i, s in enumerate(done)
                                       if s['op'] in ('set_value', 'set_meta')), default=-1)
                    current = last_save > last_change
                    if not same(got, want_dev) and len(out['notes']) < 3:
                        out['notes'].append(f'spec-drift: from_file returned A1={got!r}, '
                                            f'Persist.tla (code rule) says {want_dev!r} after {done}')
                    if current:
                        if not (same(got, live) and all(same(a, b) for a, b in zip(deps, live_deps))):
                            if same(got, want_dev) and same(want_ok, live) and want_dev != want_ok:
                                out['stale_seen'] += 1
                                out['known'].append((
                                    f'from_file({step["ext"]}) after {[s["op"] + str(sorted(s.get("kinds", ""))) for s in done[:-1]]} '
                                    f'returns the old value {got!r} (live {live!r})', case))
                            else:
                                out['violations'].append((
                                    f'from_file({os.path.basename(name)}) returned A1={got!r}, '
                                    f'B1..D1={deps!r}; the saved model has {live!r}, {live_deps!r}',
                                    case))
                        meta_live = 1 if (m.extra_data or {}).get('note') else 0
                        meta_loaded = 1 if (loaded.extra_data or {}).get('note') else 0
                        if meta_loaded != meta_live or (
                                meta_live and {k: (loaded.extra_data or {}).get(k) for k in ('note', 'n')}
                                != {k: m.extra_data.get(k) for k in ('note', 'n')}):
                            dev_m = pred['TRUE']['loaded']['m']
                            ok_m = pred['FALSE']['loaded']['m'] if 'FALSE' in pred else None
                            if meta_loaded == dev_m and ok_m == meta_live and dev_m != ok_m:
                                out['stale_seen'] += 1
                                out['known'].append((
                                    f'from_file({step["ext"]}) returns the extra_data of an older '
                                    f'save (stale pickle)', case))
                            else:
                                out['violations'].append((
                                    f'extra_data did not survive: {dict(loaded.extra_data or {})!r} vs '
                                    f'{dict(m.extra_data or {})!r}', case))
                elif step['op'] == 'save_loaded':
                    # the model the last from_file returned is saved: text file and pickle
                    out['resaves'] += 1
                    again = base + '_again'
                    loaded.to_file(again, file_types=(text_ext, 'pkl'))
                    src_kind = pred['TRUE']['lastop'][2]
                    holds = pred['TRUE']['again']
                    # the text file the live model wrote holds the content loaded: the
                    # second text file holds it too
                    if pred['TRUE']['txt']['ex'] and pred['TRUE']['txt'] == holds:
                        diff = content_diff(base + '.' + text_ext, again + '.' + text_ext)
                        if diff:
                            out['violations'].append((
                                f'the model loaded from the {src_kind if src_kind == "pkl" else text_ext} '
                                f'file, saved again: the {text_ext} file differs from the first '
                                f'one in {diff[:2]}', case))
                    for ext in (text_ext, 'pkl'):
                        second = ExcelCompiler.from_file(again + '.' + ext, plugins=plugins_of(plug))
                        obs = [second.evaluate(f'S!{c}1') for c in 'ABCD']
                        if not all(same(a, b) for a, b in zip(obs, loaded_obs)):
                            out['violations'].append((
                                f'the model loaded from the {src_kind if src_kind == "pkl" else text_ext} '
                                f'file has A1..D1={loaded_obs!r}; saved again and read from the '
                                f'{ext} file it has {obs!r}', case))
                        if {k: (second.extra_data or {}).get(k) for k in ('note', 'n')} != loaded_meta:
                            out['violations'].append((
                                f'extra_data of the loaded model did not survive its save '
                                f'({ext}): {dict(second.extra_data or {})!r}', case))
            except Exception as exc:          # noqa
                out['violations'].append((f'{step} raised {brief(exc)}', case))
                break
        if out['sample'] is None:
            out['sample'] = dict(history=hist, text_ext=text_ext)
        if len(out['violations']) > 5:
            break
    out['violations'] = out['violations'][:5]
    out['known'] = out['known'][:3]
    return out


# ---------------------------------------------------------------- part B
def deviant_value(val, ft):
    """(known finding, the text as the named deviation of file type ft reads it
    back) or None.  DEV_YamlNel (D57): U+0085 in a yml file -- the pickle is made
    from one -- is read as a space; DEV_JsonNonBmp (D56): a character beyond
    U+FFFF in a json file is read as its two surrogates."""
    if not isinstance(val, str):
        return None
    if ft in ('yml', 'pkl') and '\x85' in val:
        return 'D57', val.replace('\x85', ' ')
    if ft == 'json' and any(ord(ch) > 0xFFFF for ch in val):
        return 'D56', ''.join(
            ch if ord(ch) <= 0xFFFF else
            chr(0xD800 + ((ord(ch) - 0x10000) >> 10)) + chr(0xDC00 + ((ord(ch) - 0x10000) & 0x3FF))
            for ch in val)
    return None


KNOWN_TEXT = {'D57': 'U+0085 in a text value becomes a space', 'D56': 'a character beyond U+FFFF '
              'comes back as two surrogates'}


def differing(addrs, want, got):
    return [(a, w, g) for a, w, g in zip(addrs, want, got)
            if w[0] != g[0] or (w[0] == 'ok' and not (
                same(w[1], g[1]) or (isinstance(w[1], tuple) and w[1] == g[1])))]


def fidelity_job(arg):
    ft, cycles, seed, plug, n_numbers = arg
    from pycel import ExcelCompiler
    out = dict(part='fidelity/plugin' if plug else 'fidelity', ext=ft, cycles=bool(cycles), tlc=[],
               violations=[], known=[], notes=[], cases=0, resaves=0, sample=None)
    pool = POOL + number_family(
        random.Random(seed * 131 + sum(map(ord, ft)) + 2 * bool(cycles) + bool(plug)), n_numbers)
    workdir = tlc.new_scratch('fid')
    cells = {'A1': 5, 'A2': 'k', 'B1': '=A1&"|"', 'C1': '=A1', 'D1': '=IF(ISNUMBER(A1),A1*2,"t")',
             'E1': '=LEN(A2&A1)', 'F1': '=SUM(A1:A2)'}
    addrs = [f'S!{c}' for c in ('A1', 'B1', 'C1', 'D1', 'E1', 'F1', 'A1:A2')]
    if plug:
        # every formula needs the plugin module; G1 reads them through a range
        cells = {a: PLUG.wrap(c) if isinstance(c, str) and c.startswith('=') else c
                 for a, c in cells.items()}
        cells['G1'] = '=COUNT(B1:F1)&"/"&SUM(C1:D1)'
        addrs += ['S!G1', 'S!B1:F1']

    def observe(model):
        res = []
        for a in addrs:
            try:
                res.append(('ok', model.evaluate(a)))
            except Exception as exc:      # noqa
                res.append(('exc', type(exc).__name__))
        return res

    for i, val in enumerate(pool):
        out['cases'] += 1
        m = xl.compile_wb(cells, cycles=cycles, plugins=plugins_of(plug))
        case = dict(file_type=ft, cycles=bool(cycles), value=repr(val), cells=cells,
                    plugins=plugins_of(plug))
        # user extra_data holding the number (texts in extra_data are not exercised)
        extra = {'num': val, 'nums': [val, 0.5]} if is_number(val) else {'num': 1}
        m.extra_data = dict(extra)
        # keys which are numbers (a json file has text keys only: yml and pkl)
        numkeys = {7: 'seven', 2.5: 'half'} if ft != 'json' else {}
        m.extra_data.update(numkeys)
        try:
            for a in addrs:
                m.evaluate(a)
            # what the model returns with the value as a named deviation of a file
            # type reads it back (the predictor of the known findings D56, D57)
            deviant = {}
            for ft2 in ('yml', 'json', 'pkl'):
                dev = deviant_value(val, ft2)
                if dev:
                    m.set_value('S!A1', dev[1])
                    deviant[ft2] = (dev[0], observe(m))
            m.set_value('S!A1', val)
            want = observe(m)
            base = os.path.join(workdir, f'v{i}_model')
            m.to_file(base, file_types=(ft,))
            loaded = ExcelCompiler.from_file(base + '.' + ft, plugins=plugins_of(plug))
            got = observe(loaded)
        except Exception as exc:              # noqa
            if isinstance(val, str) and val.startswith('='):
                out['known'].append(('D10', f'text {val!r} written with set_value is code after '
                                     f'reload ({ft}): {type(exc).__name__}', case))
            else:
                out['violations'].append((f'value {val!r}, {ft}: {brief(exc)}', case))
            continue
        bad = differing(addrs, want, got)
        if bad:
            # (a model which came back different is not saved again: what it would
            # write is the consequence of the same deviation)
            if ft in deviant and not differing(addrs, deviant[ft][1], got):
                out['known'].append((deviant[ft][0], f'{KNOWN_TEXT[deviant[ft][0]]} after {ft} '
                                     f'reload: {bad[0]}', case))
            elif isinstance(val, str) and val.startswith('='):
                out['known'].append(('D10', f'text {val!r} written with set_value is code after '
                                     f'reload ({ft}): {bad[0]}', case))      # DEV_TextLooksLikeFormula
            else:
                out['violations'].append((
                    f'value {val!r} saved to {ft}: loaded model differs {bad[:2]}', case))
        else:
            if canon({k: loaded.extra_data.get(k) for k in extra}) != canon(extra) or \
                    {k: loaded.extra_data.get(k) for k in numkeys} != numkeys:
                out['violations'].append((
                    f'extra_data { {**extra, **numkeys}!r} did not survive {ft}: '
                    f'{dict(loaded.extra_data)!r}', case))
            # ResaveReproduces: the loaded model saved to every file type
            for ft2 in ('yml', 'json', 'pkl'):
                out['resaves'] += 1
                case2 = dict(case, history=[dict(op='from_file', ext=ft), dict(op='save_loaded', ext=ft2),
                                            dict(op='from_file', ext=ft2)])
                try:
                    again = f'{base}_{ft2}_again'
                    loaded.to_file(again, file_types=(ft2,))
                    if ft2 == ft != 'pkl':
                        diff = content_diff(base + '.' + ft, again + '.' + ft)
                        if diff:
                            out['violations'].append((
                                f'value {val!r}: the model loaded from the {ft} file, saved again, '
                                f'writes a {ft} file which differs from the first one in {diff[:3]}',
                                case2))
                            continue
                    second = ExcelCompiler.from_file(again + '.' + ft2, plugins=plugins_of(plug))
                    got2 = observe(second)
                    extra2 = {k: second.extra_data.get(k) for k in extra}
                    if ft2 != 'json' and {k: second.extra_data.get(k) for k in numkeys} != numkeys:
                        extra2['number keys'] = dict(second.extra_data)
                except Exception as exc:          # noqa
                    out['violations'].append((
                        f'value {val!r}: saving the model loaded from {ft} to {ft2} and loading '
                        f'that: {brief(exc)}', case2))
                    continue
                bad2 = differing(addrs, want, got2)
                if bad2 and ft2 in deviant and not differing(addrs, deviant[ft2][1], got2):
                    out['known'].append((deviant[ft2][0], f'{KNOWN_TEXT[deviant[ft2][0]]} after the '
                                         f'model loaded from {ft} is saved to {ft2} and that is '
                                         f'loaded: {bad2[0]}', case2))
                elif bad2 or canon(extra2) != canon(extra) or bool(second.cycles) != bool(cycles):
                    out['violations'].append((
                        f'value {val!r}: the model loaded from the {ft} file, saved to {ft2} and '
                        f'loaded again differs: {bad2[:2] or extra2!r}', case2))
        if len(out['violations']) > 5:
            break
    out['violations'] = out['violations'][:5]
    out['sample'] = dict(pool_size=len(pool), first_values=[repr(x) for x in POOL[:8]],
                         numbers=[repr(x) for x in pool[len(POOL):len(POOL) + 24]])
    # one case of every known finding and kind of trip
    seen, keep = set(), []
    for k in out['known']:
        key = (k[0], 'is saved to' in k[1])
        if key not in seen:
            seen.add(key)
            keep.append(k)
    out['known'] = (keep + [k for k in out['known'] if k not in keep])[:8]
    return out


# ---------------------------------------------------------------- part B2
# Texts of every length up to a few hundred characters -- shorter and longer
# than any line a text file writer may want to fill -- as constants and inside
# the text literals of formulas.  One model holds them all: one save, one load.
ALPHABETS = ['a ', 'ab  \t', 'a  \'"', 'a :#-,', 'a \n', 'a  \x1b\x7f', 'a  éü日', 'a []{}&*!|>%@`?',
             'a =+()<>\\', 'a0 .e-', 'a   ']
ILLEGAL_IN_XLSX = set(map(chr, list(range(0, 9)) + [11, 12] + list(range(14, 32))))
LITERAL_MAX = 255          # Excel: a text literal in a formula has at most 255 characters


def text_family(rnd, sweep_lengths, n_random):
    """a run of 1..3 spaces at every offset of a text of L characters (leading and
    trailing runs included), and random texts over small alphabets"""
    out = []
    for length in sweep_lengths:
        for k in (1, 2, 3):
            for o in range(0, length - k + 1):
                out.append('x' * o + ' ' * k + 'y' * (length - o - k))
    for i in range(n_random):
        alpha = ALPHABETS[i % len(ALPHABETS)]
        t = ''.join(rnd.choice(alpha) for _ in range(rnd.randint(1, 400)))
        if t.startswith('='):
            t = 'a' + t[1:]       # a text starting with '=' is D10, judged on the pool
        out.append(t)
    return out


def literal(t):
    return '"' + t.replace('"', '""') + '"'


def texts_job(arg):
    ft, cycles, seed, idx, n_random = arg
    from pycel import ExcelCompiler
    rnd = random.Random(seed * 104729 + idx)
    out = dict(part='texts', ext=ft, cycles=bool(cycles), tlc=[], violations=[], known=[],
               notes=[], cases=0, sample=None)
    lengths = (70, 130, 260) if idx == 0 else tuple(rnd.randint(30, 400) for _ in range(3))
    texts = text_family(rnd, lengths, n_random)
    # column A: the text as a constant (written with set_value); column B: a
    # formula whose text literal it is, for every third text Excel allows there
    cells, items = {}, []
    for i, t in enumerate(texts, 1):
        cells[f'A{i}'] = 'k'
        items.append((f'S!A{i}', 'constant', t))
        if i % 3 == 0 and len(t) <= LITERAL_MAX and not (ILLEGAL_IN_XLSX & set(t)):
            cells[f'B{i}'] = ('=' if i % 2 else '=LEN(') + literal(t) + ('' if i % 2 else ')')
            items.append((f'S!B{i}', 'literal', t))
    base = os.path.join(tlc.new_scratch('txt'), f't{idx}_model')
    head = dict(file_type=ft, cycles=bool(cycles), sweep_lengths=list(lengths))
    try:
        m = xl.compile_wb(cells, cycles=cycles)
        for a, how, t in items:
            m.evaluate(a)
            if how == 'constant':
                m.set_value(a, t)
        want = [m.evaluate(a) for a, _, _ in items]
        for (a, how, t), w in zip(items, want):
            if w != (t if how == 'constant' or cells[a[2:]][1] == '"' else len(t)):
                raise tlc.MachineryFailure(f'texts: the original model has {w!r} in {a} ({t!r})')
        m.to_file(base, file_types=(ft,))
        if ft != 'pkl':
            first = open(base + '.' + ft, 'rb').read()
            m.to_file(base, file_types=(ft,))
            if open(base + '.' + ft, 'rb').read() != first:
                out['violations'].append((f're-saving the unchanged model changed the {ft} file',
                                          dict(head, texts=len(texts))))
        loaded = ExcelCompiler.from_file(base + '.' + ft)
        got = [loaded.evaluate(a) for a, _, _ in items]
        if ft != 'pkl':
            # saving the loaded model reproduces the content
            loaded.to_file(base + '_again', file_types=(ft,))
            again = ExcelCompiler.from_file(base + '_again.' + ft)
            if [again.evaluate(a) for a, _, _ in items] != got or \
                    sorted(again.cell_map) != sorted(loaded.cell_map):
                out['violations'].append((f'save(load(file)) has other cells than the {ft} file',
                                          dict(head, texts=len(texts))))
    except tlc.MachineryFailure:
        raise
    except Exception as exc:              # noqa
        out['violations'].append((f'model with {len(texts)} text cells, {ft}: {brief(exc)}', head))
        return out
    out['cases'] = len(items)
    bad = sorted(((a, how, t, w, g) for (a, how, t), w, g in zip(items, want, got)
                  if not (type(w) is type(g) and w == g)), key=lambda b: (b[1], len(set(b[2])), len(b[2])))
    for how in ('constant', 'literal'):
        of_kind = [b for b in bad if b[1] == how]
        if of_kind:
            a, _, t, w, g = of_kind[0]            # the shortest text
            out['violations'].append((
                f'{len(of_kind)} of {sum(1 for it in items if it[1] == how)} texts '
                f'({"constants" if how == "constant" else "text literals of formulas"}) differ '
                f'after {ft} reload; shortest: {t!r} -> original {w!r}, loaded {g!r}',
                dict(head, text=t, where=how, cells={'A1': 'k'} if how == 'constant' else
                     {'B1': cells[a[2:]]}, history=[dict(op='set_value', n='A1', v=t)]
                     if how == 'constant' else [dict(op='evaluate', n='B1')])))
    out['sample'] = dict(texts=len(texts), literals=sum(1 for it in items if it[1] == 'literal'),
                         sweep_lengths=list(lengths), first=repr(texts[0])[:60])
    return out


# ---------------------------------------------------------------- part C
CHILD = r'''
import sys, json
sys.path.insert(0, %r); sys.path.insert(0, %r)
from pycel import ExcelCompiler
from harness import workbooks as W
m = ExcelCompiler.from_file(sys.argv[1], plugins=json.loads(sys.argv[3]))
out = []
for act in json.loads(sys.argv[2]):
    try:
        if act["op"] == "evaluate":
            out.append(["ok", W.js_val(m.evaluate("S!" + act["n"]))])
        else:
            m.set_value("S!" + act["n"], W.py_val(act["v"]))
            out.append(["ok", None])
    except Exception as exc:
        out.append(["exc", type(exc).__name__ + ": " + str(exc)[-120:]])
print(json.dumps(out))
'''


def lockstep_job(arg):
    idx, ft, cycles, where, n_hist, length, seed, plug = arg
    from pycel import ExcelCompiler
    rnd = random.Random(seed * 7919 + idx)
    wb = randwb.random_workbook(rnd, nrows=rnd.choice([2, 3]), ncols=rnd.choice([3, 4]))
    if plug:
        # the same workbook with some of its formulas (members of ranges, readers of
        # ranges, plain ones) going through a function of the plugin module
        wb['texts'] = {f: PLUG.wrap(W.formula_text(wb, f)) for f in sorted(wb['formulas'])
                       if rnd.random() < 0.6}
    cells, arrays = W.cells(wb)
    nodes = randwb.all_nodes(wb)
    n = W.nodes(wb)
    out = dict(part=f'lockstep/{where}' + ('/plugin' if plug else ''), ext=ft, cycles=bool(cycles),
               tlc=[], violations=[], known=[], notes=[], cases=0,
               sample=dict(random_workbook=cells, arrays=arrays, where=where, file_type=ft))
    workdir = tlc.new_scratch('ls')
    for h in range(n_hist):
        m = xl.compile_wb(cells, arrays=arrays, cycles=cycles, plugins=plugins_of(plug))
        for node in nodes:
            m.evaluate(W.addr(node))
        # a prefix history before the save
        for _ in range(rnd.randint(0, 3)):
            a = rnd.choice(n['inputs'])
            m.set_value(W.addr(a), rnd.choice(W.POOL_FULL))
        base = os.path.join(workdir, f'w{idx}_{h}_model')
        case = dict(cells=cells, arrays=arrays, file_type=ft, cycles=bool(cycles), where=where,
                    plugins=plugins_of(plug), history=[])
        try:
            m.to_file(base, file_types=(ft,))
        except Exception as exc:              # noqa
            out['cases'] += 1
            out['violations'].append((f'to_file({ft}) raised {brief(exc)}', case))
            if len(out['violations']) > 4:
                break
            continue
        hist = []
        for _ in range(length):
            if rnd.random() < 0.4:
                hist.append(dict(op='set_value', n=rnd.choice(n['inputs']),
                                 v=W.js_val(rnd.choice(W.POOL_FULL))))
            else:
                hist.append(dict(op='evaluate', n=rnd.choice(nodes)))
        want = []
        for act in hist:
            try:
                if act['op'] == 'evaluate':
                    want.append(['ok', W.js_val(m.evaluate(W.addr(act['n'])))])
                else:
                    m.set_value(W.addr(act['n']), W.py_val(act['v']))
                    want.append(['ok', None])
            except Exception as exc:          # noqa
                want.append(['exc', type(exc).__name__ + ': ' + str(exc)[-120:]])
        case = dict(case, history=hist)
        out['cases'] += 1
        if where == 'process':
            p = subprocess.run([sys.executable, '-c', CHILD % (
                os.environ.get('VERIF_REPO_SRC', '/repo/src'), tlc.VERIF),
                base + '.' + ft, json.dumps(hist), json.dumps(plugins_of(plug))],
                capture_output=True, text=True,
                env=dict(os.environ, PYTHONHASHSEED='0'), timeout=120)
            if p.returncode != 0:
                out['violations'].append((
                    f'loading {ft} (cycles={bool(cycles)}) in a fresh process failed: '
                    f'{p.stderr.strip().splitlines()[-1] if p.stderr.strip() else p.returncode}', case))
                continue
            got = json.loads(p.stdout.strip().splitlines()[-1])
        else:
            box = {}

            def body():
                try:
                    lm = ExcelCompiler.from_file(base + '.' + ft, plugins=plugins_of(plug))
                    res = []
                    for act in hist:
                        try:
                            if act['op'] == 'evaluate':
                                res.append(['ok', W.js_val(lm.evaluate(W.addr(act['n'])))])
                            else:
                                lm.set_value(W.addr(act['n']), W.py_val(act['v']))
                                res.append(['ok', None])
                        except Exception as exc:      # noqa
                            res.append(['exc', type(exc).__name__ + ': ' + str(exc)[-120:]])
                    box['r'] = res
                except Exception as exc:              # noqa
                    box['e'] = f'{type(exc).__name__}: {exc}'
            if where == 'thread':
                t = threading.Thread(target=body)
                t.start()
                t.join()
            else:
                body()
            if 'e' in box:
                out['violations'].append((f'from_file({ft}) on a fresh {where} raised {box["e"]}', case))
                continue
            got = box['r']
        for i, (w_, g_) in enumerate(zip(want, got)):
            if w_[0] != g_[0] or (w_[0] == 'ok' and w_[1] != g_[1]):
                out['violations'].append((
                    f'step {i} {hist[i]}: original {w_}, loaded ({ft}, {where}, '
                    f'cycles={bool(cycles)}) {g_}', case))
                break
        # save -> load -> save reproduces the content; re-save is byte identical
        if ft != 'pkl' and h == 0:
            try:
                m2 = xl.compile_wb(cells, arrays=arrays, cycles=cycles, plugins=plugins_of(plug))
                for node in nodes:
                    m2.evaluate(W.addr(node))
                b2 = os.path.join(workdir, f'w{idx}_resave_model')
                m2.extra_data = {'who': 'me'}
                m2.to_file(b2, file_types=(ft,))
                t1 = open(b2 + '.' + ft, 'rb').read()
                m2.to_file(b2, file_types=(ft,))
                if open(b2 + '.' + ft, 'rb').read() != t1:
                    out['violations'].append((f're-saving the unchanged model changed the {ft} file', case))
                l2 = ExcelCompiler.from_file(b2 + '.' + ft, plugins=plugins_of(plug))
                b3 = os.path.join(workdir, f'w{idx}_resave2_model')
                l2.to_file(b3, file_types=(ft,))
                from ruamel.yaml import YAML
                d1, d3 = YAML().load(t1.decode()), YAML().load(open(b3 + '.' + ft).read())
                for key in ('cell_map', 'cycles', 'excel_hash', 'filename', 'who'):
                    if json.dumps(d1.get(key), default=str) != json.dumps(d3.get(key), default=str):
                        out['violations'].append((
                            f'save(load(file)) differs in {key}: {str(d1.get(key))[:120]} vs '
                            f'{str(d3.get(key))[:120]} ({ft})', case))
                if l2.extra_data.get('who') != 'me' or bool(l2.cycles) != bool(cycles) or \
                        l2.filename != m2.filename:
                    out['violations'].append((
                        f'metadata did not survive {ft}: extra_data={dict(l2.extra_data)!r} '
                        f'cycles={l2.cycles!r} filename={l2.filename!r}', case))
            except Exception as exc:          # noqa
                out['violations'].append((f'save, load and save again ({ft}) raised {brief(exc)}',
                                          case))
        if len(out['violations']) > 4:
            break
    out['violations'] = out['violations'][:4]
    return out


# ---------------------------------------------------------------- part D
def hash_job(arg):
    """the hash of the source workbook (taken when it was compiled) survives"""
    ft, seed = arg
    import hashlib
    from pycel import ExcelCompiler
    from ruamel.yaml import YAML
    out = dict(part='hash', ext=ft, cycles=False, tlc=[], violations=[], known=[], notes=[],
               cases=0, sample=None)
    d = tlc.new_scratch('hash')
    cells = {'A1': 1, 'B1': '=A1+1'}
    for edit_before_save in (False, True):
        path = os.path.join(d, f'src_{ft}_{int(edit_before_save)}.xlsx')
        xl.make_wb(cells).save(path)
        h0 = hashlib.md5(open(path, 'rb').read()).hexdigest()
        m = ExcelCompiler(path)
        m.evaluate('S!B1')
        case = dict(file_type=ft, edited_before_save=edit_before_save)
        out['cases'] += 1
        if edit_before_save:
            xl.make_wb(dict(cells, A1=99)).save(path)       # the workbook changes on disk
        base = os.path.join(d, f'saved_{ft}_{int(edit_before_save)}_model')
        m.to_file(base, file_types=(ft,))
        loaded = ExcelCompiler.from_file(base + '.' + ft)
        if ft != 'pkl':
            stored = YAML().load(open(base + '.' + ft).read()).get('excel_hash')
            if stored != h0:
                out['violations'].append((
                    f'the {ft} file carries excel_hash {stored!r}, the workbook compiled had {h0!r}',
                    case))
        if loaded.hash_matches != (not edit_before_save) or \
                m.hash_matches != (not edit_before_save):
            out['violations'].append((
                f'hash_matches after reload is {loaded.hash_matches} (original {m.hash_matches}) '
                f'although the workbook was {"" if edit_before_save else "not "}changed after it '
                f'was compiled', case))
        if os.path.abspath(loaded.filename) != os.path.abspath(path):
            out['violations'].append((f'filename did not survive: {loaded.filename!r}', case))
    return out


# ---------------------------------------------------------------- part E
def reload_job(arg):
    """Reload.tla: to_file + from_file at any point of a history (tour)"""
    from harness import engine
    from pycel import ExcelCompiler
    name, src, ft, seed, plug = arg
    rnd = random.Random(seed)
    wb = W.WORKBOOKS[name]
    oracle = engine.Oracle(wb)
    # with plug the real workbook has every formula wrapped in a function of the
    # plugin module, VID(x) = x: the same engine model, the same oracle
    real_wb = dict(wb, texts={f: PLUG.wrap(W.formula_text(wb, f)) for f in wb['formulas']}) \
        if plug else wb
    if plug and src != 'NoData':
        raise tlc.MachineryFailure('reload with a plugin module: source NoData only')
    g = engine.gen_reload_graph(name, wb, [2], src, settable=sorted(wb['inputs'])[:1])
    reloads = sum(1 for es in g.out.values() for e in es if e[0]['op'] == 'reload')
    if not reloads:
        raise tlc.MachineryFailure('vacuous: no Reload transition')
    out = dict(part='reload/plugin' if plug else 'reload', ext=ft, cycles=False, violations=[],
               known=[], notes=[], cases=0,
               tlc=[dict(run=f'Reload {name}/{src}' + ('/plugin' if plug else ''), distinct=g.tlc.distinct,
                         generated=g.tlc.generated, depth=g.tlc.depth,
                         wall_s=round(g.tlc.wall, 2))],
               sample=dict(workbook=name, source=src, file_type=ft, reload_edges=reloads))
    workdir = tlc.new_scratch('rl')
    drift = []
    counter = [0]

    class M(engine.RealModel):
        def __init__(self, wb_, src_, workdir_):
            if plug:
                self.wb, self.src = wb_, src_
                cells, arrays = W.cells(real_wb)
                self.m = xl.compile_wb(cells, arrays=arrays, plugins=PLUGINS)
            else:
                super().__init__(wb_, src_, workdir_)

        def do(self, act, variant='str'):
            if act['op'] == 'reload':
                try:
                    counter[0] += 1
                    base = os.path.join(workdir, f'r{counter[0]}_model')
                    self.m.to_file(base, file_types=(ft,))
                    self.m = ExcelCompiler.from_file(base + '.' + ft, plugins=plugins_of(plug))
                    return 'ok', None
                except Exception as exc:      # noqa
                    return 'exc', brief(exc)
            return super().do(act, variant)

    def on_step(model, s_, act, spec_ret, t, hist):
        out['cases'] += 1
        status, got = model.do(act)
        case = dict(workbook=name, source=src, file_type=ft, cells=W.cells(real_wb)[0],
                    plugins=plugins_of(plug), history=list(hist))
        if status == 'exc':
            out['violations'].append((f'{act} raised {got} [{name}/{src}/{ft}]', case))
            return
        if act['op'] == 'evaluate':
            inputs = {a: W.py_val(x) for a, x in g.states[t]['inp'].items()}
            st, want = oracle.values(inputs)[act['n']]
            if not xl.same_value(got, want):
                out['violations'].append((
                    f'evaluate({act["n"]}) returned {got!r} after a save/load in the history; a '
                    f'from-scratch compile with inputs {inputs} gives {want!r} [{name}/{src}/{ft}]',
                    case))
        if not drift:
            from harness.engine import state_matches
            diffs = state_matches(g.states[t], model.project())
            if diffs:
                drift.append(1)
                out['notes'].append(f'spec-drift (Reload) on {name}/{src}/{ft} after '
                                    f'{[a["op"] + ":" + str(a.get("n", "")) for a in hist[-5:]]}: {diffs[:2]}')

    steps, restarts, covered = engine.tour(g, lambda: M(wb, src, workdir), on_step, rnd=rnd)
    out['histories'] = restarts + 1
    out['violations'] = out['violations'][:4]
    return out


def any_job(arg):
    kind, a = arg
    return dict(protocol=protocol_job, fidelity=fidelity_job, texts=texts_job,
                lockstep=lockstep_job, hash=hash_job, reload=reload_job)[kind](a)


def run(tier, seed):
    v = Verdict(PID, tier, seed)
    cy = dict(iterations=50, tolerance=0.001)
    ml = 1500 if tier == 'quick' else 10 ** 9
    nn = 51 if tier == 'quick' else 340        # floats of the number family per fidelity job
    # every third history on a model compiled (and loaded) with a plugin module
    shards = 2 if tier == 'quick' else 4
    jobs = [('protocol', (ext, cyc, seed, ml, 3, (i, shards)))
            for i in range(shards) for ext, cyc in (('yml', None), ('json', cy))]
    for ft in ('yml', 'json', 'pkl'):
        jobs.append(('fidelity', (ft, None, seed, False, nn)))
    jobs.append(('fidelity', ('yml', cy, seed, False, nn)))
    jobs.append(('fidelity', ('pkl', None, seed, True, nn)))
    jobs.append(('fidelity', ('json', cy, seed, True, nn)))
    # long texts: the sweep and 300 random texts per file type; thorough: more models
    for i in range(1 if tier == 'quick' else 4):
        for ft in ('yml', 'json', 'pkl'):
            jobs.append(('texts', (ft, cy if (ft == 'yml' and i % 2) else None, seed, i,
                                   300 if tier == 'quick' else 1500)))
    for ft in ('yml', 'json', 'pkl'):
        jobs.append(('hash', (ft, seed)))
    rl = [('nested', 'NoData', 'yml', False), ('alias', 'Stored', 'pkl', False),
          ('cse', 'NoData', 'json', False), ('nested', 'NoData', 'pkl', True)]
    if tier != 'quick':
        rl += [(n, s_, f, False) for n in ('chain', 'range', 'grid', 'trimex', 'twosheet')
               for s_, f in (('NoData', 'yml'), ('NoData', 'pkl'), ('Stored', 'json'))
               if not (n == 'twosheet' and s_ == 'Stored')]
        rl += [('alias', 'NoData', 'yml', True), ('cse', 'NoData', 'json', True),
               ('grid', 'NoData', 'yml', True), ('range', 'NoData', 'json', True)]
    for n, s_, f, plug in rl:
        jobs.append(('reload', (n, s_, f, seed, plug)))
    k = 0
    reps = 1 if tier == 'quick' else 6
    for rep in range(reps):
        for ft in ('yml', 'json', 'pkl'):
            for cycles in (None, cy):
                for where in ('same', 'thread', 'process'):
                    nh = (2 if where == 'process' else 6) if tier == 'quick' else \
                        (6 if where == 'process' else 30)
                    # every other job: a workbook that needs a plugin module
                    jobs.append(('lockstep', (k, ft, cycles, where, nh, 15, seed,
                                              (k + rep) % 2 == 1)))
                    k += 1
    results = parallel.run_jobs(any_job, jobs)
    parts = {}
    # violations are reported part by part in turn, so that the first ones listed
    # show every kind of discrepancy of the run
    queues = {}
    for r in results:
        queues.setdefault(r['part'].split('/')[0], []).extend(r['violations'])
    while any(queues.values()):
        for q in queues.values():
            if q:
                v.violation(*q.pop(0))
    for r in results:
        for t in r['tlc']:
            v.tlc_runs.append(t)
            v.states += t['distinct']
            v.transitions += t['generated']
        v.evaluations += r['cases']
        key = (r['part'], r['ext'], r['cycles'])
        # (jobs of one kind -- shards, repetitions -- hold different inputs)
        v.distinct.update((key, parts.get(str(key), 0) + i) for i in range(r['cases']))
        parts[str(key)] = parts.get(str(key), 0) + r['cases']
        v.extra['loaded_models_saved'] = v.extra.get('loaded_models_saved', 0) + r.get('resaves', 0)
        if r['part'].split('/')[0] in ('protocol', 'reload'):
            v.traces += r['histories']
            v.extra['protocol_loads'] = v.extra.get('protocol_loads', 0) + r.get('loads', 0)
            v.extra['protocol_plugin_histories'] = v.extra.get('protocol_plugin_histories', 0) + \
                r.get('plugin_histories', 0)
            v.extra['stale_pickle_reads_seen'] = v.extra.get('stale_pickle_reads_seen', 0) + r.get('stale_seen', 0)
            v.extra['protocol_number_histories'] = v.extra.get('protocol_number_histories', 0) + \
                r.get('bound_histories', 0)
        else:
            v.traces += r['cases']
        for n in r['notes']:
            v.note(n)
        for k in r['known']:
            if len(k) == 3:
                v.known_finding(k[0], k[1], k[2])
            else:
                v.known_finding('D9', k[0], k[1])
        if r.get('sample'):
            v.sample(r['sample'], limit=4)
    if not v.extra.get('stale_pickle_reads_seen') and 'D9' in v.findings:
        v.note('known finding D9 (stale pickle) was not observed in this run')
    v.extra.update(cases_by_part=parts, exhaustive=False,
                   rule='protocol: every maximal history (depth <= 5) of Persist.tla on real '
                        'files (quick: 1500 of them per text format), the atoms of Vals bound to '
                        'the numbers 1, 2 or to two numbers of the number family; fidelity: one '
                        'case per value of the pool and of the number family and file type, the '
                        'loaded model saved again to yml, json and pkl; texts: one case '
                        'per text constant / text literal of the sweep (a run of 1..3 spaces at '
                        'every offset of texts of three lengths) and of the random texts (1..400 '
                        'characters); lockstep: one case per random post-load history on a random '
                        'workbook; */plugin: the model is compiled and loaded with a plugin '
                        'module its formulas call (below and above ranges)')
    v.assumptions = ['formula code is static: the content of a saved model is abstracted to its '
                     'input constants and metadata in Persist.tla',
                     'byte-level yaml/json encoding is exercised by the value pool, not modelled']
    return v.finish()
