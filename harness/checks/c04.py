"""C04 -- declared precedents cover every cell a formula actually reads.

spec/RefForms.tla enumerates the written reference forms (TLC: the
declaration rule covers every influencing cell); every descriptor is rendered
to Excel text, compiled and evaluated on the real code with the read hooks on
(PYCEL_VERIF=1), and the recorded build/read/final trace is validated by TLC
against spec/ReadTrace.tla.  A read that is not covered by a declared
precedent AND by a graph predecessor, or an influencing cell that is not a
graph ancestor, makes the trace unconsumable -> VIOLATION (after the
uncovered address has been re-identified on the Python side).
"""
import json
import os
import random

from harness import parallel, tlc, xl
from harness.evidence import Verdict

PID = 'C04'
HOME, OTHER = 'S', 'T u'
FORMULA_AT = 'E5'
COLS = 'ABCDEFGHIJ'


def rect_of(addr):
    """pycel address (str or Address*) -> [sheet, c1, r1, c2, r2]"""
    from pycel.excelutil import AddressRange, MAX_COL, MAX_ROW
    a = AddressRange.create(addr) if isinstance(addr, str) else addr
    s, e = a.start, a.end
    c1, r1 = s.col_idx or 1, s.row or 1
    c2, r2 = e.col_idx or MAX_COL, e.row or MAX_ROW
    return [a.sheet, c1, r1, c2, r2]


def contains(q, r):
    return q[0] == r[0] and q[1] <= r[1] and r[3] <= q[3] and q[2] <= r[2] and r[4] <= q[4]


def a1(rect, abs_=False, unbounded=None):
    d = '$' if abs_ else ''
    _, c1, r1, c2, r2 = rect
    if unbounded == 'col':
        return f'{d}{COLS[c1 - 1]}:{d}{COLS[c2 - 1]}'
    if unbounded == 'row':
        return f'{d}{r1}:{d}{r2}'
    s = f'{d}{COLS[c1 - 1]}{d}{r1}'
    if (c1, r1) != (c2, r2):
        s += f':{d}{COLS[c2 - 1]}{d}{r2}'
    return s


def qualify(text, sheet, qual):
    if qual == 'none':
        return text
    if qual == 'quoted' or ' ' in sheet:
        return f"'{sheet}'!{text}"
    return f'{sheet}!{text}'


def render(d):
    """descriptor -> (cells of Home, arrays, names, address to evaluate)"""
    f, x, y, z = d['form'], d['x'], d['y'], d['z']
    q, ab, sh = d['qual'], d['abs'], d['sheet']
    cells, arrays, names = {}, {}, {}
    ref = lambda r, **k: qualify(a1(r, ab, **k), sh, q)     # noqa
    if f == 'cell':
        cells[FORMULA_AT] = '=' + ref(x)
    elif f == 'range':
        cells[FORMULA_AT] = f'=SUM({ref(x)})'
    elif f == 'inter':
        cells[FORMULA_AT] = f'=SUM({a1(x)} {a1(y)})'
    elif f == 'union':
        cells[FORMULA_AT] = f'=SUM(({a1(x)},{a1(y)}))'
    elif f == 'multi':
        cells[FORMULA_AT] = f'=SUM({a1(x)}:{a1(y)}:{a1(z)})'
    elif f == 'name1':
        names['RNGONE'] = f"'{sh}'!{a1(x, True)}"
        cells[FORMULA_AT] = '=SUM(RNGONE)'
    elif f == 'name2':
        names['RNGTWO'] = f"'{sh}'!{a1(x, True)},'{sh}'!{a1(y, True)}"
        cells[FORMULA_AT] = '=SUM(RNGTWO)'
    elif f == 'rowcol':
        cells[FORMULA_AT] = f'=ROW({ref(x)})+COLUMN({ref(x)})'
    elif f == 'index':
        cells[FORMULA_AT] = f'=INDEX({qualify(a1(x), sh, "plain" if sh != HOME else "none")},{d["i"]},{d["j"]})'
    elif f == 'ifref':
        cells[FORMULA_AT] = f'=IF({a1(x)}>0,{a1(y)},{a1(z)})'
    elif f == 'ucol':
        cells[FORMULA_AT] = f'=SUM({ref(x, unbounded="col")})'
    elif f == 'urow':
        cells[FORMULA_AT] = f'=SUM({ref(x, unbounded="row")})'
    elif f == 'mix':
        cells[FORMULA_AT] = (f'=SUM({qualify(a1(x), x[0], "plain")})+'
                             f'{qualify(a1(y), y[0], "plain")}')
    elif f == 'cse':
        h, w = x[4] - x[2] + 1, x[3] - x[1] + 1
        tgt = f'E5:{COLS[4 + w - 1]}{5 + h - 1}'
        arrays[tgt] = f'={a1(x)}*2'
    else:
        raise ValueError(f)
    return cells, arrays, names


def build_model(d, env):
    cells, arrays, names = render(d)
    data = {}
    for si, sheet in enumerate((HOME, OTHER)):
        for c in range(3):
            for r in range(3):
                v = env[si][c][r]
                key = f'{COLS[c]}{r + 1}' if sheet == HOME else f'{sheet}!{COLS[c]}{r + 1}'
                data[key] = v
        data['H8' if sheet == HOME else f'{sheet}!H8'] = 0    # fixes the used area
    data.update(cells)
    return xl.compile_wb(data, sheet=HOME, arrays=arrays, names=names)


ENVS = [
    [[[1, 2, 3], [4, 5, 6], [7, 8, 9]], [[10, 20, 30], [40, 50, 60], [70, 80, 90]]],
    [[[-1, 0, 2], [-3, 'a', 6], [True, -8, None]], [[-10, 2, 3], [4, -50, 6], [7, 8, -90]]],
]


def record(d, env, pre=()):
    """evaluate the formula of descriptor d with hooks on; returns trace.
    pre: cells evaluated on their own before the formula is (they are in the
    model before anything that reads them is built)"""
    from pycel import _verif
    m = build_model(d, env)
    for a in pre:
        m.evaluate(a)
    events = []
    top = f'{HOME}!{FORMULA_AT}'

    def node_of(formula):
        return formula.cell.address

    def sink(kind, formula, *rest):
        if formula.cell is None:
            return
        f = rect_of(node_of(formula))
        if kind == 'begin':
            cell = m.cell_map.get(node_of(formula).address)
            preds = [rect_of(p.address) for p in m.dep_graph.predecessors(cell)] \
                if cell is not None and cell in m.dep_graph else []
            events.append(dict(ev='build', f=f,
                               declared=[rect_of(a) for a in formula.needed_addresses],
                               graph=preds))
        elif kind == 'read':
            addr = rest[1]
            if isinstance(addr, str) and addr.startswith('#'):
                return      # an error value instead of an address (e.g. #NULL!)
            events.append(dict(ev='read', f=f, a=rect_of(addr)))

    prev = _verif.set_sink(sink)
    try:
        value = m.evaluate(top)
    finally:
        _verif.set_sink(prev)
    import networkx as nx
    cell = m.cell_map[top]
    anc = [rect_of(n.address) for n in nx.ancestors(m.dep_graph, cell)] \
        if cell in m.dep_graph else []
    built = [rect_of(a) for a, c in m.cell_map.items() if ':' not in a]
    events.append(dict(ev='final', f=rect_of(top), ancestors=anc, influences=[],
                       built=built, pre=list(pre)))
    return m, events, value


def cells_in(rects, limit=3):
    """the single cells of the 3x3 data area inside the rectangles"""
    out = []
    for q in rects:
        for c in range(q[1], min(q[3], limit) + 1):
            for r in range(q[2], min(q[4], limit) + 1):
                if [q[0], c, r, c, r] not in out:
                    out.append([q[0], c, r, c, r])
    return out


def explain(events):
    """first event ReadTrace cannot consume, recomputed on the Python side"""
    decl, gp = {}, {}
    for e in events:
        f = tuple(e['f'])
        if e['ev'] == 'build':
            decl[f], gp[f] = e['declared'], e['graph']
        elif e['ev'] == 'read':
            if not any(contains(q, e['a']) for q in decl.get(f, [])):
                return f'read of {e["a"]} by {e["f"]} is not covered by its declared precedents {decl.get(f)}'
            if not any(contains(q, e['a']) for q in gp.get(f, [])):
                return f'read of {e["a"]} by {e["f"]} has no precedent->dependant edge (graph predecessors {gp.get(f)})'
        elif e['ev'] == 'final':
            for r in e['influences']:
                if not any(contains(q, r) for q in e['ancestors']):
                    return f'influencing rectangle {r} is not among the graph ancestors {e["ancestors"]}'
            for c in e['infcells']:
                if c not in e['ancestors']:
                    return (f'cell {c} can influence the formula and is in the model, but is '
                            f'not a graph ancestor (cells evaluated before the formula: '
                            f'{e.get("pre")}; ancestors {e["ancestors"]})')
    return None


def batch_job(arg):
    descs, seed = arg
    from pycel import _verif
    if not _verif.ENABLED:
        raise tlc.MachineryFailure('hooks are not enabled (PYCEL_VERIF)')
    out = dict(traces=0, events=0, reads=0, violations=[], notes=[], keys=set(),
               tlc=None, drift=0, sample=None, perturb=0)
    traces, meta = [], []
    rnd = random.Random(seed)
    for rec in descs:
        d = rec['d']
        for ei, env in enumerate(ENVS):
            pre = []
            if ei == 1:
                # members of the referenced ranges which enter the model first
                cand = cells_in(rec['influences'])
                for q in rnd.sample(cand, min(len(cand), rnd.choice((1, 2)))):
                    pre.append(f"'{q[0]}'!{COLS[q[1] - 1]}{q[2]}")
            try:
                m, events, value = record(d, env, pre)
            except Exception as exc:          # noqa
                # C04 speaks about the reads of an evaluation, not about whether
                # the formula evaluates: counted and reported, not judged here
                out['unjudged'] = out.get('unjudged', 0) + 1
                if len(out['notes']) < 3:
                    out['notes'].append(
                        f'unjudged: evaluating {render(d)[0] or render(d)[1]} raised '
                        f'{type(exc).__name__}: {str(exc)[-160:]}')
                continue
            events[-1]['influences'] = rec['influences']
            # every existing cell inside an influencing rectangle must itself be an ancestor
            events[-1]['infcells'] = [c for c in events[-1].pop('built')
                                      if any(contains(q, c) for q in rec['influences'])]
            traces.append(events)
            meta.append((d, ei, render(d)))
            out['reads'] += sum(e['ev'] == 'read' for e in events)
            out['keys'].add(json.dumps(d, sort_keys=True))
            # declared precedents of the top formula vs the spec's rule (drift only)
            if d['form'] != 'cse':
                topb = [e for e in events if e['ev'] == 'build' and e['f'] == [HOME, 5, 5, 5, 5]]
                got = sorted(map(tuple, topb[0]['declared'])) if topb else None
                want = sorted(map(tuple, rec['declared']))
                if got is not None and got != want and out['drift'] < 3:
                    out['drift'] += 1
                    out['notes'].append(f'spec-drift: needed_addresses {got} vs RefForms.Declared {want} for {render(d)[0]}')
            # sampled: cells outside Influences must not change the value
            if ei == 0 and rnd.random() < 0.04:
                out['perturb'] += 1
                infl = rec['influences']
                for si, sheet in enumerate((HOME, OTHER)):
                    for c in range(3):
                        for r in range(3):
                            cellr = [sheet, c + 1, r + 1, c + 1, r + 1]
                            if any(contains(q, cellr) for q in infl):
                                continue
                            env2 = json.loads(json.dumps(env))
                            env2[si][c][r] = 12345
                            v2 = build_model(d, env2).evaluate(f'{HOME}!{FORMULA_AT}')
                            if not xl.same_value(v2, value):
                                raise tlc.MachineryFailure(
                                    f'RefForms.Influences is incomplete: {render(d)} changes '
                                    f'with {cellr}')
    if out['sample'] is None and traces:
        out['sample'] = dict(formula=meta[0][2][0] or meta[0][2][1], trace=traces[0])
    d_ = tlc.new_scratch('rt')
    path = os.path.join(d_, 'traces.json')
    with open(path, 'w') as f:
        json.dump(traces, f)
    res = tlc.run('ReadTrace', 'ReadTrace.cfg', workers=1, env=dict(TRACE_FILE=path),
                  deadlock=True, timeout=1800)
    bad = []
    for rec in res.json:
        if isinstance(rec, dict) and 'rejected' in rec:
            bad = sorted(rec['rejected'])
    if res.rc != 0 and not bad:
        raise tlc.MachineryFailure('ReadTrace failed:\n' + res.stdout[-2000:])
    for b in bad:
        d, ei, rendered = meta[b - 1]
        why = explain(traces[b - 1])
        if why is None:
            raise tlc.MachineryFailure(
                f'ReadTrace rejected a trace that the Python recomputation accepts: {rendered}')
        if len(out['violations']) < 8:
            out['violations'].append((f'{rendered[0] or rendered[1]}: {why}',
                                      dict(descriptor=d, env=ei, trace=traces[b - 1])))
    # python-side recomputation must agree on accepted traces as well
    for i, tr in enumerate(traces):
        if (i + 1) not in bad and explain(tr) is not None:
            raise tlc.MachineryFailure('ReadTrace accepted a trace the recomputation rejects')
    out['tlc'] = dict(run='ReadTrace batch', distinct=res.distinct, generated=res.generated,
                      depth=res.depth, wall_s=round(res.wall, 2))
    out['traces'] = len(traces) - len(bad)
    out['events'] = sum(len(t) for t in traces)
    out['keys'] = sorted(out['keys'])
    return out


def run(tier, seed):
    v = Verdict(PID, tier, seed)
    rnd = random.Random(seed)
    res = tlc.run('MC_RefForms', 'RefForms_mc.cfg', workers=1, timeout=900)
    if not res.ok:
        raise tlc.MachineryFailure(f'RefForms violates {res.violated}\n' + res.stdout[-1500:])
    v.add_tlc(res, 'RefForms')
    descs = res.json
    if len(descs) != res.distinct:
        raise tlc.MachineryFailure(f'export incomplete {len(descs)} vs {res.distinct}')
    by_form = {}
    for rec in descs:
        by_form.setdefault(rec['d']['form'], []).append(rec)
    chosen = []
    per_form = 70 if tier == 'quick' else 10 ** 9
    for form, lst in sorted(by_form.items()):
        rnd.shuffle(lst)
        chosen.extend(lst[:per_form])
    nb = 12 if tier == 'quick' else 16
    batches = [(chosen[i::nb], seed + i) for i in range(nb)]
    results = parallel.run_jobs(batch_job, batches)
    forms = {}
    keys = set()
    for r in results:
        v.tlc_runs.append(r['tlc'])
        v.states += r['tlc']['distinct']
        v.transitions += r['tlc']['generated']
        v.traces += r['traces']
        v.evaluations += r['events']
        keys.update(r['keys'])
        for n in r['notes']:
            v.note(n)
        for desc, case in r['violations']:
            v.violation(desc, case)
        if r['sample']:
            v.sample(r['sample'], limit=3)
        v.extra['reads_checked'] = v.extra.get('reads_checked', 0) + r['reads']
        v.extra['unjudged_evaluation_raised'] = v.extra.get('unjudged_evaluation_raised', 0) + r.get('unjudged', 0)
        v.extra['influence_perturbation_probes'] = v.extra.get(
            'influence_perturbation_probes', 0) + r['perturb']
    v.distinct.update(keys)
    for k in keys:
        f = json.loads(k)['form']
        forms[f] = forms.get(f, 0) + 1
    v.extra.update(
        descriptors_total=len(descs), descriptors_run=len(chosen), by_form=forms,
        environments=len(ENVS), exhaustive=(tier != 'quick'),
        rule='one case = one recorded event (build/read/final) of one formula evaluation; '
             'distinct = distinct formula descriptors (form, operands, sheet, qualifier, $) '
             'enumerated by TLC from RefForms.tla')
    v.assumptions = ['computed references (OFFSET, INDIRECT, f():A1) are excluded as in the statement',
                     'hooks report every _C_/_R_ call of the compiled formula']
    return v.finish()
