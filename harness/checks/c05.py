"""C05 -- a cell has one value, however and in whatever order it is reached.

spec/Engine.tla with *observer* ranges (rectangles, unbounded rows/columns
nobody depends on) and address lists: every access path is an action
(Evaluate(cell | range | alias), EvaluateList(seq)), every first-evaluation
order is a path of the state graph.  TLC explores the graph exhaustively
(invariants Coherent, RetOK: every access path returns Fresh); the tour
executes every transition on the real object, spelling the address in every
supported way (str, address object, sheet-less with the active sheet, list,
tuple, generator).  VERDICT: element (i, j) of whatever was returned equals
evaluate(cell) of a from-scratch compile.  In addition all first-evaluation
permutations of the cells are replayed as paths of the TLC graph.
"""
import itertools
import json
import random

from harness import engine, parallel, tlc, workbooks as W, xl
from harness.evidence import Verdict

PID = 'C05'
VARIANTS = ['str', 'object', 'nosheet', 'nosheet_object', 'list1', 'tuple1', 'gen1']
LISTS = {
    'chain_obs': [['C1', 'A1'], ['D1', 'B1', 'A2'], ['A1:B2', 'C1'], ['A:A', 'B2']],
    'nested_obs': [['D1', 'A2'], ['B2', 'C1', 'B1'], ['B:B', 'D1'], ['A1:D2', 'C2']],
    'cse_obs': [['D2', 'E1'], ['D1:E2', 'A1'], ['D:D', 'D1']],
    'offset_obs': [['C4', 'B3'], ['B:B', 'C3'], ['3:3', 'B1:B4']],
    'beyond_obs': [['A4', 'A:A'], ['A:A', 'A4'], ['D1', '1:1', 'B1'], ['E:E', 'E2'], ['E1', 'C1']],
    'onecell_obs': [['A:A', 'A1'], ['B1', 'A:A'], ['1:1', 'C1']],
    'beyond2_obs': [['T!A4', 'T!A:A'], ['T!A:A', 'T!A4'], ['T!C1', 'T!1:1', 'B1']],
    'cse_opq': [['D2', 'B1'], ['B1:B3', 'D3'], ['D1:D3', 'B2']],
    'table_opq': [['B3', 'C2'], ['A2:B4', 'B2'], ['B4', 'B2', 'B3']],
    'refval_opq': [['A1', 'B2'], ['C1', 'D1'], ['A1:D1', 'B2'], ['D1', 'A1:B2']],
}


def member_rows(wb, node):
    if node in wb.get('aliases', {}):
        node = wb['aliases'][node]
        if ':' not in node:
            return [[node]]      # an unbounded range which resolves to one cell
    if node in wb.get('ranges', {}):
        return wb['ranges'][node]
    if node in wb.get('cse', {}):
        return W.cse_members(node)
    return None


def expected_for(wb, oracle_vals, node):
    """what evaluate(node) must return given from-scratch cell values"""
    rows = member_rows(wb, node)
    if rows is None:
        st, val = oracle_vals[node]
        return val
    mat = tuple(tuple(oracle_vals[c][1] for c in row) for row in rows)
    if len(mat[0]) == 1:
        mat = tuple(r[0] for r in mat)
    if len(mat) == 1:
        mat = mat[0]
    return mat


def job(arg):
    name, pool, settable, src, seed, perms = arg
    rnd = random.Random(seed)
    opaque = name in W.WORKBOOKS_OPAQUE     # formulas outside Engine's kinds:
    wb = (W.WORKBOOKS_OPAQUE if opaque else W.WORKBOOKS_OBS)[name]   # observables only
    oracle = engine.Oracle(wb)
    g = engine.gen_graph(name, wb, pool, src, lists=LISTS[name], settable=settable)
    out = dict(name=name, src=src, tlc=dict(
        run=f'Engine {name}/{src} lists={len(LISTS[name])}', distinct=g.tlc.distinct,
        generated=g.tlc.generated, depth=g.tlc.depth, wall_s=round(g.tlc.wall, 2)),
        violations=[], notes=[], cases=0, keys=set(), restarts=0, variants={},
        perms=0, sample=dict(workbook=name, cells=W.cells(wb)[0],
                             arrays=W.cells(wb)[1], lists=LISTS[name]))
    workdir = tlc.new_scratch('wb')
    drift = []

    def make_model():
        return engine.RealModel(wb, src, workdir)

    def check(model, act, variant, hist, t):
        status, got = model.do(act, variant=variant)
        out['cases'] += 1
        out['variants'][variant] = out['variants'].get(variant, 0) + 1
        inputs = {a: W.py_val(x) for a, x in g.states[t]['inp'].items()}
        case = dict(workbook=name, source=src, cells=W.cells(wb)[0],
                    arrays=W.cells(wb)[1], history=list(hist), variant=variant)
        if status == 'exc':
            out['violations'].append((f'{act} ({variant}) raised {got}', case))
            return
        vals = oracle.values(inputs)
        if act['op'] == 'evaluate':
            want = expected_for(wb, vals, act['n'])
            if not xl.same_value(got, want):
                out['violations'].append((
                    f'evaluate({act["n"]}) as {variant} returned {got!r}; evaluate(cell) of '
                    f'a from-scratch compile gives {want!r} [{name}/{src}]', case))
        elif act['op'] == 'evaluate_list':
            want = [expected_for(wb, vals, n) for n in act['ns']]
            if len(got) != len(want) or not all(
                    xl.same_value(a, b) for a, b in zip(got, want)):
                out['violations'].append((
                    f'evaluate({act["ns"]}) as {variant} returned {got!r}; cells of a '
                    f'from-scratch compile give {want!r} [{name}/{src}]', case))
        if not drift and not opaque:
            diffs = engine.state_matches(g.states[t], model.project())
            if diffs:
                drift.append(1)
                out['notes'].append(f'spec-drift on {name}/{src} after {hist[-3:]} '
                                    f'({variant}): {diffs[:2]}')

    def on_step(model, s, act, spec_ret, t, hist):
        out['keys'].add(hash((s, json.dumps(act, sort_keys=True))))
        # (a model loaded from a file has no workbook, hence no active sheet)
        variant = 'str' if act['op'] == 'set_value' else rnd.choice(
            [x for x in VARIANTS if src != 'Loaded' or not x.startswith('nosheet')])
        if act['op'] == 'set_value':
            status, got = model.do(act)
            if status == 'exc':
                out['violations'].append((f'{act} raised {got}', dict(
                    workbook=name, source=src, history=list(hist))))
            return
        check(model, act, variant, hist, t)

    steps, restarts, covered = engine.tour(g, make_model, on_step, rnd=rnd)
    out['restarts'] = restarts + 1
    out['tour'] = dict(workbook=name, source=src, states=len(g.states),
                       edges=g.n_edges, covered=covered, steps=steps,
                       restarts=restarts, spec_drift=bool(drift))
    # all first-evaluation orders of the cells, as paths of the TLC graph
    n = W.nodes(wb)
    cells = [c for c in n['inputs'] + n['formulas']]
    others = n['ranges'] + n['aliases']
    all_perms = list(itertools.permutations(cells))
    rnd.shuffle(all_perms)
    for perm in all_perms[:perms]:
        model = make_model()
        cur = g.init
        hist = []
        for node in list(perm) + others:
            act = dict(op='evaluate', n=node)
            edge = next((e for e in g.out[cur] if e[0] == act), None)
            if edge is None:
                raise tlc.MachineryFailure(f'no edge {act} in the TLC graph')
            hist.append(act)
            check(model, act, 'str', hist, edge[2])
            cur = edge[2]
        out['perms'] += 1
    out['keys'] = len(out['keys'])
    out['violations'] = out['violations'][:5]
    return out


def run(tier, seed):
    v = Verdict(PID, tier, seed)
    jobs = []
    if tier == 'quick':
        for name in ('chain_obs', 'nested_obs', 'cse_obs'):
            for src in ('NoData', 'Stored'):
                jobs.append((name, [2], ['A1'], src, seed, 120))
        jobs.append(('offset_obs', [2], ['B3'], 'NoData', seed, 120))
        jobs.append(('beyond_obs', [2], [], 'NoData', seed, 60))
        jobs.append(('onecell_obs', [2], ['A1'], 'NoData', seed, 24))
        jobs.append(('beyond2_obs', [2], [], 'NoData', seed, 60))
        jobs.append(('cse_obs', [2], ['A1'], 'Loaded', seed, 120))     # D63
        jobs.append(('cse_opq', [2], ['A1'], 'NoData', seed, 120))
        jobs.append(('table_opq', [5], ['A2'], 'NoData', seed, 120))
        jobs.append(('refval_opq', [2], [], 'NoData', seed, 120))
    else:
        for name in W.WORKBOOKS_OBS:
            for src in ('NoData', 'Stored', 'Loaded'):
                jobs.append((name, [2], ['B3'] if name == 'offset_obs' else ['A1'], src,
                             seed, 720))
        for name in W.WORKBOOKS_OPAQUE:
            for src in ('NoData', 'Loaded'):
                # (all four inputs of cse_opq settable gives 8 x 10^5 transitions)
                ins = sorted(W.WORKBOOKS_OPAQUE[name]['inputs'])
                if name == 'refval_opq':
                    # evaluate only: what a computed reference points to is no
                    # written precedent, set_value histories are not C05's
                    jobs.append((name, [2], [], src, seed, 720))
                    continue
                jobs.append((name, [2, 'a'], ins[:2] if src == 'NoData' else None, src,
                             seed, 720))
        jobs.append(('chain_obs', [None, 2], None, 'NoData', seed, 0))
        jobs.append(('cse_obs', [None, 2, 'a'], None, 'Stored', seed, 0))
    results = parallel.run_jobs(job, jobs)
    perms = 0
    variants = {}
    for r in results:
        v.tlc_runs.append(r['tlc'])
        v.states += r['tlc']['distinct']
        v.transitions += r['tlc']['generated']
        v.evaluations += r['cases']
        v.distinct.update((r['name'], r['src'], i) for i in range(r['keys']))
        v.traces += r['restarts'] + r['perms']
        perms += r['perms']
        for k, c in r['variants'].items():
            variants[k] = variants.get(k, 0) + c
        v.extra.setdefault('tours', []).append(r['tour'])
        for n in r['notes']:
            v.note(n)
        for desc, case in r['violations']:
            v.violation(desc, case)
        v.sample(r['sample'], limit=3)
    v.extra.update(
        exhaustive=True, first_evaluation_permutations_replayed=perms,
        access_path_spellings=variants,
        rule='one case = one access (state, action, spelling) executed on the real object; '
             'every transition of the TLC graph of Engine.tla with observer ranges, '
             'unbounded rows/columns and address lists is covered; distinct = distinct '
             '(workbook, source, state, action)')
    v.assumptions = ['oracle = evaluate(cell) of a from-scratch compile with the same inputs',
                     'one sheet only: the active sheet is the sheet of every address']
    return v.finish()
