"""C06 -- iterative calculation: bounded, tolerance-honest, agrees with plain
evaluation on workbooks without circular references.

spec/EngineIter.tla (tracker, _CycleCell value/previous value, work in
progress, passes) is explored by TLC for acyclic workbooks (AcyclicAgrees,
AcyclicTwoPasses) and for dyadic linear circular systems, exact at scale 2^16
(PassBound, HonestStop), over set_value/evaluate histories, all orders in
which cells are first brought into the model and a grid of (iterations,
tolerance).  Every transition is executed on a real cycles=True model.
VERDICT (observables only): number of passes <= iterations (counted at
inc_iteration_number); if it stopped earlier no cell evaluated in the last
pass moved by more than the tolerance (values from the evaluation hooks);
the result is within q/(1-q) x tolerance of the exact fixed point (rational
solve); on acyclic workbooks the result equals a non-iterative from-scratch
compile.  BINDING: projection (built, _value, _prev_value, iteration
number, todo) compared with the model's successor state.
"""
import json
import random
from fractions import Fraction

from harness import engine, parallel, tlc, workbooks as W, xl
from harness.evidence import Verdict

PID = 'C06'
CYCLES = dict(iterations=100, tolerance=0.001)
BOUND_Q = {'cyc2': Fraction(1, 2), 'cyc3': Fraction(1, 2), 'cycr': Fraction(1, 4)}
BOUND_CELLS = {'cyc2': ['A1', 'B1'], 'cyc3': ['A1', 'B1', 'C1'], 'cycr': ['A1']}


def fixed_point(wb, inputs):
    """exact solution of the linear system the workbook's formulas define"""
    forms = sorted(wb['formulas'])
    idx = {f: i for i, f in enumerate(forms)}
    n = len(forms)
    A = [[Fraction(0)] * n for _ in range(n)]
    b = [Fraction(0)] * n

    def add(row, ref, coef):
        if ref in idx:
            A[row][idx[ref]] += coef
        else:
            v = inputs.get(ref)
            b[row] += coef * Fraction(v if isinstance(v, (int, float)) and not isinstance(v, bool) else 0)

    for f, d in wb['formulas'].items():
        i = idx[f]
        if d[0] == 'Lin':
            for r, c in zip(d[1], d[2]):
                add(i, r, Fraction(c, 2 ** d[3]))
            b[i] += d[4]
        elif d[0] == 'Plus':
            for r in d[1]:
                add(i, r, Fraction(1))
            b[i] += d[2]
        elif d[0] == 'SumR':
            for row in wb['ranges'][d[1]]:
                for r in row:
                    add(i, r, Fraction(1))
        else:
            return None
    # solve (I - A) x = b
    M = [[(Fraction(1) if i == j else Fraction(0)) - A[i][j] for j in range(n)] + [b[i]]
         for i in range(n)]
    for c in range(n):
        p = next((r for r in range(c, n) if M[r][c] != 0), None)
        if p is None:
            return None
        M[c], M[p] = M[p], M[c]
        M[c] = [x / M[c][c] for x in M[c]]
        for r in range(n):
            if r != c and M[r][c] != 0:
                M[r] = [x - M[r][c] * y for x, y in zip(M[r], M[c])]
    return {f: M[idx[f]][n] for f in forms}


class IterModel:
    def __init__(self, wb, src='NoData', workdir=None):
        self.wb = wb
        cells, arrays = W.cells(wb)
        if src == 'Stored':
            import os
            from pycel import ExcelCompiler
            path = os.path.join(workdir, 'stored_iter.xlsx')
            if not os.path.exists(path):
                fresh = engine.Oracle(wb).values(dict(wb['inputs']))
                results = {f: fresh[f][1] for f in W.nodes(wb)['formulas']}
                xl.write_xlsx_with_results(path, cells, results, arrays=arrays, iterate=(100, 0.001))
            self.m = ExcelCompiler(path, cycles=True)
        else:
            self.m = xl.compile_wb(cells, arrays=arrays, cycles=dict(CYCLES))
        self.scale = wb.get('scale', 1)
        n = W.nodes(wb)
        self.tracked = set(n['formulas']) | set(n['aliases'])

    def project(self):
        from pycel.excelutil import iterative_eval_tracker as trk
        built, val, prev = [], {}, {}
        for a, cell in self.m.cell_map.items():
            node = W.node_of(a)
            built.append(node)
            if node in self.tracked:
                val[node] = ['?'] if cell._value is None else W.js_val(cell._value, self.scale)
                prev[node] = ['?'] if cell._prev_value is None else W.js_val(cell._prev_value, self.scale)
        return dict(built=sorted(built), val=val, prev=prev,
                    changed=bool(getattr(self.m, '_values_changed', False)),
                    passes=trk.ns.iteration_number,
                    todo=sorted(W.node_of(c.address.address) for c in trk.ns.todo))

    def do(self, act, variant='str'):
        """returns (status, value, passes, per-pass values of evaluated cells);
        variant: the address as a string, in a list, or from a generator"""
        from pycel import _verif
        from pycel.excelutil import _IterativeEvalTracker
        passes = []
        orig = _IterativeEvalTracker.inc_iteration_number

        def counting(self_):
            passes.append({})
            return orig(self_)

        def sink(kind, formula, *rest):
            if kind == 'end' and formula.cell is not None and passes:
                passes[-1][W.node_of(formula.cell.address.address)] = rest[0]

        try:
            if act['op'] == 'set_value':
                self.m.set_value(W.addr(act['n']), W.py_val_scaled(act['v'], self.scale))
                return 'ok', None, None
            # what every formula cell held before the call (None: never calculated)
            self.before = {W.node_of(a): c._value for a, c in self.m.cell_map.items()
                           if hasattr(c, '_value') and c.formula}
            _IterativeEvalTracker.inc_iteration_number = counting
            prev_sink = _verif.set_sink(sink)
            try:
                tol = act['tol'] / self.scale if act['tol'] else None
                a = W.addr(act['n'])
                spelled = a if variant == 'str' else [a] if variant == 'list1' else (x for x in [a])
                got = self.m.evaluate(spelled, iterations=act['iterations'], tolerance=tol)
                if variant != 'str':
                    if not isinstance(got, (list, tuple)) or len(got) != 1:
                        return 'exc', (f'evaluate({variant} of one address) returned {got!r}, '
                                       'not a sequence of one value'), None
                    got = got[0]
            finally:
                _verif.set_sink(prev_sink)
                _IterativeEvalTracker.inc_iteration_number = orig
            return 'ok', got, passes
        except Exception as exc:          # noqa
            return 'exc', f'{type(exc).__name__}: {exc}', None


def has_unexact(state):
    txt = json.dumps(state)
    return '"U"' in txt or '"F"' in txt


def job(arg):
    kind, name, pool, choices, settable, depth, seed = arg[:7]
    src = arg[7] if len(arg) > 7 else 'NoData'
    rnd = random.Random(seed)
    acyclic = kind == 'acyclic'
    wb = (W.WORKBOOKS if acyclic else W.WORKBOOKS_CYC)[name]
    scale = wb.get('scale', 1)
    extra = f'CONSTRAINT DepthBound\n' if depth else ''
    g = engine.gen_iter_graph(name, wb, pool, choices, acyclic, settable=settable,
                              depth=depth, src=src)
    workdir = tlc.new_scratch('it')
    oracle = engine.Oracle(wb) if acyclic else None
    out = dict(name=name, kind=kind, tlc=dict(
        run=f'EngineIter {name} choices={choices}', distinct=g.tlc.distinct,
        generated=g.tlc.generated, depth=g.tlc.depth, wall_s=round(g.tlc.wall, 2)),
        violations=[], notes=[], cases=0, keys=set(), restarts=0, bound_checks=0,
        early_stops=0, sample=dict(workbook=name, cells=W.cells(wb)[0], choices=choices))
    drift = []

    def make_model():
        return IterModel(wb, src, workdir)

    def on_step(model, s, act, spec_ret, t, hist):
        out['cases'] += 1
        out['keys'].add(hash((s, json.dumps(act, sort_keys=True))))
        status, got, passes = model.do(act, rnd.choice(('str', 'str', 'list1', 'gen1'))
                                       if act['op'] == 'evaluate' else 'str')
        case = dict(workbook=name, cells=W.cells(wb)[0], history=list(hist))
        if status == 'exc':
            out['violations'].append((f'{act} raised {got} [{name}]', case))
            return
        if act['op'] == 'evaluate':
            n_it, tol_s = act['iterations'], act['tol']
            tol = (tol_s / scale) if tol_s else CYCLES['tolerance']
            inputs = {a: W.py_val_scaled(x, scale) for a, x in g.states[t]['inp'].items()}
            # 1. pass bound
            if len(passes) > n_it:
                out['violations'].append((
                    f'evaluate({act["n"]}, iterations={n_it}) performed {len(passes)} passes '
                    f'[{name}]', case))
            # 2. honest stop: the previous value of a cell is what it held after the
            #    pass before, or before the call; "no value yet" counts as a change
            if len(passes) < n_it and len(passes) >= 1:
                out['early_stops'] += 1
                last = passes[-1]
                before = passes[-2] if len(passes) >= 2 else {}
                for c, v in last.items():
                    pv = before.get(c, model.before.get(c)) if len(passes) >= 2 \
                        else model.before.get(c)
                    if isinstance(v, tuple):
                        continue
                    if pv is None:
                        out['violations'].append((
                            f'evaluate({act["n"]}) stopped after {len(passes)} < {n_it} passes '
                            f'although {c} got its first value {v!r} in the last pass [{name}]', case))
                    elif isinstance(v, (int, float)) and isinstance(pv, (int, float)) \
                            and not isinstance(v, bool):
                        if abs(v - pv) >= (1 + 1e-5) * tol:
                            out['violations'].append((
                                f'evaluate({act["n"]}) stopped after {len(passes)} < {n_it} passes '
                                f'although {c} moved from {pv!r} to {v!r} (> tolerance {tol}) '
                                f'[{name}]', case))
                    elif v != pv:
                        out['violations'].append((
                            f'evaluate({act["n"]}) stopped after {len(passes)} < {n_it} passes '
                            f'although {c} changed from {pv!r} to {v!r} [{name}]', case))
                # 3. distance to the fixed point
                if not acyclic:
                    fp = fixed_point(wb, inputs)
                    q = BOUND_Q[name]
                    for c in BOUND_CELLS[name]:
                        if c in last and isinstance(last[c], (int, float)):
                            out['bound_checks'] += 1
                            err = abs(Fraction(last[c]) - fp[c])
                            lim = q / (1 - q) * Fraction(tol) * Fraction(100001, 100000)
                            if err > lim:
                                out['violations'].append((
                                    f'{c} = {last[c]!r} after an early stop is {float(err):.3g} '
                                    f'from the fixed point {float(fp[c]):.6g}: more than '
                                    f'q/(1-q) x tolerance = {float(lim):.3g} [{name}]', case))
            # 4. acyclic: equals plain evaluation
            if acyclic:
                st, want = oracle.values(inputs)[act['n']]
                if st != 'ok' or not xl.same_value(got, want):
                    out['violations'].append((
                        f'iterative evaluate({act["n"]}, iterations={n_it}) returned {got!r}; '
                        f'non-iterative evaluation of a from-scratch compile with inputs '
                        f'{inputs} gives {want!r} [{name}]', case))
        if not drift and not has_unexact(g.states[t]):
            proj = model.project()
            if has_unexact(proj):
                return                  # values beyond the exact scale: not compared
            st = g.states[t]
            diffs = []
            if sorted(st['built']) != proj['built']:
                diffs.append(('built', sorted(st['built']), proj['built']))
            for key in ('val', 'prev'):
                sv = st[key] if isinstance(st[key], dict) else {}
                if sv != proj[key]:
                    diffs.append((key, sv, proj[key]))
            if st.get('changed', False) != proj.get('changed', False):
                diffs.append(('changed', st.get('changed'), proj.get('changed')))
            if act['op'] == 'evaluate' and (st['passes'] != proj['passes'] or
                                            sorted(st['todo']) != proj['todo']):
                diffs.append(('tracker', st['passes'], sorted(st['todo']),
                              proj['passes'], proj['todo']))
            if diffs:
                drift.append(1)
                out['notes'].append(f'spec-drift on {name} after {hist[-3:]}: {diffs[:2]}')

    steps, restarts, covered = engine.tour(g, make_model, on_step, rnd=rnd)
    out['restarts'] = restarts + 1
    out['tour'] = dict(workbook=name, kind=kind, states=len(g.states), edges=g.n_edges,
                       covered=covered, steps=steps, restarts=restarts,
                       early_stops=out['early_stops'], bound_checks=out['bound_checks'],
                       spec_drift=bool(drift))
    out['keys'] = len(out['keys'])
    out['violations'] = out['violations'][:5]
    return out


def trace_job(arg):
    """code -> spec: random workbooks, random histories, every iterative
    evaluate() recorded event by event (validated by TLC in the caller)"""
    from harness import itertrace as IT, randwb
    kind, n_wb, seed = arg
    rnd = random.Random(seed)
    out = dict(traces=[], violations=[], workbooks=0, evaluates=0, bound_checks=0,
               early_stops=0, agree_checks=0, sample=None)
    # 0.0: an explicit tolerance of zero (stop only when nothing changes at all)
    tols = [2.0 ** -4, 2.0 ** -8, 2.0 ** -12, 0.0]
    for _ in range(n_wb):
        if kind == 'cyclic':
            wb, q, fcells = IT.random_cyclic(rnd)
            targets = fcells + [f for f in wb['formulas'] if f not in fcells]
            oracle = None
        else:
            wb = randwb.random_workbook(rnd, nrows=rnd.choice([2, 3]), ncols=rnd.choice([3, 4, 5]))
            n = W.nodes(wb)
            targets = n['formulas'] + n['ranges'] + n['aliases'] + n['inputs']
            q, fcells = None, []
            oracle = engine.Oracle(wb)
        cells, arrays = W.cells(wb)
        try:
            m = xl.compile_wb(cells, arrays=arrays, cycles=dict(CYCLES))
        except Exception as exc:      # noqa
            out['violations'].append((f'workbook does not compile with cycles on: {exc!r}',
                                      dict(cells=cells)))
            continue
        out['workbooks'] += 1
        rec = IT.Recorder(m)
        inputs = dict(wb['inputs'])
        hist = []
        for step in range(8):
            built_inputs = [a for a in inputs if W.addr(a) in m.cell_map]
            if built_inputs and rnd.random() < 0.3:
                a = rnd.choice(built_inputs)
                val = rnd.choice([0, 1, 3, 8, 64, 4000] if kind == 'cyclic' else [1, 2, 5, 'a', None, True])
                m.set_value(W.addr(a), val)
                inputs[a] = val
                hist.append(['set_value', a, val])
                continue
            n_it = rnd.choice([1, 2, 3, 5, 8, 100])
            tol = rnd.choice(tols)
            t = rnd.choice(targets)
            two = kind == 'cyclic' and rnd.random() < 0.15
            address = [W.addr(t), W.addr(rnd.choice(targets))] if two else W.addr(t)
            status, got, events, values = rec.evaluate(address, n_it, tol)
            hist.append(['evaluate', address, n_it, tol])
            out['evaluates'] += 1
            case = dict(cells=cells, arrays=arrays, history=list(hist))
            out['traces'].append(dict(iterations=n_it, events=events, case=case, kind=kind))
            if out['sample'] is None and kind == 'cyclic' and len(events) > 12:
                out['sample'] = dict(cells=cells, history=list(hist), events=events[:14])
            if status == 'exc':
                if kind == 'cyclic':
                    out['violations'].append((f'evaluate({address}, {n_it}, {tol}) raised {got}', case))
                else:
                    st, want = oracle.values(inputs)[t]
                    if st == 'ok':
                        out['violations'].append((
                            f'iterative evaluate({address}) raised {got}; plain evaluation of a '
                            f'from-scratch compile gives {want!r}', case))
                break
            passes = sum(e['ev'] == 'pass' for e in events)
            if passes > n_it:
                out['violations'].append((
                    f'evaluate({address}, iterations={n_it}) performed {passes} passes', case))
            if kind == 'cyclic' and passes < n_it:
                out['early_stops'] += 1
                fp = IT.fixed_point(wb, {a: x for a, x in inputs.items()})
                lim = q / (1 - q) * Fraction(tol) * IT.REL
                for c, (before, val) in values[-1].items():
                    if c in fcells and isinstance(val, (int, float)) and not isinstance(val, bool):
                        out['bound_checks'] += 1
                        err = abs(Fraction(val) - fp[c])
                        # binary floating point: the iterates are rounded
                        if err > lim + Fraction(1, 10 ** 12) * max(1, abs(fp[c])):
                            out['violations'].append((
                                f'{c} = {val!r} after an early stop (pass {passes} of {n_it}) is '
                                f'{float(err):.3g} from the fixed point {float(fp[c]):.6g}: more than '
                                f'q/(1-q) x tolerance = {float(lim):.3g} (q = {q})', case))
            if kind == 'acyclic':
                out['agree_checks'] += 1
                st, want = oracle.values(inputs)[t]
                if st != 'ok' or not xl.same_value(got, want):
                    out['violations'].append((
                        f'iterative evaluate({address}, iterations={n_it}) returned {got!r}; plain '
                        f'evaluation of a from-scratch compile with inputs {inputs} gives {want!r}',
                        case))
    out['violations'] = out['violations'][:6]
    return out


def trace_part(v, tier, seed):
    """random executions validated against TraceIter.tla"""
    from harness import itertrace as IT
    n_jobs, per = (8, 12) if tier == 'quick' else (16, 150)
    jobs = [('cyclic', per, seed * 1000 + i) for i in range(n_jobs)] + \
           [('acyclic', per // 2, seed * 1000 + 500 + i) for i in range(n_jobs // 2)]
    traces, totals = [], dict(workbooks=0, evaluates=0, bound_checks=0, early_stops=0, agree_checks=0)
    for r in parallel.run_jobs(trace_job, jobs):
        traces += r['traces']
        for k in totals:
            totals[k] += r[k]
        for desc, case in r['violations']:
            v.violation(desc, case)
        if r['sample']:
            v.sample(r['sample'], limit=4)
    # binding self-test: three corrupted copies must be rejected, each by its clause
    donor = next((t for t in traces if t['kind'] == 'cyclic'
                  and sum(e['ev'] == 'pass' for e in t['events']) < t['iterations']
                  and any(e['ev'] == 'end' for e in t['events'])), None)
    expect = []
    if donor:
        a = json.loads(json.dumps(donor))
        for e in reversed(a['events']):
            if e['ev'] == 'end':
                e['moved'] = True
                break
        b = json.loads(json.dumps(donor))
        b['events'] = [dict(ev='pass')] * (b['iterations'] + 1) + [dict(ev='return', k=b['iterations'] + 1, todo=[])]
        c = json.loads(json.dumps(donor))
        i = next(i for i, e in enumerate(c['events']) if e['ev'] == 'end')
        del c['events'][i]
        for t, clause in ((a, 'HonestStop'), (b, 'PassBound'), (c, None)):
            t['selftest'] = True
            traces.append(t)
            expect.append((len(traces) - 1, clause))
    res, verdicts = IT.validate(traces)
    v.tlc_runs.append(dict(run=f'TraceIter {len(traces)} traces', distinct=res.distinct,
                           generated=res.generated, depth=res.depth, wall_s=round(res.wall, 2)))
    v.states += res.distinct
    v.transitions += res.generated
    for i, clause in expect:
        got = verdicts[i][0]
        if got == 'ok' or (clause and got != clause):
            raise tlc.MachineryFailure(f'TraceIter accepted / misjudged a corrupted trace: '
                                       f'expected {clause}, got {verdicts[i]}')
    accepted = drifted = 0
    for t, (verdict, line, drift) in zip(traces, verdicts):
        if t.get('selftest'):
            continue
        if verdict == 'ok':
            accepted += 1
            if drift:
                drifted += 1
                if drifted <= 3:
                    v.note(f'spec-drift TraceIter {drift}: history {t["case"]["history"][-1]}')
        elif verdict == 'incomplete':
            raise tlc.MachineryFailure(f'TraceIter could not read line {line + 1} of a trace: '
                                       f'{t["events"][line:line + 1]}')
        else:
            what = {'HonestStop': 'evaluate returned before the last permitted pass although a cell '
                                  'moved by more than the tolerance in the last pass',
                    'PassBound': 'more passes than the requested number of iterations',
                    'NoReentry': 'a cell whose calculation is in progress is calculated again',
                    'Nesting': 'evaluation events are not properly nested'}.get(verdict, verdict)
            moved_cells = sorted({e['c'] for e in t['events'][:line] if e.get('moved')})
            v.violation(f'[trace] {what} (clause {verdict} of TraceIter.tla at event {line}: '
                        f'{t["events"][line - 1:line]}; cells that moved: {moved_cells}); '
                        f'last call {t["case"]["history"][-1]}', t['case'])
    v.traces += accepted
    v.evaluations += totals['evaluates']
    v.distinct.update(('trace', i) for i in range(len(traces)))
    v.extra['trace_validation'] = dict(totals, traces=len(traces) - len(expect), accepted=accepted,
                                       spec_drift=drifted, corrupted_rejected=len(expect),
                                       events=sum(len(t['events']) for t in traces))


def run(tier, seed):
    v = Verdict(PID, tier, seed)
    T4, T8, T12 = 4096, 256, 16          # tolerances 2^-4, 2^-8 and 2^-12 at scale 2^16
    if tier == 'quick':
        jobs = [
            ('acyclic', 'chain', [2], [(1, 0), (100, 0)], ['A1'], 0, seed),
            ('acyclic', 'nested', [2], [(2, 0), (100, 0)], ['A1'], 0, seed),
            ('acyclic', 'alias', [5], [(100, 0)], ['A1'], 0, seed),
            ('acyclic', 'cse', [5], [(100, 0)], ['A2'], 0, seed),
            ('acyclic', 'onecell', [5], [(100, 0)], ['A1'], 0, seed),
            ('acyclic', 'chain', [2], [(1, 0), (100, 0)], ['A1'], 0, seed, 'Stored'),
            ('acyclic', 'range', [2], [(2, 0), (100, 0)], ['A1'], 0, seed, 'Stored'),
            ('cyclic', 'cyc2', [0, 8], [(1, T4), (3, T4), (100, T4)], None, 4, seed),
            ('cyclic', 'cycr', [3], [(2, T4), (100, T4)], None, 4, seed),
            ('cyclic', 'cyc3', [0], [(100, T4), (4, T8)], None, 4, seed),
            # values which are large next to the tolerance (|value| > 10^5 x tolerance)
            ('cyclic', 'cyc2', [4000], [(100, T12), (3, T12)], None, 4, seed),
        ]
    else:
        jobs = []
        for name in ('chain', 'nested', 'alias', 'cse', 'range', 'grid', 'trimex', 'twosheet'):
            ins = sorted(W.WORKBOOKS[name]['inputs'])
            # the state keeps previous values and pass counts: one settable input and
            # two (iterations, tolerance) choices keep each graph below ~10^4 states
            small = name in ('chain', 'range', 'twosheet')
            jobs.append(('acyclic', name, [2, 'a'] if small else [2], [(1, 0), (100, 0)],
                         ins[:1], 0, seed))
            if small:
                jobs.append(('acyclic', name, [5], [(2, 0), (3, 0)], ins[-1:], 0, seed + 1))
            if name != 'twosheet':
                jobs.append(('acyclic', name, [2], [(1, 0), (100, 0)], ins[:1], 0, seed, 'Stored'))
        for name in W.WORKBOOKS_CYC:
            jobs.append(('cyclic', name, [0, 3, 8], [(1, T4), (2, T4), (3, T4), (100, T4), (100, T8), (5, T8)],
                         None, 4, seed))
        jobs.append(('cyclic', 'cyc2', [4000, 3], [(100, T12), (3, T12), (100, T4)], None, 4, seed))
        jobs.append(('cyclic', 'cyc3', [4000], [(100, T12), (5, T12)], None, 4, seed))
    results = parallel.run_jobs(job, jobs)
    for r in results:
        v.tlc_runs.append(r['tlc'])
        v.states += r['tlc']['distinct']
        v.transitions += r['tlc']['generated']
        v.evaluations += r['cases']
        v.distinct.update((r['name'], i) for i in range(r['keys']))
        v.traces += r['restarts']
        v.extra.setdefault('tours', []).append(r['tour'])
        for n in r['notes']:
            v.note(n)
        for desc, case in r['violations']:
            v.violation(desc, case)
        v.sample(r['sample'], limit=3)
    trace_part(v, tier, seed)
    v.extra.update(
        exhaustive=True,
        rule='one case = one transition (state, action) of the TLC graph of EngineIter.tla '
             'executed on a real cycles=True model; cyclic systems: histories up to the depth '
             'bound, values exact at scale 2^16 (states with inexact values are excluded '
             'from the projection comparison, never from the verdict); plus one case per '
             'iterative evaluate() of a random history on a random circular / acyclic workbook, '
             'recorded event by event and validated by TLC against TraceIter.tla')
    v.assumptions = ['passes are counted at _IterativeEvalTracker.inc_iteration_number',
                     'per-pass cell values come from the PYCEL_VERIF end-of-evaluation hook',
                     'no-data workbooks (no stored results) only']
    return v.finish()
