"""C07 -- evaluations on different threads are isolated from each other.

spec/Threads.tla models the two module-level singletons (iterative tracker
namespace, array-formula context stack) per thread and the micro steps of
three workloads; TLC proves Isolation over ALL interleavings for
thread-local namespaces and must find a counterexample when they are shared
(non-vacuity).  Binding: (a) the solo result of every workload on the real
code equals the model's Solo; (b) every schedule of the systematic family --
the second workload runs to completion, or for k of its own evaluation
events, inside the j-th evaluation event of the first -- is executed with
real threads under a deterministic baton scheduler (preemption points = the
formula begin/end hooks).  VERDICT: each thread's results, pass counts and
the tracker / context-stack fields it sees at its own events equal what it
gets when run alone.  (c) every public operation works as the first pycel
action of a brand-new thread.
"""
import itertools
import json
import os
import random
import threading

from harness import parallel, sched, tlc, xl
from harness.evidence import Verdict

PID = 'C07'
SCALE = 65536
PAIRS = {'WorkII': ('IterA', 'IterB'), 'WorkIA': ('IterA', 'ArrB'), 'WorkAA': ('ArrA', 'ArrB'),
         'WorkIP': ('IterB', 'Plain'), 'WorkAP': ('ArrA', 'Plain'),
         'WorkRR': ('RefA', 'RefB'), 'WorkRA': ('RefA', 'ArrB'),
         'WorkLL': ('LoadA', 'LoadB'), 'WorkLP': ('LoadA', 'Plain')}
MUST_BREAK_WHEN_SHARED = {'WorkII', 'WorkIA', 'WorkAA', 'WorkAP', 'WorkRA'}


# ---- the workloads on the real code -----------------------------------------
def build(kind):
    """returns (model, callable performing the evaluation -> observable)"""
    cy = dict(iterations=100, tolerance=0.001)
    if kind == 'IterA':
        m = xl.compile_wb({'A1': '=A1/2+1'}, cycles=cy)
        return m, lambda: (m.evaluate('S!A1', iterations=100, tolerance=4096 / SCALE),
                           iter_no())
    if kind == 'IterB':
        m = xl.compile_wb({'A1': '=A1/2+2'}, cycles=cy)
        return m, lambda: (m.evaluate('S!A1', iterations=3, tolerance=256 / SCALE), iter_no())
    if kind == 'Iter2':      # two cell cycle through a range, own settings
        m = xl.compile_wb({'A1': '=SUM(B1:B2)/4+1', 'B1': '=A1', 'B2': 3}, cycles=cy)
        return m, lambda: (m.evaluate('S!A1', iterations=7, tolerance=1 / 64), iter_no())
    if kind == 'ArrA':
        m = xl.compile_wb({'A1': 1, 'B1': 2, 'A2': 3, 'B2': 4}, arrays={'D1:F3': '=A1:B2*2'})
        return m, lambda: m.evaluate('S!D1:F3')
    if kind == 'ArrB':
        m = xl.compile_wb({'A1': 1, 'B1': 2, 'A2': 3, 'B2': 4}, arrays={'D5:G5': '=A1:B2*2'})
        return m, lambda: m.evaluate('S!D5:G5')
    if kind == 'ArrIter':    # array formula inside an iterative model
        m = xl.compile_wb({'A1': 1, 'A2': 2, 'E1': '=D1+D2+E1/2'},
                          arrays={'D1:D2': '=A1:A2*2'}, cycles=cy)
        return m, lambda: (m.evaluate('S!E1', iterations=6, tolerance=1 / 16), iter_no())
    if kind == 'Plain':
        m = xl.compile_wb({'A1': 5, 'B1': '=A1+1', 'C1': '=B1+1'})
        return m, lambda: m.evaluate('S!C1')
    if kind in ('RefA', 'RefB'):   # library functions which receive references
        b = 1 if kind == 'RefA' else 10
        m = xl.compile_wb({'A1': b, 'A2': 2 * b, 'A3': 3 * b, 'D1': '=A1+1',
                           # Threads.tla "ref": D1 is evaluated between the loading of
                           # CELL and its call
                           'E1': '=D1+CELL("contents",OFFSET(A1,0,0))',
                           'C1': '=ROUND(OFFSET(A1,2,0),0)+1',
                           'C2': '=INDEX(OFFSET(A1,0,0,3,1),2)+SUM(INDIRECT("A1:A2"))',
                           'C3': '=MATCH(A2,OFFSET(A1,0,0,3,1),0)*A3'})
        return m, lambda: m.evaluate(['S!E1', 'S!C1', 'S!C2', 'S!C3'])
    if kind == 'SetEval':    # set_value then evaluate on an iterative model
        m = xl.compile_wb({'A1': 1, 'B1': '=A1+1', 'C1': '=SUM(A1:B1)'}, cycles=cy)
        m.evaluate('S!C1')

        def go():
            m.set_value('S!A1', 10)
            return m.evaluate('S!C1'), iter_no()
        return m, go
    if kind in ('LoadA', 'LoadB'):   # reading a workbook file with date formatted cells
        path = load_file(kind)

        def go():
            from pycel import ExcelCompiler
            m = ExcelCompiler(filename=path)
            return tuple(m.evaluate(f'S!B{i}') for i in range(1, LOAD_CELLS[kind] + 1))
        return None, go
    raise ValueError(kind)


LOAD_CELLS = {'LoadA': 3, 'LoadB': 2}
_LOAD_FILES = {}


def load_file(kind):
    """an .xlsx file whose A column holds date formatted cells, B = A + 1"""
    key = (kind, os.getpid())
    if key not in _LOAD_FILES:
        import datetime
        import openpyxl
        wb = openpyxl.Workbook()
        ws = wb.active
        ws.title = 'S'
        for i in range(1, LOAD_CELLS[kind] + 1):
            ws[f'A{i}'] = datetime.datetime(2020 + i, 1 + (kind == 'LoadB'), i)
            ws[f'A{i}'].number_format = 'yyyy-mm-dd'
            ws[f'B{i}'] = f'=A{i}+1'
        path = os.path.join(tlc.new_scratch('load'), kind + '.xlsx')
        wb.save(path)
        _LOAD_FILES[key] = path
    return _LOAD_FILES[key]


def iter_no():
    from pycel.excelutil import iterative_eval_tracker as trk
    return trk.ns.iteration_number


def snapshot():
    """what a thread sees of the two singletons at one of its events"""
    from pycel.excelutil import iterative_eval_tracker as trk, in_array_formula_context as ctx
    ns = trk.ns
    return (ns.iteration_number, getattr(ns, 'iterations', None),
            getattr(ns, 'tolerance', None), len(ns.todo), len(ns.computed),
            tuple(str(a) for a in ctx.ns.ctx_addresses))


def solo(kind, warm=False):
    """run one workload alone on a fresh thread, recording its event sequence"""
    from pycel import _verif
    out = {}

    def body():
        if warm:
            build('Plain')[1]()
            build('IterB')[1]()
        m, go = build(kind)
        events = []

        def sink(k, formula, *rest):
            if k in ('begin', 'end', 'fail') and threading.get_ident() == me:
                events.append((k, str(formula.cell.address) if formula.cell else '?', snapshot()))
        me = threading.get_ident()
        prev = _verif.set_sink(sink)
        try:
            out['result'] = go()
        finally:
            _verif.set_sink(prev)
        out['events'] = events
    t = threading.Thread(target=body)
    t.start()
    t.join()
    return out


def fresh_run(kind):
    """one workload as the first pycel action of a new thread, unobserved (the
    event sink reads the per-thread singletons, which would initialise them)"""
    box = {}

    def body():
        try:
            box['r'] = build(kind)[1]()
        except BaseException as exc:     # noqa
            box['r'] = f'raised {type(exc).__name__}: {exc}'
    t = threading.Thread(target=body)
    t.start()
    t.join()
    return box['r']


def pair_job(arg):
    k1, k2, warm, seed = arg
    rnd = random.Random(seed)
    s1, s2 = solo(k1, warm), solo(k2, warm)
    n1, n2 = len(s1['events']), len(s2['events'])
    out = dict(pair=(k1, k2), warm=warm, schedules=0, switches=0, violations=[],
               points=(n1, n2), sample=None)
    # the systematic family: thread 1 runs to its j-th point, thread 2 runs k
    # points (or to completion), thread 1 completes, thread 2 completes;
    # plus the mirror image and a few random schedules
    fam = [(1, j, k) for j in range(0, n1 + 1) for k in list(range(1, n2 + 1)) + [10 ** 6]]
    fam += [(2, j, k) for j in range(0, n2 + 1) for k in list(range(1, n1 + 1)) + [10 ** 6]]
    if len(fam) > 700:
        rnd.shuffle(fam)
        fam = fam[:700]
    for _ in range(40):
        fam.append(('rnd', rnd.randrange(10 ** 6), 0))
    for first, j, k in fam:
        events = {1: [], 2: []}

        def observe(tid, kind, formula, rest):
            events[tid].append((kind, str(formula.cell.address) if formula.cell else '?', snapshot()))

        if first == 'rnd':
            r2 = random.Random(j)
            decide = lambda tid, own, glob, r2=r2: r2.choice((1, 2))     # noqa
        else:
            other = 2 if first == 1 else 1
            state = dict(phase=0, count=0)

            def decide(tid, own, glob, first=first, other=other, j=j, k=k, state=state):
                if state['phase'] == 0 and tid == first and own >= j:
                    state['phase'] = 1
                    return other
                if state['phase'] == 1 and tid == other:
                    state['count'] += 1
                    if state['count'] >= k:
                        state['phase'] = 2
                        return first
                return tid
        holders = {}

        def w(tid, kind):
            if warm:
                build('Plain')[1]()
                build('IterB')[1]()
            m, go = build(kind)
            holders[tid] = m
            sched.CURRENT['baton'].armed.add(tid)       # events count from here on
            return go()

        start_first = first if first != 'rnd' else 1
        kinds = {1: k1, 2: k2}
        try:
            res, baton = sched.run_pair(lambda t: w(1, k1), lambda t: w(2, k2), decide, observe,
                                        first=start_first)
        except sched.Deadlock as exc:
            raise tlc.MachineryFailure(f'scheduler deadlock {k1}/{k2} {first, j, k}: {exc}')
        out['schedules'] += 1
        out['switches'] += baton.switches
        case = dict(workloads=[k1, k2], warm=warm, schedule=[first, j, k])
        for tid, sol in ((1, s1), (2, s2)):
            st, val = res[tid]
            if st != 'ok' and val.startswith('Deadlock:'):
                # the scheduler gave up waiting (an overloaded machine): no verdict
                raise tlc.MachineryFailure(f'scheduler timeout {k1}/{k2} {first, j, k}: {val}')
            if st != 'ok':
                out['violations'].append((
                    f'{kinds[tid]} raised {val} when interleaved with {kinds[3 - tid]} '
                    f'(schedule {first, j, k})', case))
            elif not xl.same_value(val, sol['result']) and val != sol['result']:
                out['violations'].append((
                    f'{kinds[tid]} returned {val!r} when interleaved with {kinds[3 - tid]} '
                    f'(schedule {first, j, k}); alone it returns {sol["result"]!r}', case))
            elif events[tid] != sol['events']:
                diff = next((i for i, (a, b) in enumerate(zip(events[tid], sol['events'])) if a != b),
                            min(len(events[tid]), len(sol['events'])))
                out['violations'].append((
                    f'{kinds[tid]} saw different tracker/context state at its event {diff} when '
                    f'interleaved with {kinds[3 - tid]} (schedule {first, j, k}): '
                    f'{events[tid][diff:diff + 1]} vs alone {sol["events"][diff:diff + 1]}', case))
        if out['sample'] is None:
            out['sample'] = dict(workloads=[k1, k2], schedule=[first, j, k],
                                 results={t: repr(r) for t, r in res.items()},
                                 events_thread1=[e[:2] for e in events[1][:6]])
        if len(out['violations']) > 6:
            break
    out['violations'] = out['violations'][:4]
    return out


def fine_job(arg):
    """preemption at every call of a pycel function (finer than the cell
    evaluations): one workload runs to completion inside the j-th call of the other"""
    k1, k2, limit, seed = arg[:4]
    # only: the calls which are preemption points (None = every pycel function);
    # with a handful of points the whole (j, k) family is executed
    only = arg[4] if len(arg) > 4 else None
    rnd = random.Random(seed)
    want = {1: solo(k1)['result'], 2: solo(k2)['result']}
    kinds = {1: k1, 2: k2}
    out = dict(pair=(k1, k2), warm='calls' if len(arg) < 5 else 'calls of ' + '/'.join(arg[4]), schedules=0, switches=0, violations=[],
               points=None, sample=None)

    def execute(first, j, k=None):
        """k: the other workload runs k of its calls only, then the first one
        completes, then the other (overlap which is not nested)"""
        other = 3 - first
        state = dict(phase=0, count=0)

        def decide(tid, own, glob):
            if state['phase'] == 0 and tid == first and own >= j:
                state['phase'] = 1
                return other
            if k is not None and state['phase'] == 1 and tid == other:
                state['count'] += 1
                if state['count'] >= k:
                    state['phase'] = 2
                    return first
            return tid

        def w(tid, kind):
            m, go = build(kind)
            sched.CURRENT['baton'].armed.add(tid)
            return go()
        try:
            return sched.run_pair(lambda t: w(1, k1), lambda t: w(2, k2), decide,
                                  lambda *a: None, first=first, call_points=True, only=only)
        except sched.Deadlock as exc:
            raise tlc.MachineryFailure(f'scheduler deadlock {k1}/{k2} calls {first, j}: {exc}')

    # how many call points each workload has when it runs alone
    n = {}
    for first in (1, 2):
        res, baton = execute(first, 10 ** 9)
        n[first] = baton.points[first]
    out['points'] = (n[1], n[2])
    if min(n.values()) < (20 if only is None else 4):
        raise tlc.MachineryFailure(f'vacuous: {n} call points in {k1}/{k2}')
    for first in (1, 2):
        js = list(range(1, n[first] + 1))
        if len(js) > limit:
            js = sorted(rnd.sample(js, limit))
        for j in js:
            res, baton = execute(first, j)
            out['schedules'] += 1
            out['switches'] += baton.switches
            case = dict(workloads=[k1, k2], schedule=['call', first, j])
            for tid in (1, 2):
                st, val = res[tid]
                if st != 'ok' and val.startswith('Deadlock:'):
                    raise tlc.MachineryFailure(f'scheduler timeout {k1}/{k2} call {first, j}: {val}')
                if st != 'ok':
                    out['violations'].append((
                        f'{kinds[tid]} raised {val} when {kinds[3 - tid]} '
                        f'{"ran inside its" if tid == first else "was suspended at its"} '
                        f'call {j} of {n[first]} pycel function calls', case))
                elif not xl.same_value(val, want[tid]) and val != want[tid]:
                    out['violations'].append((
                        f'{kinds[tid]} returned {val!r} when {kinds[first]} was suspended at call '
                        f'{j} of its {n[first]} pycel function calls while {kinds[3 - first]} ran to '
                        f'completion; alone it returns {want[tid]!r}', case))
            if out['sample'] is None:
                out['sample'] = dict(workloads=[k1, k2], schedule=['call', first, j],
                                     results={t: repr(r) for t, r in res.items()})
            if len(out['violations']) > 4:
                break
    # overlap which is not nested: the first runs to its call j, the other runs
    # k calls, the first completes, the other completes
    for first in (1, 2):
        other = 3 - first
        if n[first] * n[other] <= limit:
            jks = [(j, k) for j in range(1, n[first] + 1) for k in range(1, n[other] + 1)]
        else:
            jks = [(rnd.randint(1, n[first]), rnd.randint(1, n[other])) for _ in range(limit // 2)]
        for j, k in jks:
            res, baton = execute(first, j, k)
            out['schedules'] += 1
            out['switches'] += baton.switches
            out['lock_waits'] = out.get('lock_waits', 0) + baton.lock_waits
            case = dict(workloads=[k1, k2], schedule=['call', first, j, k])
            for tid in (1, 2):
                st, val = res[tid]
                if st != 'ok' and val.startswith('Deadlock:'):
                    raise tlc.MachineryFailure(
                        f'scheduler timeout {k1}/{k2} call {first, j, k}: {val}')
                if st != 'ok':
                    out['violations'].append((
                        f'{kinds[tid]} raised {val} (schedule: {kinds[first]} to its call {j}, '
                        f'{kinds[other]} {k} calls, {kinds[first]} to the end)', case))
                elif not xl.same_value(val, want[tid]) and val != want[tid]:
                    out['violations'].append((
                        f'{kinds[tid]} returned {val!r} (schedule: {kinds[first]} to its call {j}, '
                        f'{kinds[other]} {k} calls, {kinds[first]} to the end); alone it returns '
                        f'{want[tid]!r}', case))
            if len(out['violations']) > 4:
                break
    out['violations'] = out['violations'][:4]
    return out


def any_job(arg):
    return fine_job(arg[1:]) if arg[0] == 'fine' else pair_job(arg)


def fresh_thread_ops():
    """every public operation as the first pycel action of a brand-new thread"""
    from pycel import ExcelCompiler
    viol, count = [], 0
    d = tlc.new_scratch('ft')
    cy = dict(iterations=50, tolerance=0.001)
    cells = {'A1': 1, 'B1': '=A1+1', 'C1': '=SUM(A1:B1)', 'D1': '=C1*2'}
    for cycles in (None, cy):
        for ft in ('yml', 'json', 'pkl'):
            base = os.path.join(d, f'm_{ft}_{bool(cycles)}_x')
            m0 = xl.compile_wb(cells, cycles=cycles)
            m0.evaluate('S!D1')
            m0.to_file(base, file_types=(ft,))
            ops = {
                'from_file+evaluate': lambda: ExcelCompiler.from_file(base + '.' + ft).evaluate('S!D1'),
                'set_value': lambda: (m0.set_value('S!A1', 5), m0.evaluate('S!D1'))[1],
                'evaluate': lambda: m0.evaluate('S!C1'),
                'trim_graph': lambda: (lambda m: (m.trim_graph(['S!A1'], ['S!D1']),
                                                  m.set_value('S!A1', 7),
                                                  m.evaluate('S!D1'))[2])(
                    ExcelCompiler.from_file(base + '.' + ft)),
                'value_tree_str': lambda: len(list(m0.value_tree_str('S!D1'))),
            }
            for name, op in ops.items():
                box = {}

                def body():
                    try:
                        box['r'] = ('ok', op())
                    except BaseException as exc:     # noqa
                        box['r'] = ('exc', f'{type(exc).__name__}: {exc}')
                t = threading.Thread(target=body)
                t.start()
                t.join()
                count += 1
                if box['r'][0] != 'ok':
                    viol.append((f'{name} as the first pycel action of a new thread '
                                 f'(cycles={bool(cycles)}, {ft}) raised {box["r"][1]}',
                                 dict(op=name, cycles=bool(cycles), file_type=ft)))
                else:
                    main = op() if name in ('evaluate', 'value_tree_str') else None
                    if main is not None and main != box['r'][1]:
                        viol.append((f'{name} on a new thread returned {box["r"][1]!r}, on the '
                                     f'main thread {main!r}', dict(op=name)))
    return viol, count


def tlc_job(arg):
    work, shared = arg[:2]
    metaread = arg[2] if len(arg) > 2 else 'FALSE'
    nolock = arg[3] if len(arg) > 3 else 'FALSE'
    d = tlc.new_scratch('thr')
    cfg = os.path.join(d, 't.cfg')
    with open(cfg, 'w') as f:
        f.write(f'CONSTANTS\n Thr <- MCThr\n Work <- {work}\n SHARED = {shared}\n METAREAD = {metaread}\n'
                f' NOLOCK = {nolock}\n'
                'SPECIFICATION Spec\nINVARIANT Isolation\nINVARIANT StackBalanced\nINVARIANT CallingBalanced\n'
                'INVARIANT Unpatched\nINVARIANT OneLoader\nINVARIANT ExportSolo\n')
    res = tlc.run('MC_Threads', cfg, workers=1, timeout=600)
    return dict(work=work, shared=shared, metaread=metaread, nolock=nolock, rc=res.rc, violated=res.violated,
                distinct=res.distinct, generated=res.generated, depth=res.depth,
                wall=round(res.wall, 2), json=res.json[:1])


def run(tier, seed):
    v = Verdict(PID, tier, seed)
    # ---- the design: all interleavings, thread-local vs shared --------------
    tl = parallel.run_jobs(tlc_job, [(w, sh) for w in PAIRS for sh in ('FALSE', 'TRUE')] +
                           [('WorkRR', 'FALSE', 'TRUE'), ('WorkLL', 'FALSE', 'FALSE', 'TRUE')])
    solo_model = {}
    for r in tl:
        v.tlc_runs.append(dict(run=f'Threads {r["work"]} SHARED={r["shared"]} METAREAD={r["metaread"]} '
                                   f'NOLOCK={r["nolock"]}',
                               distinct=r['distinct'], generated=r['generated'],
                               depth=r['depth'], wall_s=r['wall'], violated=r['violated']))
        v.states += r['distinct']
        v.transitions += r['generated']
        if r['nolock'] == 'TRUE':
            # the code before D69: loads do not take turns
            if r['violated'] not in ('Isolation', 'Unpatched'):
                raise tlc.MachineryFailure('vacuous: Threads.tla WorkLL does not violate '
                                           'Isolation / Unpatched with NOLOCK')
        elif r['metaread'] == 'TRUE':
            # the code before D61: callees read the shared function metadata
            if r['violated'] != 'Isolation':
                raise tlc.MachineryFailure('vacuous: Threads.tla WorkRR does not violate '
                                           'Isolation with METAREAD')
        elif r['shared'] == 'FALSE':
            if r['rc'] != 0:
                raise tlc.MachineryFailure(f'Threads.tla {r["work"]} violates {r["violated"]} '
                                           'with thread-local namespaces')
            k1, k2 = PAIRS[r['work']]
            sol = r['json'][0]['solo']
            solo_model[k1], solo_model[k2] = sol['1'] if isinstance(sol, dict) else sol[0], \
                sol['2'] if isinstance(sol, dict) else sol[1]
        elif r['work'] in MUST_BREAK_WHEN_SHARED and r['violated'] != 'Isolation':
            raise tlc.MachineryFailure(f'vacuous: Threads.tla {r["work"]} does not violate '
                                       'Isolation with a shared namespace')
    # ---- binding (a): solo results of the real code = Solo of the model -----
    for kind, want in sorted(solo_model.items()):
        got = solo(kind)['result']
        v.case(('solo', kind))
        if kind.startswith('Iter'):
            ok = abs(got[0] * SCALE - want[0]) < 1e-6 and got[1] == want[1]
        elif kind.startswith('Ref'):
            ok = got[0] == want[0]
        elif kind.startswith('Load'):
            ok = len(got) == want[0] and all(xl.typeclass(x) == 'num' for x in got)
        elif kind.startswith('Arr'):
            shape = (len(got), len(got[0])) if isinstance(got[0], tuple) else (1, len(got))
            ok = list(shape) == list(want)
        else:
            ok = got == want[0]
        if not ok:
            v.note(f'spec-drift: solo {kind} on the code gives {got!r}, Threads.tla Solo = {want}')
    # ---- binding (b): schedules on real threads ------------------------------
    kinds = ['IterA', 'IterB', 'Iter2', 'ArrA', 'ArrB', 'ArrIter', 'Plain', 'SetEval', 'RefA', 'RefB',
             'LoadA', 'LoadB']
    if tier == 'quick':
        pairs = [('RefA', 'RefB'),
                 ('IterA', 'IterB'), ('IterA', 'ArrB'), ('ArrA', 'ArrB'), ('Iter2', 'ArrIter'),
                 ('IterB', 'Plain'), ('ArrA', 'Plain'), ('Iter2', 'SetEval'), ('ArrIter', 'IterA')]
        jobs = [(a, b, False, seed) for a, b in pairs] + [('IterA', 'Iter2', True, seed),
                                                            ('ArrB', 'IterB', True, seed)]
    else:
        jobs = [(a, b, w, seed) for a, b in itertools.product(kinds, kinds) for w in (False, True)]
    if tier == 'quick':
        jobs += [('fine', 'RefA', 'RefB', 200, seed + i) for i in range(3)] + [
                 ('fine', 'ArrA', 'ArrB', 60, seed),
                 ('fine', 'IterA', 'ArrIter', 60, seed),
                 ('fine', 'LoadA', 'LoadB', 80, seed),
                 ('fine', 'LoadA', 'LoadB', 200, seed, ('from_excel', 'load')),
                 ('fine', 'LoadB', 'Plain', 40, seed)]
    else:
        fk = ['RefA', 'RefB', 'ArrA', 'ArrIter', 'IterA', 'Plain', 'LoadA', 'LoadB']
        jobs += [('fine', a, b, 10 ** 6 if 'Ref' in a + b else 400, seed)
                 for a, b in itertools.combinations_with_replacement(fk, 2)
                 if (a, b) != ('RefB', 'RefB')]
        jobs += [('fine', a, b, 10 ** 6, seed, ('from_excel', 'load'))
                 for a, b in (('LoadA', 'LoadB'), ('LoadB', 'LoadA'), ('LoadA', 'LoadA'))]
    for r in parallel.run_jobs(any_job, jobs):
        v.evaluations += r['schedules']
        v.distinct.update((r['pair'], r['warm'], i) for i in range(r['schedules']))
        v.traces += r['schedules']
        v.extra.setdefault('pairs', []).append(dict(pair=r['pair'], warm=r['warm'],
                                                    schedules=r['schedules'],
                                                    context_switches=r['switches'],
                                                    preemption_points=r['points']))
        for desc, case in r['violations']:
            v.violation(desc, case)
        if r['sample']:
            v.sample(r['sample'], limit=3)
    # ---- (c) first action of a new thread -----------------------------------
    viol, count = fresh_thread_ops()
    # every workload as the very first pycel action of a new thread: the result
    # is what a thread which has used the library before gets
    for kind in kinds:
        build('Plain')[1]()
        build('ArrB')[1]()
        used = build(kind)[1]()
        fresh = fresh_run(kind)
        count += 1
        if not (xl.same_value(fresh, used) or fresh == used):
            viol.append((f'workload {kind} as the first pycel action of a new thread returned '
                         f'{fresh!r}; on a thread which has evaluated formulas before it '
                         f'returns {used!r}', dict(workload=kind)))
    v.evaluations += count
    v.extra['fresh_thread_operations'] = count
    for desc, case in viol:
        v.violation(desc, case)
    v.extra.update(
        exhaustive=True,
        rule='one case = one schedule of two workloads on real threads under the baton scheduler '
             '(systematic family: the second workload runs k of its events, or to completion, '
             'inside the j-th event of the first; both orders; plus 40 random schedules per pair), '
             'or one first-action-on-a-new-thread operation')
    v.assumptions = ['preemption at formula begin/end granularity (as the quantifier says), not '
                     'bytecode granularity',
                     'the GIL makes each step between two preemption points atomic']
    return v.finish()
