"""C08 -- trim_graph preserves the outputs as a function of the inputs.

spec/Trim.tla (Engine + Trim(I, O) written like the code) is explored
exhaustively by TLC for every listed (inputs, outputs) choice, before and
after arbitrary evaluate/set_value histories (invariant TrimEquiv: every
output evaluation returns Fresh of the untrimmed sheet).  The trim is an action
of every state before it: right after the load, after evaluations of any nodes
and after assignments -- the outputs and their precedents need not have been
evaluated (the trim itself builds them).  An input is a cell (leaf or buried)
or a range, read as a range by some formula or by none (then it is no node of
the graph).  Every transition is
executed on the real ExcelCompiler; after the trim the same continuation is
also executed on a save/load twin (yml / json / pkl) of the trimmed model.
VERDICT: each output value of the trimmed model and of its reloaded twin
equals what an UNTRIMMED model returns under the same assignments (and a
from-scratch compile).  BINDING: projection incl. the frozen set.
"""
import itertools
import json
import os
import random

from harness import engine, parallel, tlc, workbooks as W, xl
from harness.evidence import Verdict

PID = 'C08'

WORKBOOKS = dict(W.WORKBOOKS)
# a range which no formula reads as a range (its cells are read one by one):
# given as an input of trim_graph it is not in the cell map, unless somebody
# evaluated it before
WORKBOOKS['trimobs'] = dict(
    inputs={'A1': 1, 'B1': 2, 'A2': 5},
    formulas={'C1': ('Plus', ['A1'], 1), 'D1': ('Plus', ['C1', 'B1'], 0),
              'C2': ('Plus', ['A2'], 1), 'D2': ('Plus', ['D1', 'C2'], 0)},
    ranges={'A1:B1': [['A1', 'B1']]})


class TrimModel(engine.RealModel):
    """real model + untrimmed twin + (after the trim) a save/load twin"""

    def __init__(self, wb, src, workdir, ft, desc=False):
        super().__init__(wb, src, workdir)
        self.desc = desc                  # order in which the inputs are listed
        self.twin = engine.RealModel(wb, src, workdir).m      # never trimmed
        self.reloaded = None
        self.ft = ft
        self.workdir = workdir
        self.trimmed = False

    def project(self):
        p = super().project()
        pre = W.SHEET + '!'
        forms = set(W.nodes(self.wb)['formulas'])
        p['frozen'] = sorted(a[len(pre):] for a, c in self.m.cell_map.items()
                             if a[len(pre):] in forms and c.formula is None)
        p['trimmed'] = self.trimmed
        return p

    def do(self, act, variant='str'):
        from pycel import ExcelCompiler
        try:
            if act['op'] == 'trim':
                # nothing is evaluated on behalf of the trim: the model is
                # trimmed in the state the history left it in (the untrimmed twin,
                # the oracle, builds the outputs too: it takes the same assignments)
                for o in sorted(act['o']):
                    self.twin.evaluate(W.addr(o))
                self.m.trim_graph([W.addr(i) for i in sorted(act['i'], reverse=self.desc)],
                                  [W.addr(o) for o in sorted(act['o'])])
                self.trimmed = True
                base = os.path.join(tlc.new_scratch('tw'), 'trimmed_model_x')
                self.m.to_file(base, file_types=(self.ft,))
                self.reloaded = ExcelCompiler.from_file(base + '.' + self.ft)
                return 'ok', None
            if act['op'] == 'evaluate':
                a = W.addr(act['n'])
                got = self.m.evaluate(a)
                self.others = dict(untrimmed=self.twin.evaluate(a))
                if self.reloaded is not None:
                    self.others['reloaded'] = self.reloaded.evaluate(a)
                return 'ok', got
            if act['op'] == 'set_value':
                val = W.py_val(act['v'])
                failed = None
                for m in (self.twin, self.m, self.reloaded):
                    if m is not None:
                        try:          # every model gets the assignment, whatever the others do
                            self.set_on(m, act['n'], val, variant)
                        except Exception as exc:          # noqa
                            failed = failed or exc
                if failed is not None:
                    raise failed
                return 'ok', None
        except Exception as exc:          # noqa
            return 'exc', f'{type(exc).__name__}: {exc}'
        raise ValueError(act)

    def set_on(self, m, node, val, variant):
        if variant == 'range':
            # assign through an input range containing the cell (the range
            # itself need not be in the cell map)
            for r, rows in self.wb.get('ranges', {}).items():
                flat = [c for row in rows for c in row]
                if node in flat and all(
                        c in self.wb['inputs'] and W.addr(c) in m.cell_map for c in flat):
                    cur = [[val if c == node else m.cell_map[W.addr(c)].value
                            for c in row] for row in rows]
                    if all(x is not None for row in cur for x in row):
                        m.set_value(W.addr(r), cur)
                        return
        m.set_value(W.addr(node), val)


def state_matches_t(spec_state, proj):
    diffs = engine.state_matches(spec_state, proj)
    if sorted(spec_state['frozen']) != proj['frozen']:
        diffs.append(('frozen', sorted(spec_state['frozen']), proj['frozen']))
    return diffs


def trim_choices(wb, rnd, limit):
    n = W.nodes(wb)
    plain = [r for r in n['ranges'] if r in wb.get('ranges', {})]
    cand_i = n['inputs'] + plain + n['formulas'][:1]
    cand_o = n['formulas']
    ins = [list(c) for k in (1, 2) for c in itertools.combinations(cand_i, k)]
    outs = [list(c) for k in (1, 2) for c in itertools.combinations(cand_o, k)]
    allc = [(i, o) for i in ins for o in outs]
    rnd.shuffle(allc)
    # choices that every run must contain: unbounded ranges below an output,
    must = [c for c in allc if wb.get('aliases') and len(c[0]) == 1 and len(c[1]) == 1][:3]
    # a cell listed next to a range which contains it (both orders are used, see desc),
    flat = {r: [c for row in wb['ranges'][r] for c in row] for r in plain}
    last = n['formulas'][-1:]
    must += [c for c in allc if len(c[0]) == 2 and c[1] == last and any(
        r in c[0] and set(c[0]) - {r} <= set(flat[r]) for r in plain)][:3]
    # an input which is blank when the model is trimmed, an array formula member
    must += [c for c in allc if len(c[0]) == 1 and c[1] == last and (
        wb['inputs'].get(c[0][0], 0) is None or
        any(c[0][0] in row for r in wb.get('cse', {}) for row in W.cse_members(r)))][:2]
    # a range which no formula reads as a range: not a node unless it was evaluated
    read = {d[1] for d in wb['formulas'].values() if d[0] in ('SumR', 'Idx')} | \
        {s for s, _ in wb.get('cse', {}).values()} | set(wb.get('aliases', {}).values())
    unread = [r for r in plain if r not in read]
    must += [c for c in allc if len(c[0]) == 1 and c[0][0] in unread][:3]
    must += [c for c in allc if len(c[0]) == 2 and set(c[0]) & set(unread)][:2]
    # two outputs one of which feeds the other, below an input cell
    def direct(f):
        d = wb['formulas'].get(f)
        if d is None:
            return set()
        if d[0] in ('Plus', 'Lin'):
            return set(d[1])
        if d[0] in ('Cat', 'CatE'):
            return {d[1]}
        return {c for row in wb.get('ranges', {}).get(d[1], []) for c in row}

    def above(f, seen=None):
        seen = set() if seen is None else seen
        for p_ in direct(f):
            if p_ not in seen:
                seen.add(p_)
                above(p_, seen)
        return seen
    anc = {f: above(f) for f in n['formulas']}
    def between(lo, hi):        # a formula cell on a path from output lo up to output hi
        return any(lo in anc[x] and x in anc[hi] for x in n['formulas'] if x not in (lo, hi))
    must += [c for c in allc if len(c[0]) == 1 and c[0][0] in n['inputs'] and len(c[1]) == 2
             and (between(c[1][0], c[1][1]) or between(c[1][1], c[1][0]))
             and c[0][0] in anc[c[1][0]] and c[0][0] in anc[c[1][1]]][:1]
    must = [c for k, c in enumerate(must) if c not in must[:k]]
    return must + [c for c in allc if c not in must][:max(0, limit - len(must))], len(allc)


def job(arg):
    name, src, ft, nchoices, seed = arg
    desc = bool(seed % 2)
    rnd = random.Random(seed)
    wb = WORKBOOKS[name]
    choices, total = trim_choices(wb, rnd, nchoices)
    oracle = engine.Oracle(wb)
    g = engine.gen_trim_graph(name, wb, [2], src, choices,
                              settable=sorted(wb['inputs'])[:2])
    trims = sum(1 for edges in g.out.values() for e in edges if e[0]['op'] == 'trim')
    out = dict(name=name, src=src, tlc=dict(
        run=f'Trim {name}/{src} choices={len(choices)}/{total}', distinct=g.tlc.distinct,
        generated=g.tlc.generated, depth=g.tlc.depth, wall_s=round(g.tlc.wall, 2)),
        violations=[], notes=[], cases=0, keys=set(), restarts=0, trim_edges=trims,
        sample=dict(workbook=name, cells=W.cells(wb)[0], choices=choices[:3]))
    if trims == 0:
        raise tlc.MachineryFailure(f'vacuous: no Trim transition in {name}/{src}')
    workdir = tlc.new_scratch('wb')
    drift = []

    def make_model():
        return TrimModel(wb, src, workdir, ft, desc)

    def on_step(model, s, act, spec_ret, t, hist):
        out['cases'] += 1
        out['keys'].add(hash((s, json.dumps(act, sort_keys=True))))
        variant = 'range' if act['op'] == 'set_value' and rnd.random() < 0.3 else 'str'
        status, got = model.do(act, variant=variant)
        case = dict(workbook=name, source=src, file_type=ft, cells=W.cells(wb)[0],
                    inputs_listed='descending' if desc else 'ascending', history=list(hist))
        if status == 'exc':
            out['violations'].append((f'{act} raised {got} [{name}/{src}]', case))
            return
        if act['op'] == 'evaluate':
            inputs = {a: W.py_val(x) for a, x in g.states[t]['inp'].items()}
            st, fresh = oracle.values(inputs)[act['n']]
            for who, val in [('trimmed' if model.trimmed else 'untrimmed', got)] + \
                    sorted(model.others.items()):
                if who == 'untrimmed':
                    continue
                want = model.others['untrimmed']
                if not xl.same_value(val, want):
                    out['violations'].append((
                        f'evaluate({act["n"]}) on the {who} model returned {val!r}; the '
                        f'untrimmed model returns {want!r} (from-scratch {fresh!r}) '
                        f'[{name}/{src}/{ft}]', case))
            if not xl.same_value(model.others['untrimmed'], fresh) and len(out['notes']) < 2:
                out['notes'].append(f'untrimmed twin differs from a from-scratch compile '
                                    f'({model.others["untrimmed"]!r} vs {fresh!r}) after {hist[-8:]}')
        if not drift:
            diffs = state_matches_t(g.states[t], model.project())
            if diffs:
                drift.append(1)
                out['notes'].append(f'spec-drift on {name}/{src} after {hist[-3:]}: {diffs[:2]}')

    steps, restarts, covered = engine.tour(g, make_model, on_step, rnd=rnd)
    out['restarts'] = restarts + 1
    out['tour'] = dict(workbook=name, source=src, file_type=ft, states=len(g.states),
                       edges=g.n_edges, trim_edges=trims, covered=covered, steps=steps,
                       restarts=restarts, spec_drift=bool(drift))
    out['keys'] = len(out['keys'])
    out['violations'] = out['violations'][:5]
    return out


def run(tier, seed):
    v = Verdict(PID, tier, seed)
    jobs = []
    if tier == 'quick':
        # (TLC needs about 10 ms per transition of Trim.tla: two (inputs,
        # outputs) choices per graph keep the quick tier near two minutes)
        for i, (name, src) in enumerate([('trimex', 'NoData'), ('trimex', 'Stored'),
                                         ('nested', 'NoData'), ('range', 'Stored'),
                                         ('grid', 'NoData'), ('alias', 'NoData'),
                                         ('blankin', 'NoData'), ('cse', 'NoData')]):
            jobs.append((name, src, ('yml', 'json', 'pkl')[i % 3], 2, seed + i))
    else:
        k = 0
        for name in ('trimex', 'nested', 'range', 'grid', 'alias', 'chain', 'cse', 'blankin'):
            for src in ('NoData', 'Stored'):
                for rep in range(2):
                    jobs.append((name, src, ('yml', 'json', 'pkl')[k % 3], 40, seed + k))
                    k += 1
    results = parallel.run_jobs(job, jobs)
    for r in results:
        v.tlc_runs.append(r['tlc'])
        v.states += r['tlc']['distinct']
        v.transitions += r['tlc']['generated']
        v.evaluations += r['cases']
        v.distinct.update((r['name'], r['src'], r['tlc']['run'], i) for i in range(r['keys']))
        v.traces += r['restarts']
        v.extra.setdefault('tours', []).append(r['tour'])
        for n in r['notes']:
            v.note(n)
        for desc, case in r['violations']:
            v.violation(desc, case)
        v.sample(r['sample'], limit=3)
    v.extra.update(
        exhaustive=False,
        rule='one case = one transition (state, action) of the TLC graph of Trim.tla executed '
             'on the real model, its untrimmed twin and (after the trim) its save/load twin; '
             '(inputs, outputs) choices: sampled subsets with |I|,|O| <= 2 incl. range inputs '
             'and one buried formula input; outputs are evaluated before the trim')
    v.assumptions = ['only leaf input cells (or cells of input ranges) are assigned after the trim',
                     'oracle = the untrimmed real model under the same assignments']
    return v.finish()
