"""C09 -- a failed evaluation does not corrupt the model.

spec/EngineFail.tla (Engine + broken cells, overwritten cells, sequential
depth-first evaluation with failure) is explored exhaustively by TLC:
ReturnsTrue (whatever an evaluate returns is the true value), RaiseJustified,
CoherentF (nothing stale is cached by a failing call), UnrelatedOK.  Every
transition is executed on the real code, in plain mode with state projection
and -- the same histories -- in iterative mode judged by observables.
Failing cells: an unknown function or a raising plugin from the start
(static), or a plugin switched by Break/Heal between calls (dynamic: "raises
on its k-th call").  VERDICT per call: a cell that does not depend on a
broken cell returns the value of a fresh model (overwritten cells as
constants); a dependant either raises one of pycel's own exceptions (always,
when nothing can legitimately be cached) or returns that same true value;
never another exception class, never another value; after every call the
error-message list is empty, the array-context stack is at its base and no
cell is left work-in-progress.
"""
import json
import random

from harness import engine, parallel, tlc, workbooks as W, xl
from harness.evidence import Verdict

PID = 'C09'
CYCLES = dict(iterations=20, tolerance=0.001)
FINDING_ITER_OVERRIDE = 'D29'


def find_error_messages(fn, depth=0, seen=None):
    """the error_messages list of build_eval_context, reached through closures"""
    seen = seen if seen is not None else set()
    if fn is None or id(fn) in seen or depth > 6 or not hasattr(fn, '__closure__'):
        return None
    seen.add(id(fn))
    for name, cell in zip(fn.__code__.co_freevars, fn.__closure__ or ()):
        try:
            val = cell.cell_contents
        except ValueError:
            continue
        if name == 'error_messages' and isinstance(val, list):
            return val
        if callable(val):
            r = find_error_messages(val, depth + 1, seen)
            if r is not None:
                return r
    return None


class FailModel(engine.RealModel):
    def __init__(self, wb, src, workdir, breakable, init_broken, dynamic, cycles, tag, variant=0):
        from harness import plugin_fail
        from pycel import ExcelCompiler
        import os
        self.wb, self.src = wb, src
        self.plugin = plugin_fail
        plugin_fail.BROKEN.clear()
        self.dynamic = dynamic
        cells, arrays = W.cells(wb)
        for i, b in enumerate(sorted(breakable)):
            if dynamic:
                cells[b] = f'=VSWITCH("{b}",{cells[b][1:]})'
            elif b in init_broken and variant == 3:
                # a reference into a linked workbook: fails while the graph is built
                cells[b] = f"='[1]Sheet1'!A1+({cells[b][1:]})"
            elif b in init_broken and variant == 4:
                # a 3-D reference: the formula itself cannot be compiled, which fails
                # while the graph is built, before any of its precedents is looked at
                cells[b] = f"=SUM(Sheet1:Sheet3!A1)+({cells[b][1:]})"
            elif b in init_broken and variant == 5:
                # the value of the formula is a reference which cannot be resolved
                # (a sheet which does not exist): fails after the formula returned
                cells[b] = '=INDIRECT("Nope!"&"A1")'
            elif b in init_broken:
                fn = ('NOSUCHFN', 'VFAIL', 'VRECURSE')[(i + variant) % 3]
                cells[b] = f'={fn}({cells[b][1:]})'
        self.cells, self.arrays = cells, arrays
        if dynamic:
            plugin_fail.BROKEN.update(init_broken)
        plugins = ('harness.plugin_fail',)
        if src == 'NoData':
            self.m = xl.compile_wb(cells, arrays=arrays, plugins=plugins, cycles=cycles)
        elif src == 'Loaded':
            # a model which was saved and read back: it holds python code only
            path = os.path.join(workdir, f'loaded_{tag}.yml')
            if not os.path.exists(path):
                m0 = xl.compile_wb(cells, arrays=arrays, plugins=plugins, cycles=cycles)
                n = W.nodes(wb)
                for node in n['inputs'] + n['formulas'] + n['ranges'] + n['aliases']:
                    try:            # every cell is in the saved model, the
                        m0.evaluate(W.addr(node))    # failing ones included
                    except Exception:       # noqa
                        pass
                m0.to_file(path)
            self.m = ExcelCompiler.from_file(path, plugins=plugins)
        else:
            path = os.path.join(workdir, f'stored_{tag}.xlsx')
            if not os.path.exists(path):
                fresh = engine.Oracle(wb).values(dict(wb['inputs']))
                results = {f: fresh[f][1] for f in W.nodes(wb)['formulas']}
                xl.write_xlsx_with_results(path, cells, results, arrays=arrays)
            self.m = ExcelCompiler(path, plugins=plugins, cycles=cycles)
        self.cycles = cycles

    def transient(self):
        """what must be clean after every call"""
        from pycel.excelutil import in_array_formula_context as ctx
        out = {}
        msgs = find_error_messages(getattr(self.m, '_eval', None))
        if msgs:
            out['error_messages'] = len(msgs)
        if ctx.ns.ctx_addresses != [False]:
            out['array_context_stack'] = list(map(str, ctx.ns.ctx_addresses))
        wip = [a for a, c in self.m.cell_map.items() if getattr(c, 'wip', False)]
        if wip:
            out['wip'] = wip
        if self.m.graph_todos or self.m.range_todos:
            out['todos'] = (len(self.m.graph_todos), len(self.m.range_todos))
        return out

    def do(self, act, variant='str'):
        try:
            if act['op'] == 'evaluate':
                return 'ok', self.m.evaluate(W.addr(act['n']))
            if act['op'] in ('set_value', 'repair') and W.addr(act['n']) not in self.m.cell_map:
                # a formula which cannot be compiled never brought its precedents
                # into the model (the specification builds them): do it now
                self.m.evaluate(W.addr(act['n']))
            if act['op'] == 'set_value':
                self.m.set_value(W.addr(act['n']), W.py_val(act['v']))
            elif act['op'] == 'repair':
                self.m.set_value(W.addr(act['n']), W.py_val(act['v']))
            elif act['op'] == 'break':
                self.plugin.BROKEN.add(act['n'])
            elif act['op'] == 'heal':
                self.plugin.BROKEN.discard(act['n'])
            else:
                raise ValueError(act)
            return 'ok', None
        except Exception as exc:          # noqa
            return 'raise', exc


def true_values(wb, inputs, ovr, memo):
    """fresh model: overwritten cells are constants, nothing is broken"""
    key = json.dumps([sorted((k, W.js_val(v)) for k, v in inputs.items()),
                      sorted((k, W.js_val(v)) for k, v in ovr.items())])
    if key not in memo:
        cells, arrays = W.cells(wb, inputs)
        for c, v in ovr.items():
            if v is None:
                cells.pop(c, None)
            else:
                cells[c] = v
        m = xl.compile_wb(cells, arrays=arrays)
        n = W.nodes(wb)
        memo[key] = {node: m.evaluate(W.addr(node))
                     for node in n['inputs'] + n['formulas'] + n['ranges'] + n['aliases']}
    return memo[key]


def prec_map(wb):
    prec = {}
    for f, d in wb['formulas'].items():
        prec[f] = set(d[1]) if d[0] in ('Plus', 'Lin') else {d[1]}
    for r, rows in wb.get('ranges', {}).items():
        prec[r] = {c for row in rows for c in row}
    for r, (s, k) in wb.get('cse', {}).items():
        prec[r] = {s}
        for row in W.cse_members(r):
            for c in row:
                prec[c] = {r}
    for a, r in wb.get('aliases', {}).items():
        prec[a] = {r}
    return prec


def reads(prec, n, a):
    """does n (transitively) read a?"""
    return n in prec and (a in prec[n] or any(reads(prec, q, a) for q in prec[n]))


def needs_broken(prec, n, broken, ovr):
    if n in ovr or n not in prec:
        return False
    return n in broken or any(needs_broken(prec, q, broken, ovr) for q in prec[n])


def job(arg):
    name, src, breakable, init_broken, dynamic, mode, pool, settable, depth, seed = arg[:10]
    variant = arg[10] if len(arg) > 10 else 0
    from pycel.excelutil import PyCelException
    rnd = random.Random(seed)
    wb = W.WORKBOOKS[name]
    prec = prec_map(wb)
    early = [] if dynamic else [b for i, b in enumerate(sorted(breakable))
                                if b in init_broken and (i + variant) % 3 == 0]
    g = engine.gen_fail_graph(name, wb, pool, src, breakable, init_broken, dynamic,
                              settable=settable, depth=depth, fail_early=early)
    raises = sum(1 for es in g.out.values() for e in es if e[0].get('raised'))
    repairs = sum(1 for es in g.out.values() for e in es if e[0]['op'] == 'repair')
    if raises == 0 or repairs == 0:
        raise tlc.MachineryFailure(f'vacuous: {raises} raising and {repairs} repair transitions')
    out = dict(name=name, src=src, mode=mode, tlc=dict(
        run=f'EngineFail {name}/{src} broken={init_broken} dynamic={dynamic} ({mode})',
        distinct=g.tlc.distinct, generated=g.tlc.generated, depth=g.tlc.depth,
        wall_s=round(g.tlc.wall, 2)),
        violations=[], known=[], notes=[], cases=0, keys=set(), restarts=0,
        raised_seen=0, repaired_evals=0,
        sample=dict(workbook=name, cells=W.cells(wb)[0], breakable=breakable,
                    init_broken=init_broken, dynamic=dynamic, mode=mode))
    workdir = tlc.new_scratch('wb')
    memo = {}
    drift = []
    cycles = dict(CYCLES) if mode == 'iterative' else None
    tag = f'{name}_{"".join(init_broken)}_{int(dynamic)}'

    def make_model():
        return FailModel(wb, src, workdir, breakable, init_broken, dynamic, cycles, tag + str(variant), variant)

    def on_step(model, s, act, spec_ret, t, hist):
        out['cases'] += 1
        out['keys'].add(hash((s, json.dumps(act, sort_keys=True))))
        st_to = g.states[t]
        status, got = model.do(act)
        case = dict(workbook=name, source=src, mode=mode, cells=model.cells,
                    history=[{k: v for k, v in a.items() if k != 'raised'} for a in hist])
        inputs = {a: W.py_val(x) for a, x in st_to['inp'].items()}
        ovr = {c: W.py_val(x) for c, x in (st_to['ovr'] if isinstance(st_to['ovr'], dict) else {}).items()}
        broken = set(st_to['broken'])
        if act['op'] == 'evaluate':
            n = act['n']
            truth = true_values(wb, inputs, ovr, memo)[n]
            depends = needs_broken(prec, n, broken, ovr)
            if ovr:
                out['repaired_evals'] += 1
            if status == 'raise':
                out['raised_seen'] += 1
                ok_family = isinstance(got, (PyCelException, RecursionError)) or (
                    variant in (3, 4) and isinstance(got, NotImplementedError)) or (
                    variant == 5 and isinstance(got, KeyError))
                if mode == 'iterative' and ovr and not depends and ok_family and \
                        needs_broken(prec, n, broken, {}):
                    # DEV_IterOverrideIgnored: the overwritten cell is recomputed
                    out['known'].append((
                        f'cycles on: set_value({sorted(ovr)}, constant) is ignored, '
                        f'evaluate({n}) still raises', case))
                elif not ok_family:
                    out['violations'].append((
                        f'evaluate({n}) raised {type(got).__name__}: {str(got)[-200:]!r}, not one '
                        f'of pycel\'s own exceptions [{name}/{src}/{mode}]', case))
                elif not depends:
                    out['violations'].append((
                        f'evaluate({n}) raised {type(got).__name__} although {n} does not '
                        f'depend on a failing cell {sorted(broken)} [{name}/{src}/{mode}]', case))
            else:
                if not xl.same_value(got, truth):
                    dev = None
                    if mode == 'iterative' and ovr:
                        try:
                            dev = true_values(wb, inputs, {}, memo)[n]
                        except Exception:      # noqa
                            dev = None
                    if dev is not None and xl.same_value(got, dev) and \
                            not needs_broken(prec, n, broken, {}):
                        out['known'].append((
                            f'cycles on: set_value({sorted(ovr)}, constant) is ignored, '
                            f'evaluate({n}) = {got!r} (formula) instead of {truth!r}', case))
                    else:
                        out['violations'].append((
                            f'evaluate({n}) returned {got!r}; a fresh model (overwritten cells '
                            f'{ovr} as constants) gives {truth!r} [{name}/{src}/{mode}]', case))
                elif depends and src == 'NoData' and (not dynamic or mode == 'iterative'):
                    out['violations'].append((
                        f'evaluate({n}) returned {got!r} although it depends on the failing '
                        f'cell(s) {sorted(broken)}: nothing can be cached here '
                        f'[{name}/{src}/{mode}]', case))
        elif status == 'raise':
            out['violations'].append((f'{act} raised {type(got).__name__}: {got} '
                                      f'[{name}/{src}/{mode}]', case))
        # graph building outside evaluate(): validate_calcs and trim_graph also
        # evaluate ranges while they build; a failure there must leave no trace
        if mode == 'iterative' and act['op'] == 'evaluate' and ':' not in act['n'] \
                and rnd.random() < 0.15:
            import contextlib
            import io
            try:
                with contextlib.redirect_stdout(io.StringIO()):
                    model.m.validate_calcs(output_addrs=[W.addr(act['n'])], verify_tree=False)
            except Exception as exc:          # noqa
                out['violations'].append((
                    f'validate_calcs([{act["n"]}]) raised {type(exc).__name__}: {exc} '
                    f'[{name}/{src}/{mode}]', case))
            out['side_calls'] = out.get('side_calls', 0) + 1
        if mode == 'plain' and dynamic and rnd.random() < (0.15 if len(g.states) < 400 else 0.04) and \
                [b for b in broken if b not in ovr and W.addr(b) in model.m.cell_map]:
            # side experiment on a copy of the model: validate_calcs of a cell which
            # fails right now (the failure is collected in the report), then the cell
            # heals, an input changes and every cell is evaluated: no stale value
            import contextlib
            import io
            b = rnd.choice(sorted(b for b in broken if b not in ovr
                                  and W.addr(b) in model.m.cell_map))
            saved = set(model.plugin.BROKEN)
            try:
                clone = make_model()
                for a in hist:
                    clone.do(a)
                try:
                    with contextlib.redirect_stdout(io.StringIO()):
                        clone.m.validate_calcs(output_addrs=[W.addr(b)], verify_tree=False)
                except Exception as exc:          # noqa
                    out['violations'].append((
                        f'validate_calcs([{b}]) raised {type(exc).__name__}: {exc} '
                        f'[{name}/{src}/{mode}]', case))
                clone.plugin.BROKEN.discard(b)
                still = broken - {b}
                a_in = sorted(settable or wb['inputs'])[0]
                new_val = 7 if inputs.get(a_in) != 7 else 8
                # (an overwritten cell keeps its formula: changing one of its
                # precedents would bring the formula back -- Repair guard of the model)
                if W.addr(a_in) in clone.m.cell_map and not any(reads(prec, c, a_in) for c in ovr):
                    clone.m.set_value(W.addr(a_in), new_val)
                    inputs2 = dict(inputs, **{a_in: new_val})
                else:
                    inputs2 = dict(inputs)
                truth2 = true_values(wb, inputs2, ovr, memo)
                n_all = W.nodes(wb)
                for node in n_all['formulas'] + n_all['ranges'] + n_all['aliases']:
                    if needs_broken(prec, node, still, ovr):
                        continue
                    st2, got2 = clone.do(dict(op='evaluate', n=node))
                    if st2 == 'raise' or not xl.same_value(got2, truth2[node]):
                        shown = f'raised {type(got2).__name__}' if st2 == 'raise' else repr(got2)
                        out['violations'].append((
                            f'validate_calcs([{b}]) while {b} fails, then {b} heals and '
                            f'set_value({a_in}, {new_val}): evaluate({node}) {shown}; a fresh '
                            f'model gives {truth2[node]!r} [{name}/{src}/{mode}]',
                            dict(case, side=['validate_calcs', b, 'heal', b,
                                             'set_value', a_in, new_val, 'evaluate', node])))
                        break
                out['side_calls'] = out.get('side_calls', 0) + 1
            finally:
                model.plugin.BROKEN.clear()
                model.plugin.BROKEN.update(saved)
        if mode == 'iterative' and act['op'] == 'evaluate' and status == 'raise' and \
                src == 'NoData' and rnd.random() < 0.25:
            clone = make_model()
            for a in hist[:-1]:
                clone.do(a)
            try:
                clone.m.trim_graph([W.addr(sorted(wb['inputs'])[0])], [W.addr(act['n'])])
                trimmed = True
            except Exception:                 # noqa
                trimmed = False
            if not trimmed:
                out['side_calls'] = out.get('side_calls', 0) + 1
                st2, got2 = clone.do(act)
                if st2 != 'raise':
                    out['violations'].append((
                        f'after a failing trim_graph, evaluate({act["n"]}) returned {got2!r} '
                        f'instead of raising (it depends on {sorted(broken)}) '
                        f'[{name}/{src}/{mode}]', case))
                tr2 = clone.transient()
                tr2.pop('error_messages', None)
                if tr2:
                    out['violations'].append((
                        f'after a failing trim_graph transient state is not clean: {tr2} '
                        f'[{name}/{src}/{mode}]', case))
        tr = model.transient()
        if 'error_messages' in tr:
            # stale log messages change what is logged, not what is computed: the
            # statement does not speak about them (only a NOTE; D15 was judged by
            # the bare AssertionError it caused)
            n_msgs = tr.pop('error_messages')
            if not out.get('noted_msgs'):
                out['noted_msgs'] = True
                out['notes'].append(f'{n_msgs} stale captured log message(s) after '
                                    f'{act["op"]}({act.get("n")}) [{name}/{mode}] (not judged)')
        if tr:
            out['violations'].append((
                f'after {act["op"]}({act.get("n")}) transient state is not clean: {tr} '
                f'[{name}/{src}/{mode}]', case))
        if mode == 'plain' and variant not in (3, 4, 5) and not drift:
            proj = model.project()
            # which cells of an abandoned evaluation are "never known" rather than
            # "reset" depends on the path they were built on: not compared
            diffs = engine.state_matches(st_to, proj, one_none=True)
            if act['op'] == 'evaluate' and (status == 'raise') != bool(act.get('raised')):
                diffs.append(('raised', act.get('raised'), status))
            if diffs:
                drift.append(1)
                out['notes'].append(f'spec-drift on {name}/{src} after '
                                    f'{[a["op"] + ":" + str(a.get("n")) + ":" + str(a.get("v", "")) for a in hist]}: {diffs[:2]}')

    # a failure while trim_graph builds the graph of a not yet compiled cell
    if src == 'NoData' and init_broken:
        n_all = W.nodes(wb)
        for node in n_all['formulas']:
            if not needs_broken(prec, node, set(init_broken), {}):
                continue
            clone = make_model()
            case = dict(workbook=name, source=src, mode=mode, cells=clone.cells,
                        history=[dict(op='trim_graph', i=sorted(wb['inputs'])[:1], o=[node])])
            try:
                clone.m.trim_graph([W.addr(sorted(wb['inputs'])[0])], [W.addr(node)])
                continue                      # nothing was evaluated while building
            except Exception:                 # noqa
                pass
            out['side_calls'] = out.get('side_calls', 0) + 1
            st2, got2 = clone.do(dict(op='evaluate', n=node))
            if st2 != 'raise':
                out['violations'].append((
                    f'after a failing trim_graph on a fresh model, evaluate({node}) returned '
                    f'{got2!r} instead of raising (it depends on {init_broken}) '
                    f'[{name}/{src}/{mode}]', case))
            elif not isinstance(got2, (PyCelException, RecursionError)) and not (
                    variant in (3, 4) and isinstance(got2, NotImplementedError)) and not (
                    variant == 5 and isinstance(got2, KeyError)):
                out['violations'].append((
                    f'after a failing trim_graph, evaluate({node}) raised '
                    f'{type(got2).__name__} [{name}/{src}/{mode}]', case))
            tr2 = clone.transient()
            tr2.pop('error_messages', None)
            if tr2:
                out['violations'].append((
                    f'after a failing trim_graph transient state is not clean: {tr2} '
                    f'[{name}/{src}/{mode}]', case))

    steps, restarts, covered = engine.tour(g, make_model, on_step, rnd=rnd)
    out['restarts'] = restarts + 1
    out['tour'] = dict(workbook=name, source=src, mode=mode, dynamic=dynamic,
                       init_broken=init_broken, states=len(g.states), edges=g.n_edges,
                       raising_edges=raises, repair_edges=repairs, covered=covered,
                       steps=steps, restarts=restarts, raised_seen=out['raised_seen'],
                       evaluates_after_repair=out['repaired_evals'], spec_drift=bool(drift))
    out['keys'] = len(out['keys'])
    out['violations'] = out['violations'][:5]
    out['known'] = out['known'][:3] + [None] * 0
    return out


def run(tier, seed):
    v = Verdict(PID, tier, seed)
    P = [2]
    if tier == 'quick':
        jobs = [
            ('capture', 'NoData', ['B1'], ['B1'], False, 'plain', P, ['A2'], 0, seed, 0),
            ('capture', 'NoData', ['B1'], ['B1'], False, 'iterative', P, ['A2'], 0, seed, 1),
            ('capture', 'NoData', ['B1'], ['B1'], False, 'iterative', P, ['A2'], 0, seed, 2),
            ('chain', 'NoData', ['C1'], ['C1'], False, 'plain', P, ['A1'], 0, seed, 2),
            ('nested', 'NoData', ['B1', 'B2'], [], True, 'plain', P, ['A1'], 0, seed),
            ('nested', 'Stored', ['B2'], ['B2'], False, 'plain', P, ['A1'], 0, seed),
            ('chain', 'NoData', ['B1'], [], True, 'iterative', P, ['A1'], 0, seed),
            ('chain', 'NoData', ['B1'], [], True, 'plain', P, ['A1'], 0, seed),
            ('cse', 'NoData', ['E1'], ['E1'], False, 'plain', P, ['A1'], 0, seed),
            ('range', 'NoData', ['B1'], ['B1'], False, 'iterative', P, ['A1'], 0, seed, 2),
            ('nested', 'NoData', ['B1'], ['B1'], False, 'iterative', P, ['A1'], 0, seed, 1),
            ('aliasf', 'NoData', ['A2'], ['A2'], False, 'iterative', P, ['A1'], 0, seed, 1),
            ('aliasf', 'NoData', ['A2'], [], True, 'iterative', P, ['A1'], 0, seed, 0),
            ('aliasf', 'NoData', ['A2'], ['A2'], False, 'plain', P, ['A1'], 0, seed, 0),
            ('trimex', 'NoData', ['C2'], ['C2'], False, 'plain', P, ['A1'], 0, seed, 3),
            ('nested', 'NoData', ['B2'], ['B2'], False, 'plain', P, ['A1'], 0, seed, 3),
            ('capture', 'NoData', ['B1'], ['B1'], False, 'plain', P, ['A2'], 0, seed, 4),
            ('trimex', 'NoData', ['C2'], ['C2'], False, 'plain', P, ['A1'], 0, seed, 4),
            # a model read back from a file, a plugin function which raises
            ('capture', 'Loaded', ['B1'], ['B1'], False, 'plain', P, ['A2'], 0, seed, 1),
            ('chain', 'Loaded', ['B1'], [], True, 'plain', P, ['A1'], 0, seed),
            # the reference a formula returns cannot be resolved
            ('chain', 'NoData', ['B1'], ['B1'], False, 'iterative', P, ['A1'], 0, seed, 5),
            ('nested', 'NoData', ['B2'], ['B2'], False, 'plain', P, ['A1'], 0, seed, 5),
            # stored results, the build of the graph fails: bystander ranges
            ('trimex', 'Stored', ['C2'], ['C2'], False, 'plain', P, ['A1'], 0, seed, 4),
        ]
    else:
        jobs = []
        for name in ('capture', 'nested', 'chain', 'range', 'grid', 'trimex', 'alias', 'cse', 'aliasf'):
            forms = sorted(W.WORKBOOKS[name]['formulas'])
            ins = sorted(W.WORKBOOKS[name]['inputs'])[:1]
            for f in forms:
                for mode in ('plain', 'iterative'):
                    for variant in (0, 1, 2, 3, 4, 5):
                        jobs.append((name, 'NoData', [f], [f], False, mode, P, ins, 0, seed, variant))
            jobs.append((name, 'NoData', forms[:2], [], True, 'plain', P, ins, 0, seed))
            jobs.append((name, 'NoData', forms[:2], [], True, 'iterative', P, ins, 0, seed))
            jobs.append((name, 'Stored', forms[:1], forms[:1], False, 'plain', P, ins, 0, seed))
    results = parallel.run_jobs(job, jobs)
    for r in results:
        v.tlc_runs.append(r['tlc'])
        v.states += r['tlc']['distinct']
        v.transitions += r['tlc']['generated']
        v.evaluations += r['cases']
        v.distinct.update((r['tlc']['run'], i) for i in range(r['keys']))
        v.traces += r['restarts']
        v.extra.setdefault('tours', []).append(r['tour'])
        for n in r['notes']:
            v.note(n)
        for desc, case in r['violations']:
            v.violation(desc, case)
        for desc, case in r['known']:
            v.known_finding(FINDING_ITER_OVERRIDE, desc, case)
        v.sample(r['sample'], limit=3)
    v.extra.update(
        exhaustive=True, level_used='fault_enumeration over the TLC graph',
        rule='one case = one transition (state, action) of the TLC graph of EngineFail.tla '
             'executed on the real model; every formula cell of the listed workbooks is made to '
             'fail in turn (thorough), statically (unknown function / raising plugin) or '
             'dynamically (switchable plugin), in plain and iterative mode')
    v.assumptions = ['error_messages is reached through the closure of ExcelCompiler._eval',
                     'iterative mode is judged by observables only (no projection)']
    return v.finish()
