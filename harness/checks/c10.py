"""C10 -- operators are total and follow Excel's coercion/error/ordering rules.

Spec: spec/ExcelValues.tla (value universe, coercions, every operator as a
total function), spec/Operators.tla (enumerator over Ops x Pool x Pool and,
in the thorough tier, Pool^3; laws Total, Closed, ErrLeftFirst, DivZero,
Coercion, WordIsText, BeyondIsText, Overflow, Trichotomy, TypeOrder, CaseBlind,
ConcatRender, Algebra, Transitive checked by TLC on the definitions).
Binding: every state visited by TLC is exported (operands + defined result)
and evaluated on the real code three ways: directly through the function
returned by build_operator_operand_fixup, with the operands in cells
(=A1 op B1) and with the operands as literals in the formula (in their plain
spelling and in the other spellings Excel reads as the same value: numerals
with leading zeros, logicals in lower case); the result must be the defined
value, type-exact.  A result marked <<"U", kind>> by the spec (outside the
exactly-modelled fragment) is only checked for totality and counted.
The pool holds text that spells a logical ("TRUE", "true", "False", " FALSE";
the sampled pool: both words in random case, with and without spaces around):
text to every operator, so #VALUE! to arithmetic (Operators!ArithS, law
WordIsText), while the logical TRUE counts as 1.
The pool holds numerals far from 1 as text ("1e300", "-2.5E+300", "1e-300",
"1e400"; the sampled pool: random mantissas with exponents up to 999).  A
number is a double: text that spells a numeral no double can hold is other
text (#VALUE! to arithmetic, Operators!BeyondIsText), and arithmetic whose
exact result lies at 1E309 or beyond is #NUM! (Operators!BigArith, law
Overflow); an infinity, a not-a-number or a Python int of hundreds of digits
is not a number of the universe anywhere.  Number operands stay of moderate
magnitude, as the statement says; the large magnitudes come in as text only.
The pool holds text with digits which are not ASCII digits (ARABIC-INDIC DIGIT
THREE, "1" + SUPERSCRIPT TWO, two FULLWIDTH digits; the sampled pool: random
ones from seven Unicode digit blocks, alone and mixed with ASCII): other text,
#VALUE! to arithmetic, unchanged by &, text to the comparisons
(Operators!ForeignIsText).  Python's int(), float() and str.isdigit() accept
many of them.
The pool holds text spelled like an error value ("#REF!", "#N/A", "#EMPTY!"):
text to Excel, the error value to pycel (one representation).  The spec
exports, next to the defined result, the result under that reading
(Operators!DevResult); a discrepancy that equals it is attributed to the known
finding C10_r3_2, any other one is a violation.
"""
import json
import math
import os
import random
from fractions import Fraction

from harness import tlc, xl
from harness.evidence import Verdict

PID = 'C10'
# proposed known finding: pycel represents an error value by the text of its
# code (and the empty operand by the text #EMPTY!), so a text operand spelled
# like that is taken for the error value (for blank)
FINDING_ERROR_TEXT = 'C10_r3_2'
OPNAME = {'+': 'Add', '-': 'Sub', '*': 'Mult', '/': 'Div', '^': 'Pow',
          '&': 'BitAnd', '=': 'Eq', '<>': 'NotEq', '<': 'Lt', '<=': 'LtE',
          '>': 'Gt', '>=': 'GtE'}
CMPSEQ = ['=', '<>', '<', '<=', '>', '>=']
ERRORS = ['#NULL!', '#DIV/0!', '#VALUE!', '#REF!', '#NAME?', '#NUM!', '#N/A']
CHUNK = 400
MAXF = 1.7976931348623157e308


# ---------------------------------------------------------------------------
# abstract value (JSON of the TLA+ tagged tuple)  ->  concrete Python values

def text_of(val):
    return ''.join(chr(c) for c in val[1])


def frac_of(val):
    return Fraction(val[1], val[2])


def dec_str(fr):
    """exact decimal spelling of a rational with a terminating expansion"""
    n, d = fr.numerator, fr.denominator
    if d == 1:
        return str(n)
    k = 0
    while (10 ** k) % d:
        k += 1
        if k > 30:
            raise ValueError(f'no finite decimal for {fr}')
    m = abs(n) * (10 ** k // d)
    s = str(m).rjust(k + 1, '0')
    return ('-' if n < 0 else '') + s[:-k] + '.' + s[-k:]


def py_variants(val):
    """the Python objects that stand for the abstract value (direct mode)"""
    t = val[0]
    if t == 'Z':
        return [None]
    if t == 'N':
        fr = frac_of(val)
        if fr.denominator == 1:
            return [int(fr), float(fr)]
        return [float(dec_str(fr))]
    if t == 'B':
        return [bool(val[1])]
    if t == 'S':
        return [text_of(val)]
    if t == 'E':
        return [val[1]]
    raise ValueError(val)


def cell_content(val):
    """what is written into an operand cell"""
    t = val[0]
    if t == 'S' and not val[1]:
        return '=""'                  # a cell cannot hold "" as a constant
    if t == 'N':
        fr = frac_of(val)
        if fr.denominator == 1:
            n = int(fr)
            return float(n) if n % 3 == 0 and n else n   # 3.0, not 3
        return float(dec_str(fr))
    return py_variants(val)[0]


def literal(val, alt=False):
    """spelling of the value as a literal inside a formula (None: has none).
    alt: the other spellings Excel reads as the same value: a numeral with
    leading zeros (03.0, 00.5, -01), a logical in lower case"""
    t = val[0]
    if t == 'Z':
        return None
    if t == 'N':
        fr = frac_of(val)
        s = dec_str(fr)
        if fr.denominator == 1 and fr.numerator % 3 == 0 and fr.numerator:
            s += '.0'
        if alt:
            s = s.replace('-', '-0') if s.startswith('-') else '0' + s
        return s
    if t == 'B':
        s = 'TRUE' if val[1] else 'FALSE'
        return s.lower() if alt else s
    if t == 'S':
        return '"' + text_of(val).replace('"', '""') + '"'
    if t == 'E':
        return val[1]
    raise ValueError(val)


# ---------------------------------------------------------------------------
# judging a result against the defined value

def is_universe_number(x):
    import numpy as np
    if isinstance(x, (bool, np.bool_)):
        return False
    if isinstance(x, (int, np.integer)):
        return abs(int(x)) <= MAXF
    if isinstance(x, (float, np.floating)):
        return math.isfinite(x)
    return False


def is_bool(x):
    import numpy as np
    return isinstance(x, (bool, np.bool_))


def brief(x, limit=80):
    """repr that survives integers of thousands of digits"""
    if isinstance(x, int) and not isinstance(x, bool) and abs(x) >= 10 ** 40:
        return f'<int of {x.bit_length()} bits>'
    try:
        return repr(x)[:limit]
    except Exception as exc:     # noqa
        return f'<{type(x).__name__}: repr failed: {exc}>'


def mismatch(got, want, scale=0):
    """None if got is the defined value `want`, else a short reason.
    scale: largest magnitude met while computing want (C02: the rounding
    error of a float evaluation is relative to it, not to the result)"""
    if isinstance(got, BaseException):
        return f'raised {type(got).__name__}: {str(got)[:120]}'
    t = want[0]
    if t == 'N':
        if not is_universe_number(got):
            return f'not a number of the universe: {type(got).__name__} {brief(got, 60)}'
        exp = frac_of(want)
        g = Fraction(got)
        if g == exp or abs(g - exp) <= Fraction(1, 10 ** 12) * max(abs(exp), scale):
            return None
        return f'number {brief(got)} != {float(exp)!r}'
    if t == 'B':
        if not is_bool(got):
            return f'not a logical: {type(got).__name__} {brief(got, 60)}'
        return None if bool(got) == bool(want[1]) else f'{brief(got)} != {bool(want[1])}'
    if t == 'S':
        if not isinstance(got, str):
            return f'not text: {type(got).__name__} {brief(got, 60)}'
        return None if got == text_of(want) else f'text {brief(got)} != {text_of(want)!r}'
    if t == 'E':
        return None if isinstance(got, str) and got == want[1] else \
            f'{brief(got)} ({type(got).__name__}) != {want[1]}'
    if t == 'U':
        kind = want[1]
        if kind == 'num':
            return None if is_universe_number(got) else \
                f'not a number of the universe: {type(got).__name__} {brief(got, 60)}'
        if kind == 'bool':
            return None if is_bool(got) else f'not a logical: {brief(got)}'
        if kind == 'text':
            return None if isinstance(got, str) and got not in ERRORS else f'not text: {brief(got)}'
        if is_universe_number(got) or is_bool(got) or isinstance(got, str):
            return None
        return f'not a value of the universe: {type(got).__name__} {brief(got, 60)}'
    raise ValueError(want)


def show(val):
    t = val[0]
    if t == 'Z':
        return 'blank'
    if t == 'N':
        return dec_str(frac_of(val)) if frac_of(val).denominator in (1, 2, 4, 5, 8, 10, 20, 25, 40, 50, 100, 125, 200, 250, 500, 1000) \
            else f'{val[1]}/{val[2]}'
    if t == 'B':
        return 'TRUE' if val[1] else 'FALSE'
    if t == 'S':
        return json.dumps(text_of(val))
    if t == 'E':
        return val[1]
    return f'<unmodelled:{val[1]}>'


# ---------------------------------------------------------------------------
# formulas

def formula_for(op, x, y):
    if op == 'u-':
        return f'=-{x}'
    if op == '%':
        return f'={x}%'
    return f'={x}{op}{y}'


def direct(fix, op, pa, pb):
    from pycel.excelutil import EMPTY
    try:
        if op == 'u-':
            return fix(EMPTY, 'USub', pa)         # what -x compiles to
        if op == '%':
            return fix(pa, 'Div', 100)            # what x% compiles to
        return fix(pa, OPNAME[op], pb)
    except Exception as exc:       # noqa  "never raises"
        return exc


def evaluate_cells(cells, targets):
    """one workbook, many formula cells; exceptions are results"""
    model = xl.compile_wb(cells)
    out = {}
    for addr in targets:
        try:
            out[addr] = model.evaluate('S!' + addr)
        except Exception as exc:   # noqa
            out[addr] = exc
    return out


# ---------------------------------------------------------------------------
# TLC runs

# the default of one GC thread and several JIT threads per core makes short TLC
# runs three times slower on a busy machine
JVM = {'JAVA_TOOL_OPTIONS': '-XX:ParallelGCThreads=2 -XX:CICompilerCount=2'}


def run_tlc(v, module, cfg, spec_dir, label, library=None, workers=4):
    res = tlc.run(module, cfg, spec_dir=spec_dir, workers=workers, timeout=1500,
                  library=library, heap='4g', env=JVM)
    if not res.ok:
        raise tlc.MachineryFailure(
            f'Operators model ({label}) violates {res.violated}:\n' + res.stdout[-2500:])
    v.add_tlc(res, label)
    vectors = res.json
    if len(vectors) != res.distinct:
        # interleaved PrintT lines: repeat single-threaded
        res = tlc.run(module, cfg, spec_dir=spec_dir, workers=1, timeout=1500,
                      library=library, heap='4g', env=JVM)
        vectors = res.json
        if not res.ok or len(vectors) != res.distinct:
            raise tlc.MachineryFailure(
                f'export incomplete ({label}): {len(vectors)} vectors for '
                f'{res.distinct} states')
    return res, vectors


def check_pair_export(vectors, label):
    """completeness and vacuity of a pair-mode export (replaces -coverage,
    which does not terminate on deeply nested definitions)"""
    ops = sorted({x['op'] for x in vectors})
    avals = {json.dumps(x['a']) for x in vectors}
    n = len(avals)
    nb = sum(1 for o in ops if o not in ('u-', '%'))
    nu = len(ops) - nb
    if len(vectors) != nb * n * n + nu * n:
        raise tlc.MachineryFailure(
            f'{label}: {len(vectors)} vectors, expected {nb}*{n}^2+{nu}*{n}')
    keys = {(x['op'], json.dumps(x['a']), json.dumps(x['b'])) for x in vectors}
    if len(keys) != len(vectors):
        raise tlc.MachineryFailure(f'{label}: duplicate (op, a, b) in the export')
    taken = dict(NextB=sum(1 for x in vectors if x['at'][2] > 1),
                 Init=sum(1 for x in vectors if x['at'][2] == 1))
    if not taken['NextB']:
        raise tlc.MachineryFailure(f'vacuous: action NextB never taken ({label})')
    ante = {}
    for x in vectors:
        for k, b in x['ante'].items():
            ante[k] = ante.get(k, 0) + b
    for k, c in ante.items():
        if c == 0:
            raise tlc.MachineryFailure(f'vacuous: antecedent of law {k} never held ({label})')
    return ops, n, taken, ante


# ---------------------------------------------------------------------------
# binding

class Binder:
    def __init__(self, v, rnd):
        from pycel.excelutil import build_operator_operand_fixup
        self.v, self.rnd = v, rnd
        self.fix = build_operator_operand_fixup(lambda *a: None)
        self.skipped = {'num': 0, 'bool': 0, 'text': 0, 'any': 0}
        self.by_mode = {'direct': 0, 'cells': 0, 'literal': 0, 'closed': 0}

    def judge(self, mode, vec, got, extra):
        v = self.v
        want = vec['r']
        key = (mode, vec['op'], json.dumps(vec['a']), json.dumps(vec['b']),
               extra.get('variant', ''))
        v.case(key)
        self.by_mode[mode] += 1
        why = mismatch(got, want)
        if why:
            opnd = show(vec['a']) if vec['op'] in ('u-', '%') else \
                f"{show(vec['a'])} {vec['op']} {show(vec['b'])}"
            desc = (f"[{mode}] {vec['op']} on {opnd}: defined {show(want)}; {why}"
                    + (f" ({extra['formula']})" if 'formula' in extra else ''))
            case = dict(mode=mode, op=vec['op'], a=vec['a'], b=vec['b'], want=want,
                        got=brief(got, 200), **extra)
            # the known deviation and nothing else: an operand is a text
            # spelled like an error value and the result is exactly what the
            # operator is defined to give on that error value
            dev = vec.get('dev') or None
            if dev and not mismatch(got, dev):
                case['deviant'] = dev
                v.known_finding(FINDING_ERROR_TEXT, desc + f' (= {show(dev)}, the text '
                                'read as an error value)', case)
            else:
                v.violation(desc, case)

    def closed(self, vec, got, variant):
        """Operators!Closed on the code: what an operator returned is again an
        operand of the universe: x = x is TRUE, x <> x is FALSE, exactly one
        of x < 0, x = 0, x > 0 holds and x & "" is text (not so for a
        not-a-number); an error value comes back from all of them."""
        if isinstance(got, BaseException) or (
                isinstance(got, str) and (got in ERRORS or got == '#EMPTY!')
                and vec['r'][0] != 'E'):
            return        # judged already / finding C10_r3_2: text spelled like an error
        fix = self.fix
        seen = [direct(fix, op, got, y) for op, y in
                (('=', got), ('<>', got), ('<', 0), ('=', 0), ('>', 0), ('&', ''))]
        if isinstance(got, str) and got in ERRORS:
            ok = all(isinstance(x, str) and x == got for x in seen)
            want = f'{got} from all'
        else:
            ok = (seen[0] is True and seen[1] is False
                  and all(is_bool(x) for x in seen[2:5]) and sum(map(bool, seen[2:5])) == 1
                  and isinstance(seen[5], str) and seen[5] not in ERRORS)
            want = 'TRUE, FALSE, exactly one TRUE of three, a text'
        self.v.case(('closed', vec['op'], json.dumps(vec['a']), json.dumps(vec['b']), variant))
        self.by_mode['closed'] += 1
        if not ok:
            opnd = show(vec['a']) if vec['op'] in ('u-', '%') else \
                f"{show(vec['a'])} {vec['op']} {show(vec['b'])}"
            self.v.violation(
                f"[direct] x = the result of {opnd}, which is {brief(got)}: x=x, x<>x, x<0, "
                f"x=0, x>0, x&\"\" give {', '.join(brief(x, 40) for x in seen)}; "
                f"defined: {want}",
                dict(mode='closed', op=vec['op'], a=vec['a'], b=vec['b'],
                     got=brief(got, 200), variant=variant))

    def pairs(self, vectors, formula_share=1.0):
        v = self.v
        for vec in vectors:
            if vec['r'][0] == 'U':
                self.skipped[vec['r'][1]] += 1
            v.sample(dict(op=vec['op'], a=show(vec['a']),
                          b=show(vec['b']) if vec['b'] else None, r=show(vec['r'])))
            unary = vec['op'] in ('u-', '%')
            # 1. directly through the fixup function
            pas = py_variants(vec['a'])
            pbs = [None] if unary else py_variants(vec['b'])
            for ia, pa in enumerate(pas):
                for ib, pb in enumerate(pbs):
                    if len(pas) == 2 and len(pbs) == 2 and ia != ib:
                        continue          # (int, int) and (float, float)
                    got = direct(self.fix, vec['op'], pa, pb)
                    variant = f'{type(pa).__name__},{type(pb).__name__}'
                    self.judge('direct', vec, got, dict(variant=variant))
                    self.closed(vec, got, variant)
        # 2./3. through compiled formulas, many per workbook
        todo = vectors if formula_share >= 1.0 else \
            [x for x in vectors if self.rnd.random() < formula_share]
        for start in range(0, len(todo), CHUNK):
            chunk = todo[start:start + CHUNK]
            cells, plan = {}, []
            for r, vec in enumerate(chunk, 1):
                unary = vec['op'] in ('u-', '%')
                ca = cell_content(vec['a'])
                if ca is not None:
                    cells[f'A{r}'] = ca
                if not unary:
                    cb = cell_content(vec['b'])
                    if cb is not None:
                        cells[f'B{r}'] = cb
                f = formula_for(vec['op'], f'A{r}', f'B{r}')
                cells[f'C{r}'] = f
                plan.append((f'C{r}', 'cells', vec, dict(
                    formula=f, cells={k: repr(cells.get(k)) for k in (f'A{r}', f'B{r}')})))
                la = literal(vec['a'])
                lb = 'x' if unary else literal(vec['b'])
                # a negative literal left of ^ is prefix minus under ^: that
                # is precedence (C02), not operator meaning
                if la is None or lb is None or (vec['op'] == '^' and la.startswith('-')):
                    continue
                f = formula_for(vec['op'], la, lb)
                cells[f'D{r}'] = f
                plan.append((f'D{r}', 'literal', vec, dict(formula=f)))
                # the same operands in their other spellings (007, true)
                f2 = formula_for(vec['op'], literal(vec['a'], alt=True),
                                 'x' if unary else literal(vec['b'], alt=True))
                if f2 != f:
                    cells[f'E{r}'] = f2
                    plan.append((f'E{r}', 'literal', vec, dict(formula=f2, variant='alt')))
            got = evaluate_cells(cells, [p[0] for p in plan])
            for addr, mode, vec, extra in plan:
                self.judge(mode, vec, got[addr], extra)

    def neighbours(self, count):
        """Trichotomy / the numeric order of ExcelValues.tla on doubles which are
        too close for the pool (TLC integers are 32 bit): x against the next
        double, against a double 1..4 ulp away and against the result of
        arithmetic that should be x (0.1+0.2 vs 0.3).  The defined result is the
        order of the exact rationals the doubles stand for."""
        v, rnd = self.v, self.rnd
        pairs = [(0.1 + 0.2, 0.3), (1.1 * 3, 3.3), (1 - 0.9, 0.1), (0.7 + 0.1, 0.8),
                 (4.35 * 100, 435.0), (1e16 + 2.0, 1e16), (2.0, 2), (0.0, -0.0), (5e-324, 0.0)]
        texts = [('0.1+0.2', '0.3'), ('1.1*3', '3.3'), ('1-0.9', '0.1'), ('0.7+0.1', '0.8'),
                 ('4.35*100', '435'), ('3*0.1', '0.3'), ('0.3-0.1', '0.2')]
        while len(pairs) < count:
            x = rnd.choice((1, -1)) * rnd.uniform(0.001, 1000.0) * 10 ** rnd.randint(-6, 9)
            y = x
            for _ in range(rnd.randint(1, 4)):
                y = math.nextafter(y, math.inf)
            pairs.append((x, y))
        truth = {'=': lambda c: c == 0, '<>': lambda c: c != 0, '<': lambda c: c < 0,
                 '<=': lambda c: c <= 0, '>': lambda c: c > 0, '>=': lambda c: c >= 0}
        cells, plan = {}, []
        r = 0
        for a, b in pairs + [(b, a) for a, b in pairs]:
            fa, fb = Fraction(a), Fraction(b)
            c = (fa > fb) - (fa < fb)
            r += 1
            cells[f'A{r}'], cells[f'B{r}'] = a, b
            for i, op in enumerate(CMPSEQ):
                want = truth[op](c)
                got = direct(self.fix, op, a, b)
                key = ('neighbours', op, repr(a), repr(b))
                v.case(key + ('direct',))
                if got is not want:
                    v.violation(f'[direct] {a!r} {op} {b!r}: defined {want} (order of the exact '
                                f'values); got {brief(got)}',
                                dict(mode='neighbours-direct', op=op, a=repr(a), b=repr(b)))
                col = 'CDEFGH'[i]
                cells[f'{col}{r}'] = f'=A{r}{op}B{r}'
                plan.append((f'{col}{r}', op, repr(a), repr(b), want, f'=A{r}{op}B{r}'))
        for ta, tb in texts:
            a, b = eval(ta), eval(tb)          # IEEE arithmetic, as the compiled formula does
            fa, fb = Fraction(a), Fraction(b)
            c = (fa > fb) - (fa < fb)
            r += 1
            for i, op in enumerate(CMPSEQ):
                col = 'CDEFGH'[i]
                cells[f'{col}{r}'] = f'=({ta}){op}{tb}'
                plan.append((f'{col}{r}', op, ta, tb, truth[op](c), f'=({ta}){op}{tb}'))
        got = evaluate_cells(cells, [p[0] for p in plan])
        for addr, op, a, b, want, f in plan:
            v.case(('neighbours', op, a, b, 'cells'))
            if got[addr] is not want:
                v.violation(f'[cells] {f} with operands {a} and {b}: defined {want} (order of the '
                            f'exact values); got {brief(got[addr])}',
                            dict(mode='neighbours-cells', op=op, a=a, b=b, formula=f))
        return len(pairs) * 2 + len(texts)

    def triples(self, vectors, formula_budget):
        """(a op b) op c for the six comparison operators + transitivity of
        the code's own <= on non-blank scalars"""
        v = self.v
        fix = self.fix
        nested = 0
        chains = 0
        sample = []
        for vec in vectors:
            a, b, c = (py_variants(vec[k])[0] for k in 'abc')
            for q, op in enumerate(CMPSEQ):
                want = vec['nested'][q]
                inner = direct(fix, op, a, b)
                got = inner if isinstance(inner, BaseException) else direct(fix, op, inner, c)
                v.case(('nested', op, json.dumps(vec['a']), json.dumps(vec['b']),
                        json.dumps(vec['c'])))
                nested += 1
                why = mismatch(got, want)
                if why:
                    self.report3(
                        f"[direct] ({show(vec['a'])} {op} {show(vec['b'])}) {op} "
                        f"{show(vec['c'])}: defined {show(want)}; {why}",
                        dict(mode='nested', op=op, a=vec['a'], b=vec['b'], c=vec['c'],
                             want=want, got=brief(got, 200)), vec, q, got)
            if all(vec[k][0] in 'NSB' for k in 'abc'):
                ab, bc, ac = (direct(fix, '<=', x, y) for x, y in ((a, b), (b, c), (a, c)))
                chains += 1
                if ab is True and bc is True and ac is not True:
                    desc = (f"<= not transitive on the code: {show(vec['a'])} <= "
                            f"{show(vec['b'])} <= {show(vec['c'])} but a <= c gives {brief(ac)}")
                    case = dict(mode='transitive', a=vec['a'], b=vec['b'], c=vec['c'])
                    # the known deviation and nothing else: an operand is a
                    # text spelled like an error value / like #EMPTY! and the
                    # three answers are the defined ones under that reading
                    devle = vec.get('devle') or None
                    if devle and not any(mismatch(g, w) for g, w in zip((ab, bc, ac), devle)):
                        case['deviant'] = devle
                        v.known_finding(FINDING_ERROR_TEXT, desc + ' (the three answers '
                                        'are the defined ones with the text read as blank)', case)
                    else:
                        v.violation(desc, case)
            if self.rnd.random() < formula_budget / max(1, len(vectors)):
                sample.append(vec)
        # nested comparison through cells and formulas
        for start in range(0, len(sample), CHUNK // 2):
            chunk = sample[start:start + CHUNK // 2]
            cells, plan = {}, []
            for r, vec in enumerate(chunk, 1):
                for col, k in zip('ABC', 'abc'):
                    cc = cell_content(vec[k])
                    if cc is not None:
                        cells[f'{col}{r}'] = cc
                for q, op in enumerate(CMPSEQ):
                    col = 'DEFGHI'[q]
                    f = f'=(A{r}{op}B{r}){op}C{r}'
                    cells[f'{col}{r}'] = f
                    plan.append((f'{col}{r}', vec, q, f))
            got = evaluate_cells(cells, [p[0] for p in plan])
            for addr, vec, q, f in plan:
                v.case(('nested-cells', CMPSEQ[q], json.dumps(vec['a']),
                        json.dumps(vec['b']), json.dumps(vec['c'])))
                why = mismatch(got[addr], vec['nested'][q])
                if why:
                    self.report3(
                        f"[cells] {f} with {show(vec['a'])}, {show(vec['b'])}, "
                        f"{show(vec['c'])}: defined {show(vec['nested'][q])}; {why}",
                        dict(mode='nested-cells', formula=f, a=vec['a'], b=vec['b'],
                             c=vec['c'], want=vec['nested'][q], got=brief(got[addr], 200)),
                        vec, q, got[addr])
        return nested, chains, len(sample)

    def report3(self, desc, case, vec, q, got):
        """a discrepancy of a nested comparison: the known deviation when an
        operand is a text spelled like an error value and the result is the
        defined result on that error value, a violation otherwise"""
        dev = vec.get('dev') or None
        if dev and not mismatch(got, dev[q]):
            case['deviant'] = dev[q]
            self.v.known_finding(FINDING_ERROR_TEXT, desc + f' (= {show(dev[q])}, the text '
                                 'read as an error value)', case)
        else:
            self.v.violation(desc, case)


# ---------------------------------------------------------------------------
# sampled pool (thorough tier)

def tla_value(val):
    t = val[0]
    if t == 'Z':
        return 'Blank'
    if t == 'N':
        return f'Num({val[1]}, {val[2]})'
    if t == 'B':
        return 'TRUEV' if val[1] else 'FALSEV'
    if t == 'S':
        return 'Text(<<' + ', '.join(str(c) for c in val[1]) + '>>)'
    if t == 'E':
        return f'Err("{val[1]}")'
    raise ValueError(val)


def sampled_pool(rnd, n_num=12, n_numtext=8, n_miss=5, n_word=6, n_logical=3):
    """numbers of moderate magnitude with a finite decimal spelling, numeric
    text of the strict grammar, near misses, words in mixed case (letters
    that cannot form a month name, AM/PM, TRUE/FALSE), text that spells a
    logical in mixed case (with spaces around it or not), numerals far from 1
    as text (one that squares to more than any number, one tiny, one beyond
    every number, one anywhere up to E999), three texts with digits which
    are not ASCII digits, logicals, blank, two errors"""
    def num():
        kind = rnd.randrange(4)
        if kind == 0:
            n, d = rnd.randint(-20, 20), 1
        elif kind == 1:
            n, d = rnd.randint(-99999, 99999), 1
        else:
            p = rnd.randint(1, 3)
            n, d = rnd.randint(-99999, 99999), 10 ** p
        fr = Fraction(n, d)
        return ['N', fr.numerator, fr.denominator]

    def S(s):
        return ['S', [ord(ch) for ch in s]]

    def numtext():
        s = rnd.choice(['', '+', '-', ''])
        ip = str(rnd.randint(0, 9999)) if rnd.random() < 0.85 else ''
        fp = ''
        if not ip or rnd.random() < 0.5:
            fp = '.' + (str(rnd.randint(0, 999)) if (not ip or rnd.random() < 0.8) else '')
        if rnd.random() < 0.3:
            ip = '0' * rnd.randint(1, 2) + ip
        ex = ''
        if rnd.random() < 0.35:
            ex = rnd.choice('eE') + rnd.choice(['', '+', '-']) + str(rnd.randint(0, 4))
        return S(' ' * rnd.randrange(3) * (rnd.random() < 0.4) + s + ip + fp + ex
                 + ' ' * rnd.randrange(3) * (rnd.random() < 0.4))

    misses = ['1e', 'e5', '1.2.3', '1x', 'x1', '0x10', '1_000', 'infinity', 'Inf',
              'NaN', '-inf', '1e5x', '.', '+', '-', '1e+', '. 5', '1 e5', '1__0',
              '_1', '1_', 'nan ', ' inf', '1e1_0', '1.e', 'E', '+.', '5..', '1e2.5']
    letters = 'abcxyzq'

    def word():
        s = ''.join(rnd.choice(letters) for _ in range(rnd.randint(1, 3)))
        s = ''.join(ch.upper() if rnd.random() < 0.5 else ch for ch in s)
        if rnd.random() < 0.25:
            s += str(rnd.randint(0, 9))
        return S(s)

    def logical_word():
        s = ''.join(ch.upper() if rnd.random() < 0.5 else ch
                    for ch in rnd.choice(('true', 'false')))
        return S(' ' * rnd.randrange(3) * (rnd.random() < 0.3) + s
                 + ' ' * rnd.randrange(3) * (rnd.random() < 0.3))

    def far_numeral(lo, hi):
        """a numeral with a decimal exponent in lo..hi (both of one sign)"""
        m = str(rnd.randint(1, 9999))
        if rnd.random() < 0.5:
            cut = rnd.randrange(len(m) + 1)
            m = m[:cut] + '.' + m[cut:]
            if m == '.':
                m = '.5'
        e = rnd.randint(lo, hi)
        return S(rnd.choice(['', '', '-', '+']) + m + rnd.choice('eE')
                 + ('-' if e < 0 else rnd.choice(['', '+'])) + str(abs(e)))

    foreign = ([0xB2, 0xB3, 0xB9, 0x2070] + list(range(0x2074, 0x207A))
               + [b + i for b in (0x660, 0x6F0, 0x966, 0x2080, 0xFF10) for i in range(10)])

    def foreign_digits():
        """digits which are not ASCII digits, alone or within an ASCII numeral"""
        kind = rnd.randrange(3)
        if kind == 0:       # one script, as int() / float() read it
            base = rnd.choice((0x660, 0x6F0, 0x966, 0xFF10))
            s = ''.join(chr(base + rnd.randrange(10)) for _ in range(rnd.randint(1, 3)))
            if rnd.random() < 0.3:
                s = rnd.choice('+-') + s
            if rnd.random() < 0.3:
                s += '.' + chr(base + rnd.randrange(10))
        elif kind == 1:     # an ASCII numeral with one of them in it
            s = list(str(rnd.randint(0, 999)))
            s.insert(rnd.randrange(len(s) + 1), chr(rnd.choice(foreign)))
            s = ''.join(s)
        else:
            s = ''.join(chr(rnd.choice(foreign)) for _ in range(rnd.randint(1, 2)))
        return S(s)

    pool, seen = [], set()

    def add(val):
        k = json.dumps(val)
        if k not in seen:
            seen.add(k)
            pool.append(val)
    for gen, cnt in ((num, n_num), (numtext, n_numtext), (word, n_word),
                     (logical_word, n_logical)):
        tries = 0
        start = len(pool)
        while len(pool) - start < cnt and tries < 200:
            add(gen())
            tries += 1
    for s in rnd.sample(misses, n_miss):
        add(S(s))
    # (the numeral's own exponent: the mantissa adds up to four digits)
    add(far_numeral(160, 300))
    add(far_numeral(-300, -20))
    add(far_numeral(320, 999))
    add(far_numeral(10, 999))
    for _ in range(3):
        add(foreign_digits())
    add(['B', 1])
    add(['B', 0])
    add(['Z'])
    for e in rnd.sample(ERRORS, 2):
        add(['E', e])
    return pool


def write_sampled_module(pool):
    d = tlc.new_scratch('operators')
    with open(os.path.join(d, 'MC_OperatorsT.tla'), 'w') as f:
        f.write('---- MODULE MC_OperatorsT ----\nEXTENDS MC_Operators\nTPool == <<\n  '
                + ',\n  '.join(tla_value(x) for x in pool) + ' >>\n====\n')
    with open(os.path.join(d, 'T.cfg'), 'w') as f:
        f.write(open(os.path.join(tlc.SPEC, 'Operators_mc.cfg')).read()
                .replace('Pool <- MCPool', 'Pool <- TPool'))
    return d


# ---------------------------------------------------------------------------

def run(tier, seed):
    v = Verdict(PID, tier, seed)
    rnd = random.Random(seed)
    binder = Binder(v, rnd)

    res, vectors = run_tlc(v, 'MC_Operators', 'Operators_mc.cfg', tlc.SPEC, 'Operators_mc')
    ops, n, taken, ante = check_pair_export(vectors, 'Operators_mc')
    binder.pairs(vectors)
    v.traces += len(vectors)
    extra = dict(exhaustive=True, operators=ops, pool_size=n, vectors=len(vectors),
                 actions_taken=taken, law_antecedents=ante)

    extra['neighbouring_doubles'] = binder.neighbours(60 if tier == 'quick' else 2000)

    if tier == 'thorough':
        # all triples: nested comparisons and transitivity
        res3, tri = run_tlc(v, 'MC_Operators', 'Operators_tri.cfg', tlc.SPEC, 'Operators_tri')
        if len(tri) != n ** 3:
            raise tlc.MachineryFailure(f'triple export: {len(tri)} vectors, expected {n}^3')
        if not any(x['at'][3] > 1 for x in tri):
            raise tlc.MachineryFailure('vacuous: action NextC never taken')
        if not any(x['chain'] for x in tri):
            raise tlc.MachineryFailure('vacuous: antecedent of Transitive never held')
        nested, chains, sampled = binder.triples(tri, formula_budget=1500)
        v.traces += len(tri)
        extra.update(triples=len(tri), nested_comparisons=nested,
                     transitivity_triples_on_code=chains,
                     triples_through_cells=sampled)
        # sampled numbers and strings: same machine, same laws, random pool
        pool = sampled_pool(rnd)
        d = write_sampled_module(pool)
        res_s, vec_s = run_tlc(v, 'MC_OperatorsT', os.path.join(d, 'T.cfg'), d,
                               'Operators_sampled', library=tlc.SPEC)
        check_pair_export(vec_s, 'Operators_sampled')
        binder.pairs(vec_s)
        v.traces += len(vec_s)
        extra.update(sampled_pool=[show(x) for x in pool], sampled_vectors=len(vec_s))

    extra.update(
        skipped_unmodelled=binder.skipped,
        evaluations_by_mode=binder.by_mode,
        rule='one case = (mode, operator, a, b[, c], concrete types); the three '
             'modes are: the fixup function itself, =A1 op B1 with the operands '
             'in cells, =a op b with literal operands (plain, and with zero-padded '
             'numerals / lower-case logicals); unmodelled (U) results '
             'are checked for totality only; closed: every value the fixup function '
             'returned is fed back as an operand (x=x, x<>x, x<0, x=0, x>0, x&"")',
        known_finding_cases={k: len(c) for k, c in v.known.items()},
        not_judged=['0^0 (Excel #NUM!, pycel 1)',
                    'order of two unequal texts unless both consist of letters, '
                    'digits, space and full stop (collation)',
                    'text with % $ , / : ( ) \' or control characters, inner spaces '
                    'or hyphens',
                    'rendering of non-terminating fractions and of magnitudes '
                    'below 1E-4 in &',
                    'powers whose magnitude cannot be bounded away from 1.8E308 '
                    'by digit counting (e.g. 2^400 is accepted as a number)',
                    'numerals as text from 1E308 up to 1E309 (doubles which are not '
                    'numbers of Excel) and below 1E-307; results in that band; sums '
                    'and powers of numbers beyond the exact fragment (magnitude only: '
                    'a number or #NUM!)',
                    'number operands beyond moderate magnitude (1E308*10: the '
                    'statement restricts them; the same overflow is reached through '
                    'numeric text)'])
    v.extra.update(extra)
    v.assumptions = ['TLC evaluates the ExcelValues definitions correctly',
                     'numbers compared with 1e-12 relative tolerance against the '
                     'exact rational; floats fed to the code are the doubles '
                     'nearest to the pool decimals',
                     'text restricted to printable ASCII and the digits of '
                     'seven other Unicode blocks']
    return v.finish()


def replay(path):
    """re-run one recorded discrepancy"""
    with open(path) as f:
        rec = json.load(f)
    case = rec['case']
    from pycel.excelutil import build_operator_operand_fixup
    fix = build_operator_operand_fixup(lambda *a: None)
    mode = case.get('mode')
    vec = dict(op=case.get('op'), a=case.get('a'), b=case.get('b'))
    if mode == 'direct':
        tnames = case.get('variant', ',').split(',')

        def pick(val, tn):
            for x in py_variants(val):
                if type(x).__name__ == tn:
                    return x
            return py_variants(val)[0]
        pa = pick(vec['a'], tnames[0])
        pb = None if vec['op'] in ('u-', '%') else pick(vec['b'], tnames[1])
        got = direct(fix, vec['op'], pa, pb)
    elif mode in ('cells', 'literal'):
        cells = {}
        if mode == 'cells':
            f = formula_for(vec['op'], 'A1', 'B1')
            for addr, val in (('A1', vec['a']), ('B1', vec['b'])):
                if val:
                    cc = cell_content(val)
                    if cc is not None:
                        cells[addr] = cc
        else:
            f = case['formula']
        cells['C1'] = f
        got = evaluate_cells(cells, ['C1'])['C1']
    else:
        print(f'replay of mode {mode!r}: re-run bin/check C10 --tier thorough')
        return 2
    why = mismatch(got, case['want'])
    print(f"replay {rec['desc']}\n  now: {brief(got, 200)}")
    if why:
        print(f'VIOLATION property={PID} replay={path}\n  {why}')
        return 1
    print(f'{PID}: replayed case now conforms')
    return 0
