"""C11 -- address algebra: parse/print round trip and rectangle lattice laws.

Spec: spec/Address.tla.  Definitions: column letters (bijective base 26),
A1 / R1C1 (absolute, relative to an anchor, wrapping) / tuple renderings of
one location, sheet-name quoting, ParseRef (the reading of printed text),
rectangles with Inter / Union / containment / the sheet rule, Offset with
wrap.  TLC checks the laws (ColInverse, ColSucc, CoordRoundTrip, OffsetWrap,
SheetRoundTrip, CellsCount, PairLaws, TripleLaws, SheetLaws) on six
enumerator machines and exports one vector per state.

Binding: every vector is executed on the real AddressRange / AddressCell /
split_sheetname / unquote_sheetname / range_boundaries / r1c1_boundaries:
construction from each rendering (tuple, A1 text, $ text, R1C1 text, relative
R1C1 with an anchor object), printing back (.address, .coordinate,
.abs_address, .quoted_address) and re-reading what was printed, `&`, `**`,
multi-colon ranges, `in`, .rows/.cols/.resolve_range/.size,
address_at_offset/inc_col/inc_row.  Every location is taken in every notation
the spec gives it: whole columns / rows also as A:C / 1:3 / C[-1]:C[2]
(operands of `&`, `**`, `in`, .size, the printed forms), ranges also by any
two opposite corners in either order, relative R1C1 ranges whose corners wrap
separately; the row / column generators are consumed in several schedules
(nested, all outer first, last first, interleaved).  The same goes through
compiled formulas in real
workbooks (references to quoted sheets, CSE arrays on such sheets, the
intersection and range operators, ROW/COLUMN/SUM of boundary references).
The oracle is the value of the TLA+ definitions.
"""
import json
import os
import random
import time

from harness import tlc, xl  # noqa: F401  (xl silences pycel's logging)
from harness.evidence import Verdict

PID = 'C11'
MAX_COL, MAX_ROW = 16384, 1048576
ACTIONS = ('WalkColumn', 'StepCol', 'StepRow', 'AppendChar', 'WidenA',
           'HeightenA', 'WidenB', 'HeightenB', 'WidenC', 'HeightenC')


def T(codes):
    return ''.join(map(chr, codes))


# --------------------------------------------------------------------------
# TLC runs

def thorough_wrapper(rnd):
    """MC module for the thorough tier: all boundary columns / rows, sampled
    coordinates, a richer sheet-name alphabet with names of up to 4
    characters (the 4x4 grid is the static Address_big.cfg)."""
    d = tlc.new_scratch('address')
    rc = sorted(rnd.sample(range(2, MAX_COL - 3), 4))
    rr = sorted(rnd.sample(range(3, MAX_ROW - 3), 4))
    bc = rnd.randrange(28, 16383)
    br = rnd.randrange(3, 1048575)
    with open(os.path.join(d, 'MC_AddressT.tla'), 'w') as f:
        f.write(f'''---- MODULE MC_AddressT ----
EXTENDS MC_Address
TModes == {{"col", "coord", "sheet", "pair", "big", "triple"}}
TColSeeds == MCColSeeds \\cup {{ {", ".join(map(str, rc))} }}
TRowSeeds == MCRowSeeds \\cup {{ {", ".join(map(str, rr))} }}
TSteps == 4
TAnchors == MCAnchors \\cup {{ <<{rc[0]}, {rr[0]}>>, <<1, MaxRow>>, <<MaxCol, 1>> }}
TOffCols == MCOffCols \\cup {{ {rnd.randrange(2, 16383)}, 0 - {rnd.randrange(2, 16383)}, {rnd.randrange(16385, 100000)} }}
TOffRows == MCOffRows \\cup {{ {rnd.randrange(2, 1048575)}, 0 - {rnd.randrange(2, 1048575)}, {rnd.randrange(1048577, 5000000)} }}
TAlphabet == MCAlphabet \\cup {{98, 46}}
TMaxName == 4
TBigCols == {{1, 26, 27, 702, 703, 16384, {bc}}}
TBigRows == {{1, 2, 1048576, {br}}}
====
''')
    base = open(os.path.join(tlc.SPEC, 'Address_mc.cfg')).read()
    cfg1 = base
    for name in ('Modes', 'ColSeeds', 'RowSeeds', 'Steps', 'Anchors', 'OffCols',
                 'OffRows', 'Alphabet', 'MaxName', 'BigCols', 'BigRows'):
        cfg1 = cfg1.replace(f'<- MC{name}\n', f'<- T{name}\n')
    with open(os.path.join(d, 'T.cfg'), 'w') as f:
        f.write(cfg1)
    return d


def run_tlc(label, module, cfg, d, v, need, workers):
    lib = None if d == tlc.SPEC else tlc.SPEC
    res = tlc.run(module, cfg, spec_dir=d, workers=workers, coverage=True,
                  timeout=1500, library=lib, heap='6g')
    if not res.ok:
        raise tlc.MachineryFailure(
            f'Address model ({label}) violates {res.violated}:\n' + res.stdout[-3000:])
    for act in need:
        if res.coverage.get(act, (0, 0))[1] == 0:
            raise tlc.MachineryFailure(f'vacuous ({label}): action {act} never taken')
    v.add_tlc(res, label)
    vectors = res.json
    res.stdout = ''
    return res, vectors


# --------------------------------------------------------------------------

class Anchor:
    """The anchor cell of a relative R1C1 reference: what r1c1_boundaries
    reads of it (.row, .col_idx), shaped like the suite's ATestCell."""

    def __init__(self, col_idx, row, sheet=''):
        from pycel.excelutil import AddressCell
        self.col_idx, self.row, self.sheet = col_idx, row, sheet
        self.excel = None
        self.value = None
        self.address = AddressCell((col_idx, row, col_idx, row), sheet=sheet)


class Driver:
    def __init__(self, v, tier, rnd):
        from pycel import excelutil as eu
        self.v, self.tier, self.rnd, self.eu = v, tier, rnd, eu
        self.LET = {}
        self.counts = {}
        self.skipped = {}
        self.failed = {}
        self.want = {}
        self.bands_done = set()

    # -- bookkeeping ---------------------------------------------------------
    def call(self, fn, *a, **k):
        try:
            return fn(*a, **k)
        except Exception as exc:   # noqa  -- a raise is an observation here
            return exc

    def fail(self, kind, desc, case, shape=None):
        """record a discrepancy; one defect shows up on thousands of vectors,
        so only the first few of each (kind, shape of the wrong answer) are
        kept verbatim, all are counted"""
        shape = (kind, desc.split('got ')[-1].split('(')[0][:30] if shape is None else shape)
        self.failed[shape] = self.failed.get(shape, 0) + 1
        if self.failed[shape] <= 3:
            self.v.violation(f'{kind}: {desc}', dict(case, kind=kind, nth=self.failed[shape]))

    def seen(self, kind, key):
        """key: the case dict (its values name the input), or None"""
        self.counts[kind] = self.counts.get(kind, 0) + 1
        if isinstance(key, dict):
            try:
                key = tuple(key.values())
                hash(key)
            except TypeError:
                key = repr(key)
        if key is None:          # bulk run: counted, not kept as a distinct key
            self.v.evaluations += 1
        else:
            self.v.case((kind, key))

    # -- spec-side rendering (letters come from the TLC "col" vectors) -------
    def a1cell(self, c, r, abs_=False):
        d = '$' if abs_ else ''
        return f'{d}{self.LET[c]}{d}{r}'

    def a1(self, rect, abs_=False):
        c1, r1, c2, r2 = rect
        if (c1, r1) == (c2, r2):
            return self.a1cell(c1, r1, abs_)
        return self.a1cell(c1, r1, abs_) + ':' + self.a1cell(c2, r2, abs_)

    def full(self, rect, sheet):
        return (sheet + '!' if sheet else '') + self.a1(rect)

    def mk(self, rect, sheet=''):
        """the tuple notation -> address object"""
        rect = tuple(rect)
        if rect[:2] == rect[2:]:
            return self.eu.AddressCell(rect, sheet=sheet)
        return self.eu.AddressRange(rect, sheet=sheet)

    def shorts(self, rect, abs_=False):
        """the short texts of a whole-column / whole-row location, each with the
        corners pycel shows for it (the open side is 0)"""
        c1, r1, c2, r2 = rect
        d = '$' if abs_ else ''
        out = []
        if (r1, r2) == (1, MAX_ROW):
            out.append((f'{d}{self.LET[c1]}:{d}{self.LET[c2]}', (c1, 0, c2, 0)))
        if (c1, c2) == (1, MAX_COL):
            out.append((f'{d}{r1}:{d}{r2}', (0, r1, 0, r2)))
        return out

    def coords(self, rect, abs_=False):
        """every A1 spelling of the coordinate (Address.tla: Coords)"""
        return [self.a1(rect, abs_)] + [t for t, _ in self.shorts(rect, abs_)]

    def is_loc(self, got, rect, sheet):
        """got is the address object of location (sheet, rect), in the two-corner
        spelling or (whole columns / rows) in the short one"""
        eu = self.eu
        rect = tuple(rect)
        if isinstance(got, Exception) or not eu.is_address(got):
            return False
        unit = rect[:2] == rect[2:]
        if unit != isinstance(got, eu.AddressCell):
            return False
        key = (rect, sheet)
        if key not in self.want:
            try:
                same = self.mk(rect, sheet)
            except Exception as exc:   # noqa
                same = exc
            self.want[key] = (self.a1(rect), self.full(rect, sheet), same)
        coord, full, same = self.want[key]
        try:
            corners = (got.start.col_idx, got.start.row, got.end.col_idx, got.end.row)
            if (corners == rect and got.sheet == sheet and got.coordinate == coord
                    and got.address == full and got == same):
                return True
            size = (rect[3] - rect[1] + 1, rect[2] - rect[0] + 1)
            return any(
                corners == shown and got.sheet == sheet and got.coordinate == text
                and got.address == self.full_text(sheet, text) and tuple(got.size) == size
                for text, shown in self.shorts(rect))
        except Exception:   # noqa
            return False

    def loc_of(self, got):
        """(sheet, rect) an address object denotes (open sides filled in)"""
        if not self.eu.is_address(got):
            return got           # #NULL!, #VALUE!
        corners = (got.start.col_idx or 1, got.start.row or 1,
                   got.end.col_idx or MAX_COL, got.end.row or MAX_ROW)
        return got.sheet, corners

    def expect_loc(self, kind, got, rect, sheet, case):
        self.seen(kind, case)
        if not self.is_loc(got, rect, sheet):
            self.fail(kind, f'expected {self.full(tuple(rect), sheet)!r}, got {got!r}', case)

    def expect_eq(self, kind, got, want, case):
        self.seen(kind, case)
        if isinstance(got, Exception) or got != want or type(got) is not type(want):
            self.fail(kind, f'expected {want!r}, got {got!r}', case)

    # -- "col": letters <-> numbers ------------------------------------------
    def drive_cols(self, vecs):
        eu = self.eu
        for vec in vecs:
            self.LET[vec['n']] = T(vec['letters'])
        if sorted(self.LET) != list(range(1, MAX_COL + 1)):
            raise tlc.MachineryFailure('column walk incomplete: %d columns' % len(self.LET))
        for n, L in self.LET.items():
            case = dict(col=n, letters=L)
            c = self.call(eu.AddressCell, (n, 1, n, 1))
            self.seen('col.print', n)
            if isinstance(c, Exception) or (c.column, c.coordinate, c.col_idx, c.row) != (L, L + '1', n, 1):
                self.fail('col.print', f'column {n} should print {L!r}, got {c!r}', case)
            p = self.call(eu.AddressCell, L + '1')
            self.seen('col.parse', n)
            if isinstance(p, Exception) or (p.col_idx, p.row) != (n, 1) or p != c:
                self.fail('col.parse', f'{L}1 should be column {n}, got {p!r}', case)
        for n in (1, 26, 27, 52, 53, 702, 703, 704, 16383, 16384):
            L = self.LET[n]
            for text in (f'{L.lower()}{MAX_ROW}', f'${L}${MAX_ROW}', f'R{MAX_ROW}C{n}'):
                self.expect_loc('col.boundary', self.call(eu.AddressRange.create, text),
                                (n, MAX_ROW, n, MAX_ROW), '', dict(text=text))

    # -- "coord": notations of one cell / range, offsets ---------------------
    def drive_coords(self, vecs, sheets):
        eu = self.eu
        C = eu.AddressRange.create
        for vec in vecs:
            c, r = vec['c'], vec['r']
            rect = (c, r, c, r)
            a1, abs_, rc = T(vec['a1']), T(vec['abs']), T(vec['rc'])
            if (a1, abs_) != (self.a1(rect), self.a1(rect, True)):
                raise tlc.MachineryFailure(f'harness rendering differs from spec: {a1} {abs_}')
            self.v.sample(dict(m='coord', tuple=rect, a1=a1, abs=abs_, r1c1=rc))
            E = self.call(self.mk, rect)
            self.expect_loc('cell.tuple', E, rect, '', dict(tuple=rect))
            for text in (a1, abs_, a1.lower(), rc, '$' + a1, self.LET[c] + '$' + str(r)):
                case = dict(text=text)
                self.expect_loc('cell.parse', self.call(C, text), rect, '', case)
                self.expect_loc('cell.parse', self.call(eu.AddressCell, text), rect, '', case)
                self.expect_loc('cell.parse', self.call(eu.AddressRange, text), rect, '', case)
                self.expect_loc('cell.parse', self.call(eu.AddressCell.create, text), rect, '', case)
            self.expect_eq('cell.boundaries', self.call(lambda: eu.range_boundaries(a1)[0]),
                           rect, dict(text=a1))
            self.expect_eq('cell.boundaries', self.call(lambda: eu.r1c1_boundaries(rc)[0]),
                           rect, dict(text=rc))
            if not isinstance(E, Exception):
                self.expect_eq('cell.abs', self.call(lambda: E.abs_coordinate), abs_, dict(tuple=rect))
                self.expect_eq('cell.attrs', self.call(
                    lambda: (E.column, E.col_idx, E.row, E.is_range, tuple(E.size),
                             E.start is E, E.end is E, E.has_sheet, E.sort_key)),
                    (self.LET[c], c, r, False, (1, 1), True, True, False, ('', c, r)),
                    dict(tuple=rect))
                self.expect_eq('cell.resolve', self.call(lambda: E.resolve_range), ((E,),),
                               dict(tuple=rect))
            sh = self.rnd.choice(sheets)
            self.reprint(rect, sh)
            # relative R1C1 from every anchor (offsets wrap at the sheet limits)
            for rel in vec['rel']:
                text = T(rel['t'])
                an = Anchor(rel['ac'], rel['ar'])
                case = dict(text=text, anchor=(rel['ac'], rel['ar']))
                self.expect_loc('cell.rel', self.call(C, text, cell=an), rect, '', case)
                self.expect_loc('cell.rel', self.call(eu.AddressCell.create, 'S!' + text, cell=an),
                                rect, 'S', case)
                self.expect_eq('cell.rel', self.call(
                    lambda: eu.r1c1_boundaries(text, cell=an)[0]), rect, case)
            # offsets
            ES = self.call(self.mk, rect, 'S')
            offmap = {(dc, dr): (c2, r2) for dc, dr, c2, r2 in vec['off']}
            for dc, dr, c2, r2 in vec['off']:
                case = dict(tuple=rect, col_inc=dc, row_inc=dr)
                want = (c2, r2, c2, r2)
                self.expect_loc('offset', self.call(
                    lambda: E.address_at_offset(row_inc=dr, col_inc=dc)), want, '', case)
                self.expect_loc('offset', self.call(
                    lambda: ES.address_at_offset(dr, dc)), want, 'S', case)
                self.expect_eq('offset', self.call(lambda: (E.inc_col(dc), E.inc_row(dr))),
                               (c2, r2), case)
            # ranges starting at the cell
            for rg in vec['ranges']:
                rrect = (c, r, rg['c2'], rg['r2'])
                ra1, rabs, rrc = T(rg['a1']), T(rg['abs']), T(rg['rc'])
                if (ra1, rabs) != (self.a1(rrect), self.a1(rrect, True)):
                    raise tlc.MachineryFailure(f'harness rendering differs from spec: {ra1}')
                R = self.call(self.mk, rrect)
                self.expect_loc('range.tuple', R, rrect, '', dict(tuple=rrect))
                both = f'{self.a1cell(c, r)}:{self.a1cell(rg["c2"], rg["r2"])}'
                for text in (ra1, rabs, ra1.lower(), rrc, both):
                    case = dict(text=text)
                    self.expect_loc('range.parse', self.call(C, text), rrect, '', case)
                    self.expect_loc('range.parse', self.call(eu.AddressRange, text), rrect, '', case)
                    self.expect_loc('range.parse', self.call(C, text, sheet='S'), rrect, 'S', case)
                # any two opposite corners, in either order
                for text in map(T, rg['corners']):
                    case = dict(text=text)
                    self.expect_loc('range.corners', self.call(C, text), rrect, '', case)
                    self.expect_loc('range.corners', self.call(C, text, sheet='S'), rrect, 'S', case)
                self.expect_eq('range.boundaries', self.call(
                    lambda: eu.range_boundaries(ra1)[0]), rrect, dict(text=ra1))
                self.expect_eq('range.boundaries', self.call(
                    lambda: eu.r1c1_boundaries(rrc)[0]), rrect, dict(text=rrc))
                for rel in rg['rel']:
                    text = T(rel['t'])
                    an = Anchor(rel['ac'], rel['ar'])
                    self.expect_loc('range.rel', self.call(C, text, cell=an), rrect, '',
                                    dict(text=text, anchor=(rel['ac'], rel['ar'])))
                if not isinstance(R, Exception):
                    h, w = rg['r2'] - r + 1, rg['c2'] - c + 1
                    self.expect_eq('range.attrs', self.call(
                        lambda: (tuple(R.size), R.abs_coordinate, R.is_range, R.col_idx, R.row,
                                 R.start == self.mk(rect), R.end == self.mk((rg['c2'], rg['r2']) * 2))),
                        ((h, w), rabs, True, c, r, True, True), dict(tuple=rrect))
                    self.expect_loc('range.offset', self.call(
                        lambda: R.address_at_offset(-1, -1)),
                        offmap[(-1, -1)] * 2, '', dict(tuple=rrect, row_inc=-1, col_inc=-1))
                self.reprint(rrect, sh)
            # whole columns / whole rows through the cell
            for band in vec['bands']:
                self.drive_band(band, sh)
            # relative ranges anchored here, each corner wrapping on its own
            an = Anchor(c, r)
            for span in vec['relspans']:
                text = T(span['t'])
                self.expect_loc('range.relspan', self.call(C, text, cell=an), tuple(span['rect']),
                                '', dict(text=text, anchor=(c, r)))
            # the same through the formula compiler (no workbook needed)
            self.formula_refs(rect, 'S', [abs_, a1, 'S!' + a1, "'S'!" + abs_])

    def drive_band(self, band, sheet):
        """a whole-column / whole-row range in its notations; what the object
        made from the short text says about itself"""
        eu = self.eu
        C = eu.AddressRange.create
        rect = tuple(band['rect'])
        a1, abs_, rev = T(band['a1']), T(band['abs']), T(band['rev'])
        long_, longabs = T(band['long']), T(band['longabs'])
        if band['kind'] + rev in self.bands_done:
            return
        self.bands_done.add(band['kind'] + rev)
        if a1 not in self.coords(rect) or abs_ not in self.coords(rect, True) \
                or (long_, longabs) != (self.a1(rect), self.a1(rect, True)):
            raise tlc.MachineryFailure(f'harness rendering differs from spec: {a1} {abs_} {long_}')
        for text in (a1, abs_, rev, a1.lower(), long_, longabs):
            case = dict(text=text)
            self.expect_loc('band.parse', self.call(C, text), rect, '', case)
            self.expect_loc('band.parse', self.call(eu.AddressRange, text), rect, '', case)
            self.expect_loc('band.parse', self.call(C, text, sheet='S'), rect, 'S', case)
        for rel in band['rel']:
            text = T(rel['t'])
            self.expect_loc('band.rel', self.call(C, text, cell=Anchor(rel['ac'], rel['ar'])),
                            rect, '', dict(text=text, anchor=(rel['ac'], rel['ar'])))
        B = self.call(C, a1)
        if not self.is_loc(B, rect, ''):
            return      # reported above
        h, w = rect[3] - rect[1] + 1, rect[2] - rect[0] + 1
        case = dict(text=a1)
        self.expect_eq('band.attrs', self.call(
            lambda: (tuple(B.size), B.is_range, B.is_unbounded_range)), ((h, w), True, True), case)
        got = self.call(lambda: B.abs_coordinate)
        self.seen('band.abs', case)
        if got not in self.coords(rect, True):
            self.fail('band.abs', f'abs_coordinate of {a1!r}: expected {abs_!r}, got {got!r}', case,
                      shape=band['kind'])
        # containment: cells on the rim inside, their neighbours outside
        c1, r1, c2, r2 = rect
        mid = (self.rnd.randrange(c1, c2 + 1), self.rnd.randrange(r1, r2 + 1))
        inside = {(c1, r1), (c2, r2), (c1, r2), (c2, r1), mid}
        outside = {(c1 - 1, r1), (c2 + 1, r2), (c1, r1 - 1), (c2, r2 + 1)}
        for (pc, pr), flag in [(x, True) for x in sorted(inside)] + [
                (x, False) for x in sorted(outside)
                if 1 <= x[0] <= MAX_COL and 1 <= x[1] <= MAX_ROW]:
            cell = self.mk((pc, pr, pc, pr))
            self.expect_eq('band.contains', self.call(lambda: cell in B), flag,
                           dict(a=a1, cell=cell.address))
            self.expect_eq('band.contains', self.call(lambda: cell.address in B), flag,
                           dict(a=a1, cell=cell.address))
        # what it prints reads back as the same location
        self.reprint(rect, sheet, self.call(C, a1, sheet=sheet))

    def reprint(self, rect, sheet, A=None):
        """print in the three forms and read back what was printed (A: the
        object to print, default the one made from the tuple)"""
        eu = self.eu
        if A is None:
            A = self.call(self.mk, rect, sheet)
        case = dict(tuple=rect, sheet=sheet)
        if isinstance(A, Exception):
            self.seen('print', case)
            self.fail('print', f'cannot construct: {A!r}', case)
            return
        for form in ('address', 'quoted_address', 'abs_address'):
            text = self.call(getattr, A, form)
            case = dict(tuple=rect, sheet=sheet, form=form, text=str(text))
            if isinstance(text, Exception):
                self.seen('print', case)
                self.fail('print', f'{form} raises {text!r}', case)
                continue
            self.expect_loc('print.parse', self.call(eu.AddressRange.create, text), rect, sheet, case)
            if not sheet:
                continue
            sp = self.call(eu.split_sheetname, text)
            self.seen('print.split', case)
            if isinstance(sp, Exception) or tuple(sp[:1]) != (sheet,) or \
                    sp[1] not in self.coords(rect, form == 'abs_address'):
                coord = self.a1(rect, form == 'abs_address')
                self.fail('print.split', f'expected {(sheet, coord)!r}, got {sp!r}', case)

    def formula_refs(self, rect, sheet, texts):
        """=<text> compiled by ExcelFormula on a cell of `sheet` reads rect"""
        from pycel.excelformula import ExcelFormula
        want = self.mk(rect, sheet)
        for text in texts:
            case = dict(formula='=' + text, on_sheet=sheet)
            got = self.call(lambda: tuple(ExcelFormula(
                '=' + text, cell=Anchor(2, 2, sheet)).needed_addresses))
            self.seen('formula.needed', case)
            if isinstance(got, Exception) or len(got) != 1 or not self.is_loc(
                    got[0], rect, want.sheet):
                self.fail('formula.needed', f'expected ({want!r},), got {got!r}', case)

    # -- workbooks -------------------------------------------------------------
    def workbook(self, main='Fx9'):
        from openpyxl import Workbook
        wb = Workbook()
        wb.active.title = main
        return wb, wb.active

    def evaluate_all(self, wb, formulas, main='Fx9'):
        """formulas: list of (text, expected, kind, case); one compile"""
        from pycel import ExcelCompiler
        ws = wb[main]
        for i, (text, _w, _k, _c) in enumerate(formulas):
            ws.cell(row=i + 1, column=MAX_COL - 1).value = text
        try:
            model = ExcelCompiler(excel=wb)
        except Exception as exc:   # noqa
            model = exc
        col = self.LET[MAX_COL - 1]
        for i, (text, want, kind, case) in enumerate(formulas):
            case = dict(case, formula=text)
            self.seen(kind, case)
            if isinstance(model, Exception):
                got = model
            else:
                got = self.call(model.evaluate, self.eu.AddressCell(
                    (MAX_COL - 1, i + 1) * 2, sheet=main))
            if isinstance(got, Exception) or not xl.same_value(got, want):
                short = repr(got)
                self.fail(kind, f'{text} on sheet {main!r}: expected {want!r}, got {short[:300]}', case)
        return col

    def drive_coord_formulas(self, vecs):
        """ROW/COLUMN/SUM of boundary references in a real workbook"""
        wb, main = self.workbook()
        ws = wb.create_sheet('S')
        val = {}
        for vec in vecs:
            val[(vec['c'], vec['r'])] = self.rnd.randrange(1, 10 ** 6)
        for (c, r), x in val.items():
            ws.cell(row=r, column=c).value = x
        formulas = []
        for vec in vecs:
            c, r = vec['c'], vec['r']
            a1, abs_ = T(vec['a1']), T(vec['abs'])
            case = dict(tuple=(c, r, c, r))
            formulas.append((f'=ROW(S!{a1})', r, 'wb.cell', case))
            formulas.append((f"=COLUMN('S'!{abs_})", c, 'wb.cell', case))
            formulas.append((f'=S!{abs_}', val[(c, r)], 'wb.cell', case))
            for rg in vec['ranges']:
                rect = (c, r, rg['c2'], rg['r2'])
                want = sum(x for (pc, pr), x in val.items()
                           if c <= pc <= rg['c2'] and r <= pr <= rg['r2'])
                formulas.append((f"=SUM(S!{T(rg['abs'])})", want, 'wb.range', dict(tuple=rect)))
                formulas.append((f"=SUM(S!{T(rg['rc'])})", want, 'wb.range', dict(tuple=rect)))
        self.evaluate_all(wb, formulas)

    # -- "sheet": quoting --------------------------------------------------------
    def drive_sheets(self, vecs):
        eu = self.eu
        C = eu.AddressRange.create
        legal = [vec for vec in vecs if vec['legal']]
        rects = ((2, 2, 2, 2), (2, 2, 3, 4), (MAX_COL, MAX_ROW) * 2)
        unquoted_by_pycel = 0
        for vec in legal:
            nm, q = T(vec['name']), T(vec['quoted'])
            self.v.sample(dict(m='sheet', name=nm, quoted=q))
            self.expect_eq('sheet.unquote', self.call(eu.unquote_sheetname, q), nm, dict(quoted=q))
            for rect in rects:
                coord, acoord = self.a1(rect), self.a1(rect, True)
                # Excel's text for the location -> the location
                texts = [f'{q}!{coord}', f'{q}!{acoord}']
                if rect[:2] != rect[2:]:
                    texts.append(f'{q}!{self.a1cell(*rect[:2])}:{q}!{self.a1cell(*rect[2:])}')
                if not vec['needs_quote']:
                    texts.append(f'{nm}!{coord}')
                for text in texts:
                    self.expect_loc('sheet.parse', self.call(C, text), rect, nm, dict(text=text))
                self.expect_eq('sheet.split', self.call(eu.split_sheetname, texts[0]),
                               (nm, coord), dict(text=texts[0]))
                self.expect_loc('sheet.parse', self.call(C, coord, sheet=nm), rect, nm,
                                dict(text=coord, sheet=nm))
                self.expect_loc('sheet.parse', self.call(C, texts[0], sheet=nm), rect, nm,
                                dict(text=texts[0], sheet=nm))
                # what pycel prints -> the location
                self.reprint(rect, nm)
            A = self.call(self.mk, rects[0], nm)
            if not isinstance(A, Exception) and vec['needs_quote'] and \
                    self.call(lambda: A.quoted_address) == A.address:
                unquoted_by_pycel += 1
        self.v.extra['names_excel_would_quote_printed_bare'] = unquoted_by_pycel
        return [T(vec['name']) for vec in legal]

    def drive_sheet_workbooks(self, names):
        """the quoted / absolute forms are made 'to include in formulas':
        a formula holding them must read the cell they were printed from;
        a CSE array on the sheet goes through quoted_address inside pycel"""
        from openpyxl.worksheet.formula import ArrayFormula
        for nm in names:
            if nm in ('Fx9',):
                continue
            wb, main = self.workbook()
            ws = wb.create_sheet(nm)
            if ws.title != nm:
                self.skipped['openpyxl renamed sheet'] = self.skipped.get(
                    'openpyxl renamed sheet', 0) + 1
                continue
            ws['B2'], ws['B3'], ws['C4'] = 7, 1, 5
            ws['E1'] = ArrayFormula('E1:E2', '=B2:B3*2')
            cell = self.call(self.mk, (2, 2, 2, 2), nm)
            rng = self.call(self.mk, (2, 2, 3, 4), nm)
            if isinstance(cell, Exception) or isinstance(rng, Exception):
                continue   # reported by drive_sheets
            case = dict(sheet=nm)
            formulas = []
            for form in ('quoted_address', 'abs_address'):
                tc, tr = self.call(getattr, cell, form), self.call(getattr, rng, form)
                if isinstance(tc, Exception) or isinstance(tr, Exception):
                    continue   # reported by reprint
                formulas.append((f'={tc}', 7, 'wb.sheet', dict(case, form=form)))
                formulas.append((f'=SUM({tr})', 13, 'wb.sheet', dict(case, form=form)))
            q = "'" + nm.replace("'", "''") + "'"
            formulas.append((f'={q}!B2+{q}!$C$4', 12, 'wb.sheet', dict(case, form='excel')))
            formulas.append((f'=SUM({q}!B2:{q}!C4)', 13, 'wb.sheet', dict(case, form='excel both')))
            formulas.append((f'={q}!E2', 2, 'wb.cse', dict(case, form='array formula on the sheet')))
            self.evaluate_all(wb, formulas)

    # -- "pair" / "big": the lattice --------------------------------------------
    def op_expect(self, kind, got, want_rect, ok, sheet, case, keep=True):
        """result of & or **: an address, #NULL! (want_rect == []) or #VALUE!"""
        eu = self.eu
        self.seen(kind, case if keep else None)
        if not ok:
            good = isinstance(got, str) and got == eu.VALUE_ERROR
            want = eu.VALUE_ERROR
        elif not want_rect:
            good = isinstance(got, str) and got == eu.NULL_ERROR
            want = eu.NULL_ERROR
        else:
            good = self.is_loc(got, want_rect, sheet)
            want = self.full(tuple(want_rect), sheet)
        if not good:
            self.fail(kind, f'expected {want!r}, got {got!r}', case)

    def drive_pairs(self, vecs, dense):
        eu = self.eu
        C = eu.AddressRange.create
        objs = {}

        def obj(rect, sheet, text=None):
            """the address object of a location: from the tuple, or (whole
            columns / rows) from the short text"""
            key = (tuple(rect), sheet, text)
            if key not in objs:
                objs[key] = self.mk(rect, sheet) if text is None else \
                    C(self.full_text(sheet, text))
            return objs[key]
        # the sheet rule is exported once (with the unit pairs a = b)
        combos = next(vec['combos'] for vec in vecs if vec['combos'])
        if len(combos) != 9:
            raise tlc.MachineryFailure(f'sheet combinations: {len(combos)}')
        if not dense:      # the sparse grid is large: four of the nine there
            combos = [x for x in combos if (T(x['sa']), T(x['sb'])) in (
                ('', ''), ('S', 'S'), ('S', ''), ('S', 'T'))]
        for n, vec in enumerate(vecs):
            a, b, inter, union = vec['a'], vec['b'], vec['inter'], vec['union']
            if n < 2:
                self.v.sample(dict(m=vec['m'], a=a, b=b, inter=inter or '#NULL!', union=union))
            for name, rect in (('short_a', a), ('short_b', b), ('short_i', inter), ('short_u', union)):
                if sorted(map(T, vec[name])) != sorted(t for t, _ in self.shorts(tuple(rect or [0] * 4))):
                    raise tlc.MachineryFailure(f'harness rendering differs from spec: {vec[name]}')
            for combo in combos:
                sa, sb, ok, sh = T(combo['sa']), T(combo['sb']), combo['ok'], T(combo['sh'])
                A, B = obj(a, sa), obj(b, sb)
                case = dict(a=self.full(tuple(a), sa), b=self.full(tuple(b), sb))
                self.op_expect('inter', self.call(lambda: A & B), inter, ok, sh, dict(case, op='&'))
                self.op_expect('union', self.call(lambda: A ** B), union, ok, sh, dict(case, op='**'))
                # whole columns / rows written the short way, on either side
                for ta in [None] + sorted(map(T, vec['short_a'])):
                    for tb in [None] + sorted(map(T, vec['short_b'])):
                        if ta is None and tb is None:
                            continue
                        As, Bs = self.call(obj, a, sa, ta), self.call(obj, b, sb, tb)
                        cs = dict(a=self.full_text(sa, ta or A.coordinate),
                                  b=self.full_text(sb, tb or B.coordinate))
                        if isinstance(As, Exception) or isinstance(Bs, Exception):
                            self.seen('inter', dict(cs, op='&'))
                            self.fail('inter', f'cannot construct: got {As!r} {Bs!r}', cs)
                            continue
                        self.op_expect('inter', self.call(lambda: As & Bs), inter, ok, sh,
                                       dict(cs, op='&'))
                        self.op_expect('union', self.call(lambda: As ** Bs), union, ok, sh,
                                       dict(cs, op='**'))
                        if sa == sb:
                            self.op_expect('inter', self.call(lambda: As.address & Bs), inter, ok, sh,
                                           dict(cs, op='text &'))
                            self.op_expect('union', self.call(lambda: As ** Bs.address), union, ok,
                                           sh, dict(cs, op='** text'))
                            self.expect_eq('subset', self.call(
                                lambda: (self.loc_of(As & Bs) == self.loc_of(As),
                                         self.loc_of(As ** Bs) == self.loc_of(Bs))),
                                (vec['sub'], vec['sub']), dict(cs, op='a&b is a, a**b is b'))
                if sa == sb:
                    # text operands on either side, and the sub-rectangle tests
                    self.op_expect('inter', self.call(lambda: A & B.address), inter, ok, sh,
                                   dict(case, op='& text'))
                    self.op_expect('inter', self.call(lambda: A.address & B), inter, ok, sh,
                                   dict(case, op='text &'))
                    self.op_expect('union', self.call(lambda: A ** B.address), union, ok, sh,
                                   dict(case, op='** text'))
                    self.op_expect('union', self.call(lambda: A.address ** B), union, ok, sh,
                                   dict(case, op='text **'))
                    self.expect_eq('subset', self.call(lambda: ((A & B) == A, (A ** B) == B)),
                                   (vec['sub'], vec['sub']), dict(case, op='a&b==a, a**b==b'))
                    # the range operator written with colons; the operands
                    # may come in any order (B2:A1 is A1:B2)
                    text = f'{A.coordinate}:{B.coordinate}'
                    self.expect_loc('multicolon', self.call(C, self.full_text(sa, text)),
                                    union, sa, dict(text=self.full_text(sa, text)))
                    if not sa:
                        self.expect_loc('multicolon', self.call(C, text, sheet='S'), union, 'S',
                                        dict(text=text, sheet='S'))
            h, w = a[3] - a[1] + 1, a[2] - a[0] + 1
            for ta in [None] + sorted(map(T, vec['short_a'])):
                A = self.call(obj, a, 'S', ta)
                if isinstance(A, Exception):
                    continue        # reported above
                for pc, pr, flag in vec['cells_in_a']:
                    case = dict(a=A.address, cell=self.a1cell(pc, pr))
                    cell = obj((pc, pr, pc, pr), 'S')
                    self.expect_eq('contains', self.call(lambda: cell in A), flag, case)
                    self.expect_eq('contains', self.call(lambda: cell.address in A), flag, case)
                self.expect_eq('size', self.call(lambda: tuple(A.size)), (h, w), dict(a=A.address))
            A = obj(a, 'S')
            for text in map(T, vec['corners']):
                self.expect_loc('range.corners', self.call(C, text, sheet='S'), a, 'S',
                                dict(text=text, sheet='S'))
            if vec['rows']:
                want = tuple(tuple(obj((c, r, c, r), 'S') for c, r in row) for row in vec['rows'])
                wantc = tuple(tuple(obj((c, r, c, r), 'S') for c, r in col) for col in vec['cols'])
                case = dict(a=A.address)
                self.expect_eq('cells', self.call(lambda: tuple(A.resolve_range)), want, case)
                if not isinstance(A, eu.AddressCell):
                    # the rows / columns are generators of generators: whatever
                    # the order they are consumed in, the same cells come out
                    for how, consume in SCHEDULES:
                        self.expect_eq('cells', self.call(lambda: consume(A.rows)), want,
                                       dict(case, by='rows', consumed=how))
                        self.expect_eq('cells', self.call(lambda: consume(A.cols)), wantc,
                                       dict(case, by='cols', consumed=how))
                    self.expect_eq('cells', self.call(lambda: tuple(zip(*A.rows))), wantc,
                                   dict(case, by='rows', consumed='zip(*rows) is the columns'))
                self.expect_eq('cells', self.call(
                    lambda: (len(want) * len(want[0]), all(x in A for row in want for x in row))),
                    (h * w, True), dict(case, by='count'))

    @staticmethod
    def full_text(sheet, text):
        return (sheet + '!' if sheet else '') + text

    def drive_pair_formulas(self, vecs, n):
        """=SUM(a b) and =SUM(a:b) on a sheet whose grid cells hold powers of
        two: the sum names the set of cells that was read"""
        wb, main = self.workbook('S')
        bit = {}
        for r in range(1, n + 1):
            for c in range(1, n + 1):
                bit[(c, r)] = 1 << len(bit)
                main.cell(row=r, column=c).value = bit[(c, r)]

        def total(rect):
            return sum(x for (c, r), x in bit.items()
                       if rect[0] <= c <= rect[2] and rect[1] <= r <= rect[3])
        formulas = []
        for vec in vecs:
            ta, tb = self.a1(tuple(vec['a'])), self.a1(tuple(vec['b']))
            case = dict(a=ta, b=tb)
            want = total(vec['inter']) if vec['inter'] else self.eu.NULL_ERROR
            formulas.append((f'=SUM({ta} {tb})', want, 'wb.inter', case))
            formulas.append((f'=SUM({ta}:{tb})', total(vec['union']), 'wb.union', case))
            for text in map(T, vec['corners']):       # the range named by other corners
                formulas.append((f'=SUM({text})', total(vec['a']), 'wb.corners', dict(text=text)))
        self.evaluate_all(wb, formulas, main='S')
        return total

    def drive_band_formulas(self, vecs, limit):
        """=SUM(a b) with whole columns / rows written the short way, on a sheet whose used area is small (pycel reads an unbounded
        range as far as the used area goes): vectors of the sparse grid whose
        operands are whole columns / rows or lie in the used area"""
        cols = [c for c in sorted({x for vec in vecs for x in (vec['a'][0], vec['a'][2])})
                if c < MAX_COL]
        wb, main = self.workbook()
        ws = wb.create_sheet('W')
        bit = {}
        for r in (1, 2):
            for c in cols:
                bit[(c, r)] = 1 << len(bit)
                ws.cell(row=r, column=c).value = bit[(c, r)]

        def total(rect):
            return sum(x for (c, r), x in bit.items()
                       if rect[0] <= c <= rect[2] and rect[1] <= r <= rect[3])

        def usable(rect, short):
            c1, r1, c2, r2 = rect
            return ((c2 <= cols[-1] or (c1, c2) == (1, MAX_COL)) and
                    (r2 <= 2 or (r1, r2) == (1, MAX_ROW)) and (short or r2 <= 2 and c2 <= cols[-1]))
        picks = [vec for vec in vecs if (vec['short_a'] or vec['short_b'])
                 and usable(vec['a'], vec['short_a']) and usable(vec['b'], vec['short_b'])
                 and len(vec['short_a']) < 2 and len(vec['short_b']) < 2]
        self.rnd.shuffle(picks)
        formulas = []
        for vec in picks[:limit]:
            ta = T(vec['short_a'][0]) if vec['short_a'] else self.a1(tuple(vec['a']))
            tb = T(vec['short_b'][0]) if vec['short_b'] else self.a1(tuple(vec['b']))
            case = dict(a=ta, b=tb)
            want = total(vec['inter']) if vec['inter'] else self.eu.NULL_ERROR
            formulas.append((f'=SUM(W!{ta} W!{tb})', want, 'wb.band inter', case))
        self.evaluate_all(wb, formulas)
        return len(formulas)

    # -- "triple": associativity ---------------------------------------------------
    def drive_triples(self, triples, budget, n, keep=True):
        """triples: iterable of (a, b, c, inter, union)"""
        eu = self.eu
        objs = {}

        def obj(rect, sheet):
            key = (rect, sheet)
            if key not in objs:
                objs[key] = self.mk(rect, sheet)
            return objs[key]
        picks = []
        count = 0
        inner = {}      # the inner operation of a triple is a pair: computed once

        def pair(op, P, Q):
            key = (op, P, Q)
            if key not in inner:
                inner[key] = self.call((lambda: P & Q) if op == '&' else (lambda: P ** Q))
            if isinstance(inner[key], Exception):
                raise inner[key]
            return inner[key]
        for a, b, c, inter, union in triples:
            count += 1
            sheets = self.rnd.choice(SHEET3)
            A, B, X = obj(a, sheets[0]), obj(b, sheets[1]), obj(c, sheets[2])
            sh = 'S' if 'S' in sheets else ''
            case = dict(a=A.address, b=B.address, c=X.address)
            self.op_expect('inter3', self.call(lambda: pair('&', A, B) & X), inter, True, sh,
                           dict(case, op='(a&b)&c'), keep)
            self.op_expect('inter3', self.call(lambda: A & pair('&', B, X)), inter, True, sh,
                           dict(case, op='a&(b&c)'), keep)
            self.op_expect('union3', self.call(lambda: pair('**', A, B) ** X), union, True, sh,
                           dict(case, op='(a**b)**c'), keep)
            self.op_expect('union3', self.call(lambda: A ** pair('**', B, X)), union, True, sh,
                           dict(case, op='a**(b**c)'), keep)
            if self.rnd.random() < budget:
                picks.append((a, b, c, inter, union))
        if count < 3:
            self.v.sample(dict(m='triple', count=count))
        # through formulas: the space and colon operators, both groupings
        wb, main = self.workbook('S')
        bit = {}
        for r in range(1, n + 1):
            for c in range(1, n + 1):
                bit[(c, r)] = 1 << len(bit)
                main.cell(row=r, column=c).value = bit[(c, r)]

        def total(rect):
            return sum(x for (c, r), x in bit.items()
                       if rect[0] <= c <= rect[2] and rect[1] <= r <= rect[3])
        formulas = []
        for a, b, c, inter, union in picks:
            ta, tb, tc = self.a1(a), self.a1(b), self.a1(c)
            case = dict(a=ta, b=tb, c=tc)
            want = total(inter) if inter else eu.NULL_ERROR
            formulas.append((f'=SUM({ta} {tb} {tc})', want, 'wb.inter3', case))
            formulas.append((f'=SUM({ta} ({tb} {tc}))', want, 'wb.inter3', case))
            formulas.append((f'=SUM({ta}:{tb}:{tc})', total(union), 'wb.union3', case))
        self.evaluate_all(wb, formulas, main='S')
        return count


def _last_first(outer):
    inner = list(outer)
    return tuple(reversed([tuple(x) for x in reversed(inner)]))


def _interleaved(outer):
    inner = [iter(x) for x in outer]
    cols = list(zip(*inner))              # one cell of each in turn
    return tuple(zip(*cols)) if cols else tuple(() for _ in inner)


# ways to consume a generator of generators
SCHEDULES = (
    ('nested', lambda outer: tuple(tuple(x) for x in outer)),
    ('all outer first', lambda outer: tuple(tuple(x) for x in list(outer))),
    ('last first', _last_first),
    ('interleaved', _interleaved),
)

SHEET3 = [('', '', ''), ('S', 'S', 'S'), ('S', '', ''), ('', 'S', ''), ('', '', 'S'),
          ('S', 'S', ''), ('', 'S', 'S'), ('S', '', 'S')]


def not_judged(drv):
    """observations on inputs outside the statement's quantifier (recorded in
    the evidence file, never part of the verdict)"""
    eu = drv.eu
    out = {}

    def obs(name, fn):
        try:
            out[name] = repr(fn())[:200]
        except Exception as exc:   # noqa
            out[name] = f'raises {type(exc).__name__}: {exc}'[:200]
    obs("rows of '1:1' (an unbounded range is not enumerated: resolve_range asserts)",
        lambda: [[c.address for c in row][:3] for row in eu.AddressRange('1:1').rows][:2])
    obs("'C[-2]' alone (a whole column in R1C1; the suite pins 'R' and 'C' as errors)",
        lambda: eu.AddressRange.create('C[-2]', cell=Anchor(5, 5)))
    obs("'A1:B' (a cell and a column)", lambda: eu.AddressRange.create('A1:B'))
    obs("'t!A1' in AddressRange('s!A1:B2')", lambda: 't!A1' in eu.AddressRange('s!A1:B2'))
    obs("'S!A1:S!B2' (unquoted sheet on both corners)", lambda: eu.AddressRange('S!A1:S!B2'))

    def real_cell():
        from pycel.excelcompiler import _Cell
        return eu.AddressRange.create('R[1]C[1]', cell=_Cell(eu.AddressCell('S!B2')))
    obs("relative R1C1 anchored at a real excelcompiler._Cell", real_cell)
    return out


def run(tier, seed):
    v = Verdict(PID, tier, seed)
    rnd = random.Random(seed)
    t0 = time.time()
    if tier == 'quick':
        res, vectors = run_tlc('Address_mc', 'MC_Address', 'Address_mc.cfg', tlc.SPEC,
                               v, ACTIONS, workers=16)
        if len(vectors) < res.distinct:
            raise tlc.MachineryFailure(
                f'export incomplete: {len(vectors)} vectors for {res.distinct} states')
        vec4 = None
    else:
        d = thorough_wrapper(rnd)
        res, vectors = run_tlc('Address_T', 'MC_AddressT', os.path.join(d, 'T.cfg'), d,
                               v, ACTIONS, workers=16)
        if len(vectors) < res.distinct:
            raise tlc.MachineryFailure(
                f'export incomplete: {len(vectors)} vectors for {res.distinct} states')
        res4, vec4 = run_tlc('Address_big (4x4 grid)', 'MC_Address', 'Address_big.cfg',
                             tlc.SPEC, v, ACTIONS[4:], workers=16)
        if res4.distinct != 10 ** 4 + 10 ** 6 or len(vec4) < 10 ** 4:
            raise tlc.MachineryFailure(
                f'4x4 run: {res4.distinct} states, {len(vec4)} pair vectors')
    t_tlc = time.time() - t0
    by = {}
    for vec in vectors:
        by.setdefault(vec['m'], []).append(vec)
    want = {'col': MAX_COL, 'pair': 36 ** 2, 'triple': 36 ** 3}
    for m in ('col', 'coord', 'sheet', 'pair', 'big', 'triple'):
        if len(by.get(m, [])) < want.get(m, 1):
            raise tlc.MachineryFailure(f'mode {m}: {len(by.get(m, []))} vectors')

    drv = Driver(v, tier, rnd)
    walls = {}

    def timed(label, fn, *a, **k):
        t = time.time()
        out = fn(*a, **k)
        walls[label] = round(walls.get(label, 0) + time.time() - t, 1)
        return out
    timed('cols', drv.drive_cols, by['col'])
    names = timed('sheets', drv.drive_sheets, by['sheet'])
    timed('coords', drv.drive_coords, by['coord'],
          [n for n in names if len(n) > 1][:40] or ['S'])
    timed('coord formulas', drv.drive_coord_formulas, by['coord'])
    timed('sheet workbooks', drv.drive_sheet_workbooks, names)
    timed('pairs', drv.drive_pairs, by['pair'], True)
    timed('pair formulas', drv.drive_pair_formulas, by['pair'], 3)
    timed('big pairs', drv.drive_pairs, by['big'], False)
    n_band = timed('band formulas', drv.drive_band_formulas, by['big'],
                   60 if tier == 'quick' else 400)
    n3 = timed(
        'triples', drv.drive_triples,
        ((tuple(t['a']), tuple(t['b']), tuple(t['c']), tuple(t['inter']), tuple(t['union']))
         for t in by['triple']),
        budget=1500 / 36 ** 3 if tier == 'quick' else 6000 / 36 ** 3, n=3)
    n4 = 0
    if vec4 is not None:
        # 4x4: TLC checked the laws on all 10^6 triples; the expected value of
        # a triple is composed from the exported table of pairs
        timed('pairs 4x4', drv.drive_pairs, vec4, True)
        timed('pair formulas 4x4', drv.drive_pair_formulas, vec4, 4)
        table_i, table_u = {}, {}
        for p in vec4:
            table_i[(tuple(p['a']), tuple(p['b']))] = tuple(p['inter'])
            table_u[(tuple(p['a']), tuple(p['b']))] = tuple(p['union'])
        rects = sorted({k[0] for k in table_i})

        def triples4():
            for a in rects:
                for b in rects:
                    ab_i, ab_u = table_i[(a, b)], table_u[(a, b)]
                    for c in rects:
                        yield (a, b, c, table_i[(ab_i, c)] if ab_i else (),
                               table_u[(ab_u, c)])
        n4 = timed('triples 4x4', drv.drive_triples, triples4(), budget=4000 / 10 ** 6, n=4,
                   keep=False)

    v.extra.update(
        exhaustive=True,
        bounds=dict(columns='1..16384 (all)', grid='3x3: 36 rectangles, 1296 pairs, 46656 triples'
                    + ('; 4x4: 100 rectangles, 10^4 pairs, 10^6 triples' if vec4 else ''),
                    coordinate_states=len(by['coord']), sheet_names=len(names),
                    big_pairs=len(by['big'])),
        vectors={m: len(x) for m, x in by.items()}, triples_3x3=n3, triples_4x4=n4,
        band_formulas=n_band,
        checks_by_kind=drv.counts, skipped=drv.skipped,
        discrepancies_total=sum(drv.failed.values()),
        discrepancies_by_kind={f'{k} -> {g}': n for (k, g), n in sorted(drv.failed.items())},
        coverage_actions={k: list(c) for k, c in res.coverage.items() if k in ACTIONS},
        tlc_wall_s=round(t_tlc, 1), driver_wall_s=walls,
        not_judged=not_judged(drv),
        rule='one case = (kind of check, input); the oracle is the value of the '
             'Address.tla definitions exported by TLC; a raise counts as a wrong answer')
    # the first of every kind of discrepancy first (finish() prints twenty)
    v.violations.sort(key=lambda x: x['case'].get('nth', 0))
    v.traces = len(vectors) + (len(vec4) if vec4 else 0) + n4
    v.assumptions = [
        'TLC evaluates the Address.tla definitions correctly',
        'the anchor of a relative R1C1 reference is an object with .row and .col_idx '
        '(as the pinned suite uses); a real excelcompiler._Cell is recorded under not_judged',
        'sheet names are compared case-sensitively (as pycel does)']
    return v.finish()


def replay(path):
    """re-run the library call recorded in a replay file (kinds that carry
    their input as text)"""
    from pycel import excelutil as eu
    with open(path) as f:
        rec = json.load(f)
    case = rec.get('case', {})
    print(rec.get('desc'))
    try:
        if 'text' in case:
            cell = Anchor(*case['anchor']) if 'anchor' in case else None
            print('now:', repr(eu.AddressRange.create(case['text'], sheet=case.get('sheet', ''),
                                                       cell=cell)))
        elif 'op' in case and 'a' in case:
            a, b = eu.AddressRange(case['a']), eu.AddressRange(case['b'])
            if 'c' in case:
                c = eu.AddressRange(case['c'])
                print('now:', repr({'(a&b)&c': lambda: (a & b) & c, 'a&(b&c)': lambda: a & (b & c),
                                    '(a**b)**c': lambda: (a ** b) ** c,
                                    'a**(b**c)': lambda: a ** (b ** c)}[case['op']]()))
            else:
                print('now:', repr(a & b), repr(a ** b))
        else:
            print('no library replay for this kind; see the case:', json.dumps(case))
    except Exception as exc:   # noqa
        print('now raises:', repr(exc))
    return 0
