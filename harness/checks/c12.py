"""C12 -- validate_calcs reports exactly the stored results that disagree.

spec/Validate.tla models the work-list algorithm over the Engine model with
stored results; Init ranges over (perturbed cell, stored value) x output list
x tolerance; TLC checks the report relation (ConsistentEmpty, PerturbedNamed,
OnlyDependants, UnevaluableReported) on every behaviour and exports the final
report.  Each case becomes a real .xlsx file whose stored results are patched
accordingly; validate_calcs is run on it.  VERDICT: the returned dict
satisfies the report relation of the statement.  BINDING: the mismatch
entries equal the model's (difference = NOTE spec-drift).
"""
import contextlib
import io
import itertools
import json
import os
import random

from harness import engine, parallel, tlc, workbooks as W, xl
from harness.evidence import Verdict

PID = 'C12'


def desc_of(wb, cell):
    """cell and everything that depends on it"""
    prec = {}
    n = W.nodes(wb)
    for f, d in wb['formulas'].items():
        prec[f] = set(d[1]) if d[0] == 'Plus' else {d[1]}
    for r, rows in wb.get('ranges', {}).items():
        prec[r] = {c for row in rows for c in row}
    for r, (s, k) in wb.get('cse', {}).items():
        prec[r] = {s}
        for row in W.cse_members(r):
            for c in row:
                prec[c] = {r}
    for a, r in wb.get('aliases', {}).items():
        prec[a] = {r}
    out, changed = {cell}, True
    while changed:
        changed = False
        for x, ps in prec.items():
            if x not in out and ps & out:
                out.add(x)
                changed = True
    return out


def perturb_values(fresh):
    """stored-result alterations of each class for a cell whose value is fresh"""
    out = []
    if isinstance(fresh, bool):
        return [7, 'zz']
    if isinstance(fresh, int):
        out.append(fresh + 7)
        out.append('zz')
        out.append('#N/A')
        if fresh not in (0, 1):
            out.append(True)
        if abs(fresh) > 2:
            out.append(0)           # a falsy stored result is still a stored result
    else:
        out += ['zz', 99, '#N/A', 0]
    return out


def job(arg):
    name, seed, n_out, broken_sets = arg
    rnd = random.Random(seed)
    wb = W.WORKBOOKS[name]
    n = W.nodes(wb)
    forms = [f for f in n['formulas']]
    oracle = engine.Oracle(wb)
    fresh = {k: v for k, (st, v) in oracle.values(dict(wb['inputs'])).items()}
    outlists = [[f] for f in forms]
    pairs = [list(c) for c in itertools.permutations(forms, 2)]
    rnd.shuffle(pairs)
    outlists += pairs[:n_out] + [list(forms)]
    perturbs = [(f, v) for f in forms for v in perturb_values(fresh[f])]
    out = dict(name=name, tlc=[], violations=[], notes=[], cases=0, keys=0, drift=0,
               sample=None, reports=0)
    workdir = tlc.new_scratch('c12')
    for bi, broken in enumerate(broken_sets):
        res, reports = engine.run_validate_model(name, wb, outlists, [0, 2], perturbs, broken)
        out['tlc'].append(dict(run=f'Validate {name} broken={broken}', distinct=res.distinct,
                               generated=res.generated, depth=res.depth,
                               wall_s=round(res.wall, 2)))
        expected = len(outlists) * 2 * (len(perturbs) + 1)
        if len(reports) != expected:
            raise tlc.MachineryFailure(f'{len(reports)} reports exported, expected {expected}')
        for rep in reports:
            out['cases'] += 1
            out['keys'] += 1
            p_cell, p_val = rep['p'][0], rep['p'][1]
            perturbed = p_cell != ''
            cells, arrays = W.cells(wb)
            for i, b in enumerate(broken):
                fn = 'NOSUCHFN' if (i + bi) % 2 == 0 else 'VFAIL'
                cells[b] = f'={fn}({cells[b][1:]})'
            results = {f: fresh[f] for f in forms}
            if perturbed:
                results[p_cell] = W.py_val(p_val)
            key = json.dumps([sorted(cells.items()), sorted(results.items(), key=str)],
                             default=str)
            path = os.path.join(workdir, f'v{abs(hash(key))}.xlsx')
            if not os.path.exists(path):
                xl.write_xlsx_with_results(path, cells, results, arrays=arrays)
            from pycel import ExcelCompiler
            tol = rep['tol'] or None
            case = dict(workbook=name, cells=cells, stored=results, outputs=rep['outs'],
                        tolerance=tol, perturbed=[p_cell, W.py_val(p_val) if perturbed else None],
                        broken=broken)
            try:
                m = ExcelCompiler(path, plugins=('harness.plugin_fail',))
                with contextlib.redirect_stdout(io.StringIO()):
                    got = m.validate_calcs(output_addrs=[W.addr(o) for o in rep['outs']],
                                           tolerance=tol)
            except Exception as exc:          # noqa
                out['violations'].append((f'validate_calcs raised {type(exc).__name__}: {exc}', case))
                continue
            if out['sample'] is None and perturbed:
                out['sample'] = dict(case, report=repr(got)[:400])
            mism = {k.split('!')[1]: v for k, v in got.get('mismatch', {}).items()}
            unevaluable = set()
            for bucket in ('exceptions', 'not-implemented'):
                for lst in got.get(bucket, {}).values():
                    unevaluable.update(a.split('!')[1] for a, _, _ in lst)
            other = set(got) - {'mismatch', 'exceptions', 'not-implemented'}
            # ---- the report relation of the statement ----
            if not perturbed and not broken and got != {}:
                out['violations'].append((f'consistent workbook, report not empty: {got!r}', case))
            if perturbed:
                reach = set(rep['reach'])
                want_calc = fresh[p_cell]
                # close_enough() treats logicals as 1/0: a logical stored where a
                # number within the tolerance is computed is not "altered by more
                # than the tolerance" (DESIGN 5: 1<->TRUE family, not judged)
                pv_, wc_ = W.py_val(p_val), want_calc
                if isinstance(wc_, int) and isinstance(pv_, int):
                    diff = abs(int(wc_) - int(pv_))
                    # tolerance None means "relatively close" (1e-5) in close_enough()
                    altered = diff > tol if tol else diff > 1e-5 * max(abs(int(wc_)), abs(int(pv_)))
                else:
                    altered = True
                if p_cell in reach and p_cell not in unevaluable and altered:
                    mm = mism.get(p_cell)
                    if mm is None:
                        out['violations'].append((
                            f'stored result of {p_cell} altered to {W.py_val(p_val)!r} but the '
                            f'report does not name it: {got!r}', case))
                    elif not (xl.same_value(mm.original, W.py_val(p_val)) and
                              xl.same_value(mm.calced, want_calc)):
                        out['violations'].append((
                            f'{p_cell} reported with (stored, recomputed) = ({mm.original!r}, '
                            f'{mm.calced!r}), expected ({W.py_val(p_val)!r}, {want_calc!r})', case))
                extra = set(mism) - desc_of(wb, p_cell)
                if extra:
                    out['violations'].append((
                        f'reported cells {sorted(extra)} do not depend on the altered cell '
                        f'{p_cell}', case))
            elif mism:
                out['violations'].append((f'nothing altered but mismatches reported: {mism}', case))
            for b in broken:
                if b in rep['reach'] and b not in unevaluable:
                    out['violations'].append((
                        f'{b} cannot be evaluated but is not under exceptions/not-implemented: '
                        f'{got!r}', case))
            if other:
                out['violations'].append((f'unknown report sections {other}', case))
            # ---- binding: the model's report ----
            model_m = {m_[0]: (W.py_val(m_[1]), W.py_val(m_[2])) for m_ in rep['mism']}
            real_m = {k: (v.original, v.calced) for k, v in mism.items()}
            if (set(model_m) != set(real_m) or set(rep['excs']) != unevaluable) and out['drift'] < 3:
                out['drift'] += 1
                out['notes'].append(f'spec-drift {name}: model report {model_m} excs {rep["excs"]} '
                                    f'vs real {real_m} excs {sorted(unevaluable)} for outs '
                                    f'{rep["outs"]} p {rep["p"]} broken {broken}')
        out['reports'] += len(reports)
    out['violations'] = out['violations'][:6]
    return out


def run(tier, seed):
    v = Verdict(PID, tier, seed)
    if tier == 'quick':
        jobs = [('chain', seed, 3, [[], ['B1']]), ('nested', seed, 3, [[], ['B2'], ['C1']]),
                ('range', seed, 2, [[]]), ('cse', seed, 2, [[]]), ('big', seed, 2, [[], ['C1']]),
                ('csef', seed, 2, [[]])]
    else:
        jobs = [(name, seed, 12, [[]] + [[f] for f in sorted(W.WORKBOOKS[name]['formulas'])])
                for name in ('chain', 'nested', 'range', 'cse', 'grid', 'alias', 'trimex', 'big', 'csef')]
    results = parallel.run_jobs(job, jobs)
    for r in results:
        for t in r['tlc']:
            v.tlc_runs.append(t)
            v.states += t['distinct']
            v.transitions += t['generated']
        v.evaluations += r['cases']
        v.distinct.update((r['name'], i) for i in range(r['keys']))
        v.traces += r['reports']
        for n in r['notes']:
            v.note(n)
        for desc, case in r['violations']:
            v.violation(desc, case)
        if r['sample']:
            v.sample(r['sample'], limit=3)
    v.extra.update(
        exhaustive=False,
        rule='one case = one (workbook, altered cell and stored value | none, output list, '
             'tolerance, broken cells) behaviour of Validate.tla, realised as an .xlsx file with '
             'patched stored results and run through validate_calcs; every formula cell is '
             'altered in turn to a number beyond the tolerance, a text, an error and a logical')
    v.assumptions = ['1 <-> TRUE and 0 <-> FALSE alterations are excluded (python equality)',
                     'tolerance is None or 2; altered numbers differ by 7']
    return v.finish()
