"""C12 -- validate_calcs reports exactly the stored results that disagree.

spec/Validate.tla models the work-list algorithm over the Engine model with
stored results; Init ranges over (perturbed cell, stored value) x output list
x tolerance (None, 0, 2); the workbook calculates normally or iteratively
(calculation.iterate, constant Iterate); TLC checks the report relation
(ConsistentEmpty, PerturbedNamed, OnlyDependants, UnevaluableReported) on
every behaviour and exports the final report.  Each case becomes a real .xlsx
file whose stored results (and calculation mode) are patched accordingly;
validate_calcs is run on it.  VERDICT: the returned dict
satisfies the report relation of the statement.  BINDING: the mismatch
entries equal the model's (difference = NOTE spec-drift).
"""
import contextlib
import io
import itertools
import json
import os
import random

from harness import engine, parallel, tlc, workbooks as W, xl
from harness.evidence import Verdict

PID = 'C12'


def desc_of(wb, cell):
    """cell and everything that depends on it"""
    prec = {}
    n = W.nodes(wb)
    for f, d in wb['formulas'].items():
        prec[f] = set(d[1]) if d[0] == 'Plus' else {d[1]}
    for r, rows in wb.get('ranges', {}).items():
        prec[r] = {c for row in rows for c in row}
    for r, (s, k) in wb.get('cse', {}).items():
        prec[r] = {s}
        for row in W.cse_members(r):
            for c in row:
                prec[c] = {r}
    for a, r in wb.get('aliases', {}).items():
        prec[a] = {r}
    out, changed = {cell}, True
    while changed:
        changed = False
        for x, ps in prec.items():
            if x not in out and ps & out:
                out.add(x)
                changed = True
    return out


def perturb_values(fresh):
    """stored-result alterations of each class for a cell whose value is fresh"""
    out = []
    if isinstance(fresh, bool):
        return [7, 'zz']
    if isinstance(fresh, int):
        out.append(fresh + 7)
        out.append('zz')
        out.append('#N/A')
        if fresh not in (0, 1):
            out.append(True)
        if abs(fresh) > 2:
            out.append(0)           # a falsy stored result is still a stored result
    else:
        out += ['zz', 99, '#N/A', 0]
    return out


NONE_TOL = -1            # Validate.tla: tolerance None (the default)
ITERATE = (100, 0.001)   # calcPr iterateCount / iterateDelta of an iterative workbook


def run_model(name, wb, outlists, tols, perturbs, broken, iterate, timeout=1800):
    """TLC explores validate_calcs for every (perturbation, outputs, tol) choice;
    returns (tlc result, list of exported final reports)"""
    d = tlc.new_scratch('val')
    mod = f'MC_{name}_val'
    extra = '\n'.join([
        'MCOutputLists == ' + W.tla_set(W.tla_seq(map(W.q, o)) for o in outlists),
        'MCTols == ' + W.tla_set(map(str, tols)),
        'MCPerturbs == ' + W.tla_set(f'<<{W.q(c)}, {W.tla_val(v)}>>' for c, v in perturbs),
        'MCBroken == ' + W.tla_set(map(W.q, broken)),
        'MCIterate == ' + ('TRUE' if iterate else 'FALSE'),
    ])
    with open(os.path.join(d, mod + '.tla'), 'w') as f:
        f.write(W.tla_constants(wb, [1], 'Stored', mod, extends='Validate', extra=extra))
    with open(os.path.join(d, 'v.cfg'), 'w') as f:
        f.write(W.CONST_CFG + '  OutputLists <- MCOutputLists\n  Tols <- MCTols\n'
                '  Perturbs <- MCPerturbs\n  Broken <- MCBroken\n  Iterate <- MCIterate\n'
                'SPECIFICATION VSpec\n'
                'INVARIANT ConsistentEmpty\nINVARIANT PerturbedNamed\n'
                'INVARIANT OnlyDependants\nINVARIANT UnevaluableReported\n'
                'INVARIANT Export\n')
    res = tlc.run(mod, os.path.join(d, 'v.cfg'), spec_dir=d, workers=1,
                  library=tlc.SPEC, timeout=timeout, heap='3g')
    if not res.ok:
        raise tlc.MachineryFailure(
            f'Validate model {name} violates {res.violated}:\n'
            + '\n'.join(l for l in res.stdout.splitlines()
                        if not l.startswith('"'))[-3000:])
    return res, res.json


def job(arg):
    name, seed, n_out, runs = arg
    rnd = random.Random(seed)
    wb = W.WORKBOOKS[name]
    n = W.nodes(wb)
    forms = [f for f in n['formulas']]
    oracle = engine.Oracle(wb)
    fresh = {k: v for k, (st, v) in oracle.values(dict(wb['inputs'])).items()}
    outlists = [[f] for f in forms]
    pairs = [list(c) for c in itertools.permutations(forms, 2)]
    rnd.shuffle(pairs)
    outlists += pairs[:n_out] + [list(forms)]
    perturbs = [(f, v) for f in forms for v in perturb_values(fresh[f])]
    out = dict(name=name, run=repr(runs), tlc=[], violations=[], notes=[], cases=0, keys=0,
               drift=0, sample=None, reports=0)
    workdir = tlc.new_scratch('c12')
    for broken, iterate, tols, bi in runs:
        res, reports = run_model(name, wb, outlists, tols, perturbs, broken, iterate)
        out['tlc'].append(dict(run=f'Validate {name} broken={broken} iterate={iterate} tols={tols}',
                               distinct=res.distinct,
                               generated=res.generated, depth=res.depth,
                               wall_s=round(res.wall, 2)))
        expected = len(outlists) * len(tols) * (len(perturbs) + 1)
        if len(reports) != expected:
            raise tlc.MachineryFailure(f'{len(reports)} reports exported, expected {expected}')
        for rep in reports:
            out['cases'] += 1
            out['keys'] += 1
            p_cell, p_val = rep['p'][0], rep['p'][1]
            perturbed = p_cell != ''
            cells, arrays = W.cells(wb)
            for i, b in enumerate(broken):
                fn = 'NOSUCHFN' if (i + bi) % 2 == 0 else 'VFAIL'
                cells[b] = f'={fn}({cells[b][1:]})'
            results = {f: fresh[f] for f in forms}
            if perturbed:
                results[p_cell] = W.py_val(p_val)
            key = json.dumps([sorted(cells.items()), sorted(results.items(), key=str), iterate],
                             default=str)
            path = os.path.join(workdir, f'v{abs(hash(key))}.xlsx')
            if not os.path.exists(path):
                xl.write_xlsx_with_results(path, cells, results, arrays=arrays,
                                           iterate=ITERATE if iterate else None)
            from pycel import ExcelCompiler
            tol = None if rep['tol'] == NONE_TOL else rep['tol']
            case = dict(workbook=name, cells=cells, stored=results, outputs=rep['outs'],
                        tolerance=tol, perturbed=[p_cell, W.py_val(p_val) if perturbed else None],
                        broken=broken, iterate=iterate)
            try:
                m = ExcelCompiler(path, plugins=('harness.plugin_fail',))
                with contextlib.redirect_stdout(io.StringIO()):
                    got = m.validate_calcs(output_addrs=[W.addr(o) for o in rep['outs']],
                                           tolerance=tol)
            except Exception as exc:          # noqa
                out['violations'].append((f'validate_calcs raised {type(exc).__name__}: {exc}', case))
                continue
            if out['sample'] is None and perturbed:
                out['sample'] = dict(case, report=repr(got)[:400])
            mism = {k.split('!')[1]: v for k, v in got.get('mismatch', {}).items()}
            unevaluable = set()
            for bucket in ('exceptions', 'not-implemented'):
                for lst in got.get(bucket, {}).values():
                    unevaluable.update(a.split('!')[1] for a, _, _ in lst)
            other = set(got) - {'mismatch', 'exceptions', 'not-implemented'}
            # ---- the report relation of the statement ----
            if not perturbed and not broken and got != {}:
                out['violations'].append((f'consistent workbook, report not empty: {got!r}', case))
            if perturbed:
                reach = set(rep['reach'])
                want_calc = fresh[p_cell]
                # close_enough() treats logicals as 1/0: a logical stored where a
                # number within the tolerance is computed is not "altered by more
                # than the tolerance" (DESIGN 5: 1<->TRUE family, not judged)
                pv_, wc_ = W.py_val(p_val), want_calc
                if isinstance(wc_, int) and isinstance(pv_, int):
                    diff = abs(int(wc_) - int(pv_))
                    # tolerance None means "relatively close" (1e-5) in close_enough()
                    altered = (diff > tol if tol is not None
                               else diff > 1e-5 * max(abs(int(wc_)), abs(int(pv_))))
                else:
                    altered = True
                if p_cell in reach and p_cell not in unevaluable and altered:
                    mm = mism.get(p_cell)
                    if mm is None:
                        out['violations'].append((
                            f'stored result of {p_cell} altered to {W.py_val(p_val)!r} but the '
                            f'report does not name it: {got!r}', case))
                    elif not (xl.same_value(mm.original, W.py_val(p_val)) and
                              xl.same_value(mm.calced, want_calc)):
                        out['violations'].append((
                            f'{p_cell} reported with (stored, recomputed) = ({mm.original!r}, '
                            f'{mm.calced!r}), expected ({W.py_val(p_val)!r}, {want_calc!r})', case))
                extra = set(mism) - desc_of(wb, p_cell)
                if extra:
                    out['violations'].append((
                        f'reported cells {sorted(extra)} do not depend on the altered cell '
                        f'{p_cell}', case))
            elif mism:
                out['violations'].append((f'nothing altered but mismatches reported: {mism}', case))
            for b in broken:
                if b in rep['reach'] and b not in unevaluable:
                    out['violations'].append((
                        f'{b} cannot be evaluated but is not under exceptions/not-implemented: '
                        f'{got!r}', case))
            if other:
                out['violations'].append((f'unknown report sections {other}', case))
            # ---- binding: the model's report ----
            model_m = {m_[0]: (W.py_val(m_[1]), W.py_val(m_[2])) for m_ in rep['mism']}
            real_m = {k: (v.original, v.calced) for k, v in mism.items()}
            if (set(model_m) != set(real_m) or set(rep['excs']) != unevaluable) and out['drift'] < 3:
                out['drift'] += 1
                out['notes'].append(f'spec-drift {name}: model report {model_m} excs {rep["excs"]} '
                                    f'vs real {real_m} excs {sorted(unevaluable)} for outs '
                                    f'{rep["outs"]} p {rep["p"]} broken {broken} iterate {iterate}')
        out['reports'] += len(reports)
    out['violations'] = out['violations'][:6]
    return out


def run(tier, seed):
    v = Verdict(PID, tier, seed)
    N, Z = NONE_TOL, 0
    if tier == 'quick':
        plan = [('chain', 3, [([], False, [N, Z, 2]), (['B1'], False, [N, 2]),
                              ([], True, [N, Z])]),
                ('nested', 3, [([], False, [N, 2]), (['B2'], False, [N, 2]), (['C1'], False, [N, 2]),
                               ([], True, [N]), (['B2'], True, [N])]),
                ('range', 2, [([], False, [N, Z, 2]), ([], True, [N])]),
                ('cse', 2, [([], False, [N, 2])]),
                ('big', 2, [([], False, [N, Z, 2]), (['C1'], False, [N, 2]), ([], True, [Z])]),
                ('csef', 2, [([], False, [N, 2]), ([], True, [N])])]
    else:
        plan = []
        for name in ('chain', 'nested', 'range', 'cse', 'grid', 'alias', 'trimex', 'big', 'csef'):
            singles = [[f] for f in sorted(W.WORKBOOKS[name]['formulas'])]
            plan.append((name, 12,
                         [([], False, [N, Z, 2])] + [(b, False, [N, 2]) for b in singles] +
                         [([], True, [N, Z, 2])] + [(b, True, [N]) for b in singles]))
    # one job per TLC run: the runs of one workbook go to different workers
    jobs = [(name, seed, n_out, [r + (k,)]) for name, n_out, runs in plan
            for k, r in enumerate(runs)]
    results = parallel.run_jobs(job, jobs)
    for r in results:
        for t in r['tlc']:
            v.tlc_runs.append(t)
            v.states += t['distinct']
            v.transitions += t['generated']
        v.evaluations += r['cases']
        v.distinct.update((r['name'], r['run'], i) for i in range(r['keys']))
        v.traces += r['reports']
        for n in r['notes']:
            v.note(n)
        for desc, case in r['violations']:
            v.violation(desc, case)
        if r['sample']:
            v.sample(r['sample'], limit=3)
    v.extra.update(
        exhaustive=False,
        rule='one case = one (workbook, altered cell and stored value | none, output list, '
             'tolerance, broken cells, calculation mode) behaviour of Validate.tla, realised as an .xlsx file with '
             'patched stored results and run through validate_calcs; every formula cell is '
             'altered in turn to a number beyond the tolerance, a text, an error and a logical')
    v.assumptions = ['1 <-> TRUE and 0 <-> FALSE alterations are excluded (python equality)',
                     'tolerance is None, 0 or 2; altered numbers differ by 7',
                     'an iterative workbook is one with calculation.iterate set (100 iterations, '
                     'delta 0.001); the workbooks themselves have no circular reference']
    return v.finish()
