"""C12 -- validate_calcs reports exactly the stored results that disagree.

spec/Validate.tla models the work-list algorithm over the Engine model with
stored results; Init ranges over (perturbed cell, stored value) x output list
x configuration (cells whose evaluation raises, normal or iterative
calculation -- calculation.iterate --, tolerance None, 0, 2); TLC checks the
report relation (ConsistentEmpty, PerturbedNamed, OnlyDependants,
UnevaluableReported) on every behaviour and exports the final report: one TLC
run per workbook.  Each case becomes a real .xlsx file whose stored results
(and calculation mode) are patched accordingly; validate_calcs is run on it.
VERDICT: the returned dict satisfies the report relation of the statement.
BINDING: the mismatch entries equal the model's (difference = NOTE spec-drift).

A stored result is altered to a value of every kind the quantifier lists
(number, text, logical, error), the empty text included (which a workbook
stores as <v></v>), and to the value of the OTHER kind which python takes for
equal: TRUE <-> 1, FALSE <-> 0.  A tolerance bounds the distance of two numbers;
a logical is not a number (=TRUE=1 is FALSE), so such an alteration is an
alteration under every tolerance (Validate.tla, Altered).
"""
import contextlib
import io
import itertools
import json
import os
import random

from harness import engine, parallel, tlc, workbooks as W, xl
from harness.evidence import Verdict

PID = 'C12'

WORKBOOKS = dict(W.WORKBOOKS)
# formula cells whose results are TRUE, FALSE, 0 and 1, each with a dependant
# which tells the logical from the number (Cat: "TRUEx" / "1x")
WORKBOOKS['logic'] = dict(
    inputs={'A1': True, 'A2': False},
    formulas={'B1': ('Idx', 'A1:A2', 1, 1), 'B2': ('Idx', 'A1:A2', 2, 1),
              'C1': ('Plus', ['B1'], 0), 'C2': ('Plus', ['B2'], 0),
              'D1': ('Cat', 'B1'), 'D2': ('Cat', 'C2')},
    ranges={'A1:A2': [['A1'], ['A2']]})


def desc_of(wb, cell):
    """cell and everything that depends on it"""
    prec = {}
    for f, d in wb['formulas'].items():
        prec[f] = set(d[1]) if d[0] == 'Plus' else {d[1]}
    for r, rows in wb.get('ranges', {}).items():
        prec[r] = {c for row in rows for c in row}
    for r, (s, k) in wb.get('cse', {}).items():
        prec[r] = {s}
        for row in W.cse_members(r):
            for c in row:
                prec[c] = {r}
    for a, r in wb.get('aliases', {}).items():
        prec[a] = {r}
    out, changed = {cell}, True
    while changed:
        changed = False
        for x, ps in prec.items():
            if x not in out and ps & out:
                out.add(x)
                changed = True
    return out


def is_number(x):
    return isinstance(x, (int, float)) and not isinstance(x, bool)


def perturb_values(fresh):
    """stored-result alterations of each class for a cell whose value is fresh"""
    if isinstance(fresh, bool):
        # the number python takes for equal, the other logical, a number, texts, an error
        return [int(fresh), not fresh, 7, 'zz', '', '#N/A']
    if isinstance(fresh, int):
        out = [fresh + 7, 'zz', '', '#N/A']
        # a logical: the one python takes for equal to the number, if there is one
        out.append(bool(fresh) if fresh in (0, 1) else True)
        if abs(fresh) > 2:
            out.append(0)           # a falsy stored result is still a stored result
        return out
    out = ['zz', 99, '#N/A', 0, True]
    if fresh != '':
        out.append('')
    return out


def altered(stored, value, tol):
    """Validate.tla Altered: "altered by more than the tolerance" """
    if is_number(stored) and is_number(value):
        diff = abs(stored - value)
        # tolerance None means "relatively close" (1e-5) in close_enough()
        return diff > tol if tol is not None else diff > 1e-5 * max(abs(stored), abs(value))
    return not xl.same_value(stored, value)


NONE_TOL = -1            # Validate.tla: tolerance None (the default)
ITERATE = (100, 0.001)   # calcPr iterateCount / iterateDelta of an iterative workbook


def run_model(name, wb, outlists, perturbs, configs, timeout=1800):
    """TLC explores validate_calcs for every (perturbation, outputs, configuration)
    choice; returns (tlc result, list of exported final reports)"""
    d = tlc.new_scratch('val')
    mod = f'MC_{name}_val'
    extra = '\n'.join([
        'MCOutputLists == ' + W.tla_set(W.tla_seq(map(W.q, o)) for o in outlists),
        'MCPerturbs == ' + W.tla_set(f'<<{W.q(c)}, {W.tla_val(v)}>>' for c, v in perturbs),
        'MCConfigs == ' + W.tla_set(
            f'<<{W.tla_set(map(W.q, b))}, {"TRUE" if it else "FALSE"}, {t}>>'
            for b, it, t in configs),
    ])
    with open(os.path.join(d, mod + '.tla'), 'w') as f:
        f.write(W.tla_constants(wb, [1], 'Stored', mod, extends='Validate', extra=extra))
    with open(os.path.join(d, 'v.cfg'), 'w') as f:
        f.write(W.CONST_CFG + '  OutputLists <- MCOutputLists\n'
                '  Perturbs <- MCPerturbs\n  Configs <- MCConfigs\n'
                'SPECIFICATION VSpec\n'
                'INVARIANT ConsistentEmpty\nINVARIANT PerturbedNamed\n'
                'INVARIANT OnlyDependants\nINVARIANT UnevaluableReported\n'
                'INVARIANT Export\n')
    res = tlc.run(mod, os.path.join(d, 'v.cfg'), spec_dir=d, workers=1,
                  library=tlc.SPEC, timeout=timeout, heap='3g')
    if not res.ok:
        raise tlc.MachineryFailure(
            f'Validate model {name} violates {res.violated}:\n'
            + '\n'.join(l for l in res.stdout.splitlines()
                        if not l.startswith('"'))[-3000:])
    return res, res.json


def model_job(arg):
    """one workbook: the choices, the TLC run, the exported reports"""
    name, seed, n_out, runs = arg
    rnd = random.Random(seed)
    wb = WORKBOOKS[name]
    forms = list(W.nodes(wb)['formulas'])
    oracle = engine.Oracle(wb)
    fresh = {k: v for k, (st, v) in oracle.values(dict(wb['inputs'])).items() if k in forms}
    outlists = [[f] for f in forms]
    pairs = [list(c) for c in itertools.permutations(forms, 2)]
    rnd.shuffle(pairs)
    outlists += pairs[:n_out] + [list(forms)]
    perturbs = [(f, v) for f in forms for v in perturb_values(fresh[f])]
    for f, v in perturbs:
        assert not xl.same_value(fresh[f], v), (f, v)
    configs = [(b, it, t) for b, it, tols in runs for t in tols]
    assert len({(tuple(b), it) for b, it, _ in runs}) == len(runs), runs
    res, reports = run_model(name, wb, outlists, perturbs, configs)
    expected = len(outlists) * len(configs) * (len(perturbs) + 1)
    if len(reports) != expected:
        raise tlc.MachineryFailure(f'{name}: {len(reports)} reports exported, expected {expected}')
    kinds = sorted({f'{xl.typeclass(fresh[f])}->{"empty text" if v == "" else xl.typeclass(v)}'
                    for f, v in perturbs})
    return dict(name=name, fresh=fresh, reports=reports, kinds=kinds,
                tlc=dict(run=f'Validate {name} runs={runs}', distinct=res.distinct,
                         generated=res.generated, depth=res.depth, wall_s=round(res.wall, 2)))


def exec_job(arg):
    """a share of the exported reports: each one as an .xlsx run through validate_calcs"""
    from pycel import ExcelCompiler
    items, run_index = arg
    out = dict(violations=[], notes=[], cases=0, drift=0, sample=None)
    workdir = tlc.new_scratch('c12')

    def violation(tag, desc, case):
        out['violations'].append((tag, desc, case))

    for name, fresh, rep in items:
        wb = WORKBOOKS[name]
        forms = list(W.nodes(wb)['formulas'])
        broken, iterate = sorted(rep['broken']), rep['iterate']
        bi = run_index[name, tuple(broken), iterate]
        out['cases'] += 1
        p_cell, p_val = rep['p'][0], rep['p'][1]
        perturbed = p_cell != ''
        cells, arrays = W.cells(wb)
        for i, b in enumerate(broken):
            fn = 'NOSUCHFN' if (i + bi) % 2 == 0 else 'VFAIL'
            cells[b] = f'={fn}({cells[b][1:]})'
        results = {f: fresh[f] for f in forms}
        if perturbed:
            results[p_cell] = W.py_val(p_val)
        key = json.dumps([name, sorted(cells.items()), sorted(results.items(), key=str), iterate],
                         default=str)
        path = os.path.join(workdir, f'v{abs(hash(key))}.xlsx')
        if not os.path.exists(path):
            xl.write_xlsx_with_results(path, cells, results, arrays=arrays,
                                       iterate=ITERATE if iterate else None)
        tol = None if rep['tol'] == NONE_TOL else rep['tol']
        case = dict(workbook=name, cells=cells, stored=results, outputs=rep['outs'],
                    tolerance=tol, perturbed=[p_cell, W.py_val(p_val) if perturbed else None],
                    broken=broken, iterate=iterate)
        try:
            m = ExcelCompiler(path, plugins=('harness.plugin_fail',))
            with contextlib.redirect_stdout(io.StringIO()):
                got = m.validate_calcs(output_addrs=[W.addr(o) for o in rep['outs']],
                                       tolerance=tol)
        except Exception as exc:          # noqa
            violation('raised', f'validate_calcs raised {type(exc).__name__}: {exc}', case)
            continue
        if out['sample'] is None and perturbed:
            out['sample'] = dict(case, report=repr(got)[:400])
        mism = {k.split('!')[1]: v for k, v in got.get('mismatch', {}).items()}
        unevaluable = set()
        for bucket in ('exceptions', 'not-implemented'):
            for lst in got.get(bucket, {}).values():
                unevaluable.update(a.split('!')[1] for a, _, _ in lst)
        other = set(got) - {'mismatch', 'exceptions', 'not-implemented'}
        # ---- the report relation of the statement ----
        if not perturbed and not broken and got != {}:
            violation('consistent', f'consistent workbook, report not empty: {got!r}', case)
        if perturbed:
            reach = set(rep['reach'])
            want_calc, stored = fresh[p_cell], W.py_val(p_val)
            kind = (f'{xl.typeclass(want_calc)} -> '
                    f'{"empty text" if stored == "" else xl.typeclass(stored)}')
            if p_cell in reach and p_cell not in unevaluable and altered(want_calc, stored, tol):
                mm = mism.get(p_cell)
                if mm is None:
                    violation('not named: ' + kind,
                              f'stored result of {p_cell} altered from {want_calc!r} to '
                              f'{stored!r} but the report does not name it: {got!r}', case)
                elif not (xl.same_value(mm.original, stored) and
                          xl.same_value(mm.calced, want_calc)):
                    violation('values: ' + kind,
                              f'{p_cell} reported with (stored, recomputed) = ({mm.original!r}, '
                              f'{mm.calced!r}), expected ({stored!r}, {want_calc!r})', case)
            extra = set(mism) - desc_of(wb, p_cell)
            if extra:
                violation('not a dependant',
                          f'reported cells {sorted(extra)} do not depend on the altered cell '
                          f'{p_cell}', case)
        elif mism:
            violation('consistent', f'nothing altered but mismatches reported: {mism}', case)
        for b in broken:
            if b in rep['reach'] and b not in unevaluable:
                violation('skipped',
                          f'{b} cannot be evaluated but is not under exceptions/not-implemented: '
                          f'{got!r}', case)
        if other:
            violation('sections', f'unknown report sections {other}', case)
        # ---- binding: the model's report ----
        model_m = {m_[0]: (W.py_val(m_[1]), W.py_val(m_[2])) for m_ in rep['mism']}
        real_m = {k: (v.original, v.calced) for k, v in mism.items()}
        if (set(model_m) != set(real_m) or set(rep['excs']) != unevaluable) and out['drift'] < 2:
            out['drift'] += 1
            out['notes'].append(f'spec-drift {name}: model report {model_m} excs {rep["excs"]} '
                                f'vs real {real_m} excs {sorted(unevaluable)} for outs '
                                f'{rep["outs"]} p {rep["p"]} broken {broken} iterate {iterate}')
    out['n_violations'] = len(out['violations'])
    # a few of each class (class = which clause, which kind of alteration)
    kept, per_tag = [], {}
    for tag, desc, case in out['violations']:
        per_tag[tag] = per_tag.get(tag, 0) + 1
        if per_tag[tag] <= 2:
            kept.append((tag, desc, case))
    out['violations'] = kept
    return out


def split_plan(plan, slots=12):
    def cost(job):
        name, n_out, runs = job
        nf = len(W.nodes(WORKBOOKS[name])['formulas'])
        return (nf + min(n_out, nf * (nf - 1)) + 1) * sum(len(t) for _, _, t in runs) * nf * nf
    jobs = list(plan)
    while len(jobs) < slots:
        big = max((j for j in jobs if len(j[2]) > 1), key=cost, default=None)
        if big is None:
            break
        name, n_out, runs = big
        # halves of about equal numbers of configurations
        half, acc = 1, len(runs[0][2])
        while half < len(runs) - 1 and 2 * acc < sum(len(t) for _, _, t in runs):
            acc += len(runs[half][2])
            half += 1
        jobs.remove(big)
        jobs += [(name, n_out, runs[:half]), (name, n_out, runs[half:])]
    return jobs


def run(tier, seed):
    v = Verdict(PID, tier, seed)
    N, Z = NONE_TOL, 0
    if tier == 'quick':
        plan = [('chain', 3, [([], False, [N, Z, 2]), (['B1'], False, [N, 2]),
                              ([], True, [N, Z])]),
                ('nested', 3, [([], False, [N, 2]), (['B2'], False, [N, 2]), (['C1'], False, [N, 2]),
                               ([], True, [N]), (['B2'], True, [N])]),
                ('range', 2, [([], False, [N, Z, 2]), ([], True, [N])]),
                ('cse', 2, [([], False, [N, 2])]),
                ('big', 2, [([], False, [N, Z, 2]), (['C1'], False, [N, 2]), ([], True, [Z])]),
                ('csef', 2, [([], False, [N, 2]), ([], True, [N])]),
                ('logic', 2, [([], False, [N, 2]), ([], True, [Z])]),
                ('emptytext', 2, [([], False, [N, 2]), ([], True, [N])])]
    else:
        plan = []
        for name in ('chain', 'nested', 'range', 'cse', 'grid', 'alias', 'trimex', 'big', 'csef',
                     'logic', 'emptytext'):
            singles = [[f] for f in sorted(WORKBOOKS[name]['formulas'])]
            plan.append((name, 12,
                         [([], False, [N, Z, 2])] + [(b, False, [N, 2]) for b in singles] +
                         [([], True, [N, Z, 2])] + [(b, True, [N]) for b in singles]))
    # one TLC run per workbook, the configurations being choices of Init; the
    # largest ones are halved (by configurations) while processors are left
    models = parallel.run_jobs(model_job, [(name, seed, n_out, runs)
                                           for name, n_out, runs in split_plan(plan)])
    run_index = {(name, tuple(sorted(b)), it): k
                 for name, _, runs in plan for k, (b, it, _) in enumerate(runs)}
    items, kinds = [], set()
    for mo in models:
        t = mo['tlc']
        v.tlc_runs.append(t)
        v.states += t['distinct']
        v.transitions += t['generated']
        kinds.update(mo['kinds'])
        # the reports of one file (workbook, configuration, alteration) stay together
        reps = sorted(mo['reports'], key=lambda r: json.dumps(
            [sorted(r['broken']), r['iterate'], r['p']]))
        items += [(mo['name'], mo['fresh'], r) for r in reps]
    # the cases are executed in equal shares, whatever workbook they belong to
    n_share = max(1, min(len(items) // 40, 4 * (os.cpu_count() or 4)))
    size = -(-len(items) // n_share)
    shares = [(items[i:i + size], run_index) for i in range(0, len(items), size)]
    results = parallel.run_jobs(exec_job, shares)
    n_viol, n_notes, per_tag = 0, 0, {}
    for r in results:
        v.evaluations += r['cases']
        v.traces += r['cases']
        n_viol += r['n_violations']
        for n in r['notes']:
            if n_notes < 6:
                v.note(n)
            n_notes += 1
        for tag, desc, case in r['violations']:
            per_tag[tag] = per_tag.get(tag, 0) + 1
            if per_tag[tag] <= 2:
                v.violation(desc, case)
        if r['sample']:
            v.sample(r['sample'], limit=3)
    v.distinct.update(range(len(items)))
    v.extra.update(
        exhaustive=False,
        discrepancies=n_viol,
        alteration_kinds=sorted(kinds),
        rule='one case = one (workbook, altered cell and stored value | none, output list, '
             'tolerance, broken cells, calculation mode) behaviour of Validate.tla, realised as an .xlsx file with '
             'patched stored results and run through validate_calcs; every formula cell is '
             'altered in turn to a number beyond the tolerance, a text, the empty text, an '
             'error, a logical, and to the value of the other kind python takes for equal '
             '(TRUE <-> 1, FALSE <-> 0)')
    v.assumptions = ['a logical is not a number: TRUE <-> 1, FALSE <-> 0, TRUE <-> FALSE are '
                     'alterations under every tolerance',
                     'tolerance is None, 0 or 2; altered numbers differ by 7',
                     'an iterative workbook is one with calculation.iterate set (100 iterations, '
                     'delta 0.001); the workbooks themselves have no circular reference']
    return v.finish()
