"""C13 -- array (CSE) formulas: pointwise lifting and exact target shape.

Spec: spec/Arrays.tla.  Lift (broadcasting of scalar / single-row /
single-column operands; function arguments that are equally shaped arrays or
scalars), Fit (trim / repeat / #N/A, exactly the target's shape), Member.
TLC enumerates every (operand shape, operand shape, target shape) triple up
to 4x4 for a binary operator (16^3 = 4096) and every (argument kinds, array
shape, target shape) for functions of 1..3 arguments -- the target shapes run
from ONE cell to 4x4 -- each of them bare and as the argument of an
aggregating function ({=SUM(A*B)}, {=SUM(IFERROR(A,0))}: action Wrap, the
formula then yields one value made of the scalar applications at all the
positions of the lifted array), checks the laws
(Recalculated, BroadcastCases, FnEqualOrScalar, ShapeExact, Pointwise,
PointwiseDecode, PointwiseSpecial, Aggregated, Trimmed, Repeated, Uncovered,
OnlyUncoveredNA, MemberOwn, Windows, FitIdempotent, TargetGrowthStable,
OperandGrowthLocal, WrapAggregates) and exports one vector per state: the
operand elements, the lifted symbolic "+" (or its sum) and, per target cell,
the operand positions the cell is computed from.

Binding.
 * library calls: the operator fixup (array_fixup), cse_array_wrapper and
   _ArrayFormulaContext.fit_to_range are called with the vector's arrays and
   compared with the exported result / target matrix;
 * compiled workbooks: every vector becomes an openpyxl ArrayFormula over the
   target range, for each operator / array-aware function of the catalogue;
   evaluate(target range), evaluate(each member cell) and, because a member
   shows its own element whatever it is read through (Window in the spec),
   evaluate(rectangle of member cells), evaluate(target + the same array
   formula entered again next to it + plain cells) are compared with the
   spec (OVERLAP_READS).  The value expected in a cell is
   #N/A where the spec says "uncovered", else the *scalar application* to the
   elements at the exported positions: the same operator / function applied
   in a plain (non array) formula to the single cells.  For "+" on the
   symbolic elements the value exported by TLC is used as well.  Inside an
   aggregating function the expected value is the same aggregating function
   in a plain formula over the cells that hold the scalar applications at
   every position of the lifted array (SUM, MAX, MIN, COUNT, AVERAGE: they
   treat an array and a range of cells alike).
   The catalogue of array-aware functions has the ones lifted by
   cse_array_wrapper and the ones that fan out by themselves when an array
   formula is being evaluated (IFERROR, IFNA, IFS).

Not judged (statement silent): operand shapes that do not broadcast
(2x3 with 3x2 ...: exported with defined=false, not executed); blank
elements and results that are the empty string; function arguments of
different non-scalar shapes.
"""
import json
import os
import random
import zlib

from harness import tlc, xl
from harness.evidence import Verdict

PID = 'C13'
MAX = 4
NA = '#N/A'
AGG = 'agg'             # mark of the spec: the cell shows the aggregate
OVERLAP_READS = True    # also read members through ranges other than the target

# ---------------------------------------------------------------------------
# catalogue of lifted operators and functions.  Each entry: formula template
# over the operands and, per operand, the domain the element values are taken
# from (chosen so that the scalar application is defined, never the empty
# string, and tells positions apart where the operator allows it).

BINOPS = [
    ('{0}+{1}', ('sym', 'sym')),
    ('{0}-{1}', ('sym', 'sym')),
    ('{0}*{1}', ('sym', 'sym')),
    ('{0}/{1}', ('sym', 'sym')),
    ('{0}^{1}', ('base', 'expo')),
    ('{0}&{1}', ('sym', 'sym')),
    ('{0}={1}', ('cmp', 'cmp')),
    ('{0}<{1}', ('cmp', 'cmp')),
    ('{0}<>{1}', ('cmp', 'cmp')),
    ('{0}>={1}', ('cmp', 'cmp')),
    ('{0}>{1}', ('cmp', 'cmp')),
    ('{0}<={1}', ('cmp', 'cmp')),
]
QUICK_BINOPS = 8        # the first eight are the ones DESIGN names

FUNCS = {
    1: [('-{0}', ('sgn',)),
        ('{0}%', ('sgn',)),
        ('ABS({0})', ('sgn',)),
        ('INT({0})', ('sgn',)),
        ('SIGN({0})', ('sgn',)),
        ('SQRT({0})', ('sgn',)),
        ('LEN({0})', ('txt',)),
        ('UPPER({0})', ('txt',)),
        ('ISTEXT({0})', ('sgn',)),
        ('ISERROR({0})', ('sgn',)),
        ('IFERROR({0},"e")', ('err',)),
        ('IFNA({0},-1)', ('err',))],
    2: [('ROUND({0},{1})', ('frac', 'digits')),
        ('MOD({0},{1})', ('sym', 'pos')),
        ('POWER({0},{1})', ('base', 'expo')),
        ('LEFT({0},{1})', ('txt', 'count')),
        ('EXACT({0},{1})', ('txtcmp', 'txtcmp')),
        ('ATAN2({0},{1})', ('sgn', 'pos')),
        ('ROUNDDOWN({0},{1})', ('frac', 'digits')),
        ('{0}+{1}', ('sym', 'sym')),
        ('IFERROR({0},{1})', ('err', 'sym')),
        ('IFNA({0},{1})', ('err', 'txt')),
        # long argument lists, the two arrays far apart
        ('SWITCH(4,1,{0},2,"b",3,"c",4,{1},"d")', ('sym', 'sym')),
        ('SWITCH(4,{0},"a",2,"b",3,"c",4,{1},"d")', ('sym', 'sym')),
        ('SWITCH(7,1,"a",{0},"b",3,"c",4,"e",{1})', ('sym', 'sym')),
        ('IFS(FALSE,"a",{0}>2,"b",FALSE,"c",FALSE,"d",{1}>0,"e")', ('cmp', 'cmp'))],
    3: [('IF({0},{1},{2})', ('bool', 'sym', 'sym')),
        ('IF({0}>2,{1},{2})', ('cmp', 'sym', 'txt')),
        ('MID({0},{1},{2})', ('txt', 'count', 'count')),
        ('SUBSTITUTE({0},{1},{2})', ('txt', 'old', 'txt')),
        ('{0}+{1}*{2}', ('sym', 'sym', 'pos')),
        ('IFS({0}>1,{1},TRUE,{2})', ('cmp', 'sym', 'txt')),
        ('IFERROR({0}/{1},{2})', ('sym', 'cmp', 'sgn'))],
}
# aggregating functions a lifted array is put into (an array and a range of
# cells are the same to them: text and logical values in it are ignored)
AGGS = ['SUM', 'MAX', 'MIN', 'COUNT', 'AVERAGE']


def gen(domain, k, i, j, sym):
    """element (i, j) (1-based) of operand k (0-based) in a domain"""
    n = 4 * (i - 1) + (j - 1)           # 0..15, row-major
    if domain == 'sym':
        return sym
    if domain == 'sgn':
        return (10 * i + j + 0.5 + k) * (1 if (i + j) % 2 == 0 else -1)
    if domain == 'frac':
        return (1 if (i + j + k) % 2 else -1) * (100 * i + 10 * j + 5.555 + k)
    if domain == 'digits':
        return (i + 2 * j + k) % 4 - 1          # -1 .. 2
    if domain == 'pos':
        return 3 + (2 * i + j + k) % 5          # 3 .. 7
    if domain == 'base':
        return 2 + n + 0.5 * k                  # 2 .. 17
    if domain == 'expo':
        return (3 * i + j + k) % 5 - 1          # -1 .. 3
    if domain == 'cmp':
        return (i + 2 * j + 3 * k) % 4          # 0 .. 3, many ties
    if domain == 'bool':
        return (i + j + k) % 2 == 0
    if domain == 'txt':
        return 'aB%d%d%cq' % (i, j, 'xyz'[k % 3])
    if domain == 'txtcmp':
        return 'T%d' % ((i + 2 * j + 3 * k) % 3)
    if domain == 'count':
        return 1 + (i + j + k) % 3              # 1 .. 3
    if domain == 'old':
        return 'B%d' % i
    if domain == 'err':                         # numbers, #N/A, other errors
        return {0: NA, 1: '#DIV/0!'}.get(
            (i + 2 * j + k) % 4, (10 * i + j + 0.25 + k) * (-1 if j % 2 else 1))
    raise ValueError(domain)


def pyval(t):
    """python value of an abstract value of the spec"""
    return t[1]


def xl_col(c):
    from openpyxl.utils import get_column_letter
    return get_column_letter(c)


def ref(r0, c0, h, w):
    if (h, w) == (1, 1):
        return f'{xl_col(c0)}{r0}'
    return f'{xl_col(c0)}{r0}:{xl_col(c0 + w - 1)}{r0 + h - 1}'


def literal(x):
    if isinstance(x, bool):
        return 'TRUE' if x else 'FALSE'
    if isinstance(x, str):
        return '"' + x.replace('"', '""') + '"'
    return repr(x)


# ---------------------------------------------------------------------------
# one workbook = one group (form, kinds, sa, sb) x one template x 16 targets

OP_ROW, OP_COL, OP_STEP = 1, 1, 5          # operand k: row 1, column 1 + 5k
SC_COL = 30                                 # scalar applications: column AD
T_ROW, T_COL, T_STEP = 10, 1, 5             # target (th, tw): rows 10+5(th-1)..


def target_origin(st):
    return T_ROW + T_STEP * (st[0] - 1), T_COL + T_STEP * (st[1] - 1)


def build_group(task):
    """cells / arrays of the workbook of a task, and how to read it back"""
    shapes = task['shapes']
    template, domains = task['template'], task['domains']
    rnd = random.Random(task['seed'])
    cells, optext, values = {}, [], []
    for k, (h, w) in enumerate(shapes):
        c0 = OP_COL + OP_STEP * k
        vals = {}
        for i in range(1, h + 1):
            for j in range(1, w + 1):
                t = task['elems'][k][i - 1][j - 1]
                x = gen(domains[k], k, i, j, t[1]) if t[0] == 'N' else pyval(t)
                vals[(i, j)] = x
                cells[f'{xl_col(c0 + j - 1)}{OP_ROW + i - 1}'] = x
        values.append(vals)
        plain = all(not (isinstance(x, str) and x.startswith('#'))
                    for x in vals.values())
        style = rnd.random()
        if (h, w) == (1, 1):
            x = vals[(1, 1)]
            if task['variants'] and style < 0.3 and plain and (
                    isinstance(x, (bool, str)) or x >= 0):
                optext.append(literal(x))           # a literal scalar
            elif task['variants'] and style < 0.5 and plain and '(' not in template and (
                    isinstance(x, (bool, str)) or x >= 0):
                # (operators only: the statement gives functions "equally shaped
                # arrays and scalars", a 1x1 array is neither)
                optext.append('{' + literal(x) + '}')       # a 1x1 array constant
            else:
                optext.append(ref(OP_ROW, c0, 1, 1))
                if task['variants'] and style > 0.75 and x is not None:
                    # the operand is a formula cell two steps away from its value:
                    # cells evaluated lazily while the array formula is
                    cells[f'{xl_col(c0)}{OP_ROW + 5}'] = x
                    cells[f'{xl_col(c0)}{OP_ROW + 6}'] = f'={xl_col(c0)}{OP_ROW + 5}'
                    cells[f'{xl_col(c0)}{OP_ROW}'] = f'={xl_col(c0)}{OP_ROW + 6}'
        elif task['variants'] and style < 0.2 and plain:
            optext.append('{' + ';'.join(                 # an array constant
                ','.join(literal(vals[(i, j)]) for j in range(1, w + 1))
                for i in range(1, h + 1)) + '}')
        else:
            optext.append(ref(OP_ROW, c0, h, w))
    formula = '=' + template.format(*optext)
    if task['agg']:
        formula = '=%s(%s)' % (task['agg'], formula[1:])
    # the scalar application for each distinct tuple of source positions
    scalar_at = {}
    if task['agg']:
        # ... at every position of the lifted array, in reading order
        sources = [p for row in task['inner'] for p in row]
    else:
        sources = [p for st, (src, _) in task['targets'].items() for row in src for p in row]
    for p in sources:
        key = tuple(map(tuple, p))
        if key and key not in scalar_at:
            addr = f'{xl_col(SC_COL)}{1 + len(scalar_at)}'
            scalar_at[key] = addr
            cells[addr] = '=' + template.format(*[
                ref(OP_ROW + pk[0] - 1, OP_COL + OP_STEP * k + pk[1] - 1, 1, 1)
                for k, pk in enumerate(key)])
    if task['agg']:
        # the aggregating function in a plain formula over those cells
        addr = f'{xl_col(SC_COL + 1)}1'
        cells[addr] = '=%s(%s)' % (task['agg'], ref(1, SC_COL, len(scalar_at), 1))
        scalar_at[AGG] = addr
    arrays = {}
    for st in task['targets']:
        r0, c0 = target_origin(st)
        arrays[ref(r0, c0, *st)] = formula
    return cells, arrays, formula, scalar_at, values


def shape_of(value, st):
    """undo the API's trimming of single rows / columns; None if the value
    does not have the target's shape"""
    th, tw = st
    if (th, tw) == (1, 1):
        return None if isinstance(value, tuple) else ((value,),)
    if th == 1 or tw == 1:
        n = max(th, tw)
        if not isinstance(value, tuple) or len(value) != n or any(
                isinstance(x, tuple) for x in value):
            return None
        return (tuple(value),) if th == 1 else tuple((x,) for x in value)
    if not isinstance(value, tuple) or len(value) != th or any(
            not isinstance(r, tuple) or len(r) != tw for r in value):
        return None
    return value


def call(f, *a):
    try:
        return f(*a)
    except Exception as exc:        # noqa
        return exc


def short(x):
    if isinstance(x, Exception):
        lines = [ln for ln in str(x).splitlines() if ln.strip()]
        tail = lines[-1] if lines else ''
        for ln in reversed(lines):
            if 'Error' in ln or 'Exception' in ln:
                tail = ln
                break
        return f'{type(x).__name__}({tail[:160]})'
    return repr(x)


def run_group(task):
    """Executed in a worker process.  Returns accounting and discrepancies."""
    out = dict(violations=[], cases=[], evals=0, skipped_cells=0,
               skipped_targets=0, workbooks=0, sample=None, informative=0,
               notes=[])
    cells, arrays, formula, scalar_at, values = build_group(task)
    rnd = random.Random(task['seed'] + 1)
    label = dict(cfg=task['cfg'], form=task['form'], kinds=task['kinds'],
                 shapes=task['shapes'], agg=task['agg'], formula=formula)

    def compile_model(cells, arrays):
        out['workbooks'] += 1
        if task['file']:
            path = os.path.join(task['file'], 'g%08x_%d.xlsx' % (task['seed'], os.getpid()))
            xl.make_wb(cells, arrays=arrays).save(path)
            from pycel import ExcelCompiler
            try:
                return ExcelCompiler(filename=path)
            finally:
                os.unlink(path)
        return xl.compile_wb(cells, arrays=arrays)

    book = [cells, arrays]

    def bad(desc, st, **more):
        case = dict(label, target=list(st), cells=book[0], arrays=book[1], **more)
        out['violations'].append((desc, case))

    m = call(compile_model, cells, arrays)
    if isinstance(m, Exception):
        bad(f'{formula}: workbook does not compile: {short(m)}', (0, 0))
        return out
    scal = {}

    def scalar(key):
        if key not in scal:
            scal[key] = call(m.evaluate, 'S!' + scalar_at[key])
        return scal[key]

    def undefined_value(x):
        return isinstance(x, Exception) or x is None or x == '' or isinstance(x, tuple)

    def aggregate():
        """the aggregating function over the scalar applications, if they all are defined"""
        if any(undefined_value(scalar(key)) for key in scalar_at if key != AGG):
            return None
        return scalar(AGG)

    def expected(st):
        """matrix of expected values; None if a scalar application raises"""
        src, ssum = task['targets'][st]
        rows, undefined = [], 0
        for i, row in enumerate(src):
            r = []
            for j, p in enumerate(row):
                if not p:
                    r.append(NA)
                    continue
                x = aggregate() if p == [AGG] else scalar(tuple(map(tuple, p)))
                if undefined_value(x):
                    undefined += 1
                    r.append(None)
                    continue
                if task['use_sum'] and not xl.same_value(x, pyval(ssum[i][j])):
                    out['notes'].append(
                        f'scalar {formula} at {p} = {x!r}, spec says {pyval(ssum[i][j])!r}')
                    undefined += 1
                    r.append(None)
                    continue
                r.append(x)
            rows.append(tuple(r))
        return tuple(rows), undefined

    def same(got, want):
        return not isinstance(got, Exception) and xl.same_value(got, want, tol=1e-12)

    def check_members(model, st, want, how, order=None, dc=0):
        r0, c0 = target_origin(st)
        c0 += dc
        pos = [(i, j) for i in range(st[0]) for j in range(st[1])]
        if order:
            order.shuffle(pos)
        for i, j in pos:
            addr = f'{xl_col(c0 + j)}{r0 + i}'
            got = call(model.evaluate, 'S!' + addr)
            out['evals'] += 1
            if not same(got, want[i][j]):
                bad(f'{formula} {task["shapes"]} -> target {st[0]}x{st[1]}: member '
                    f'({i + 1},{j + 1}) shows {short(got)}, expected {want[i][j]!r} [{how}]',
                    st, member=addr, expected=want, order=how)
                return False
        return True

    def check_range(model, st, r0, c0, shape, want, how):
        """evaluate a rectangle of cells and compare with a matrix"""
        addr = ref(r0, c0, *shape)
        got = call(model.evaluate, 'S!' + addr)
        out['evals'] += 1
        mat = None if isinstance(got, Exception) else shape_of(got, shape)
        if mat is None:
            bad(f'{formula} {task["shapes"]} -> target {st[0]}x{st[1]}: evaluate({addr}) '
                f'[{how}] = {short(got)}, expected the {shape[0]}x{shape[1]} matrix {want!r}',
                st, read=addr, expected=want, order=how)
            return False
        for i in range(shape[0]):
            for j in range(shape[1]):
                if not same(mat[i][j], want[i][j]):
                    bad(f'{formula} {task["shapes"]} -> target {st[0]}x{st[1]}: evaluate({addr}) '
                        f'[{how}] has {short(mat[i][j])} at ({i + 1},{j + 1}), '
                        f'expected {want[i][j]!r}', st, read=addr, expected=want, order=how)
                    return False
        return True

    distinct_vals = set()
    done = []
    for st in sorted(task['targets']):
        want, undefined = expected(st)
        key = (task['cfg'], task['ftemplate'], task['form'], tuple(task['kinds']),
               tuple(map(tuple, task['shapes'])), st)
        if undefined:
            out['skipped_cells'] += undefined
            out['skipped_targets'] += 1
            continue
        out['cases'].append(key)
        for row in want:
            for x in row:
                distinct_vals.add(repr(x))
        r0, c0 = target_origin(st)
        if rnd.random() < 0.5:
            ok = check_range(m, st, r0, c0, st, want, 'target range, first access')
            ok = check_members(m, st, want, 'after the range') and ok
        else:
            ok = check_members(m, st, want, 'members first', order=rnd)
            ok = check_range(m, st, r0, c0, st, want, 'target range, after the members') and ok
        done.append((st, want))
        if out['sample'] is None and st == (3, 3) and task['shapes'][0] == [2, 2]:
            out['sample'] = dict(label, target=[3, 3], expected=want)
    out['informative'] = len(distinct_vals)
    # ranges made of member cells, read through a fresh model in which the
    # sampled targets have a twin (same array formula, entered again right of
    # the target) and a column of plain numbers next to them
    if task['overlap'] and done:
        picked = rnd.sample(done, min(3, len(done)))
        cells2 = {a: x for a, x in cells.items()}
        arrays2 = {}
        twin = {}
        for st, want in picked:
            r0, c0 = target_origin(st)
            th, tw = st
            arrays2[ref(r0, c0, th, tw)] = formula
            twin[st] = 2 * tw + 1 <= T_STEP
            if twin[st]:
                arrays2[ref(r0, c0 + tw, th, tw)] = formula
            for i in range(th):
                cells2[f'{xl_col(c0 + (2 if twin[st] else 1) * tw)}{r0 + i}'] = 9000 + i
        book[:] = [cells2, arrays2]
        m2 = call(compile_model, cells2, arrays2)
        if isinstance(m2, Exception):
            bad(f'{formula}: workbook does not compile: {short(m2)}', (0, 0))
            return out
        for st, want in picked:
            r0, c0 = target_origin(st)
            th, tw = st
            out['cases'].append((task['cfg'], task['ftemplate'], task['form'],
                                 tuple(task['kinds']),
                                 tuple(map(tuple, task['shapes'])), st, 'overlap'))
            if th * tw > 1:
                # a proper sub-rectangle of the target
                while True:
                    i0, i1 = sorted((rnd.randrange(th), rnd.randrange(th)))
                    j0, j1 = sorted((rnd.randrange(tw), rnd.randrange(tw)))
                    if (i1 - i0 + 1, j1 - j0 + 1) != (th, tw):
                        break
                sub = tuple(tuple(want[i][j0:j1 + 1]) for i in range(i0, i1 + 1))
                check_range(m2, st, r0 + i0, c0 + j0, (i1 - i0 + 1, j1 - j0 + 1), sub,
                            'range of member cells')
            if twin[st]:
                # two array formulas with the same text side by side
                both = tuple(tuple(want[i]) * 2 for i in range(th))
                check_range(m2, st, r0, c0, (th, 2 * tw), both,
                            'range over the target and its twin')
            # the target, its twin and the column of plain numbers
            reps = 2 if twin[st] else 1
            wide = tuple(tuple(want[i]) * reps + (9000 + i,) for i in range(th))
            check_range(m2, st, r0, c0, (th, reps * tw + 1), wide,
                        'range over the target%s and the plain cells next to it'
                        % (', its twin' if twin[st] else ''))
            check_members(m2, st, want, 'after the overlapping ranges')
            if twin[st]:
                check_members(m2, st, want, 'twin, after the overlapping ranges', dc=tw)
    return out


# ---------------------------------------------------------------------------
# library-level binding

def to_py(matrix):
    return tuple(tuple(pyval(t) for t in row) for row in matrix)


def sumv(*args):
    """Python twin of SumV for cse_array_wrapper (first error, then text)"""
    from pycel.excelutil import ERROR_CODES, VALUE_ERROR
    for a in args:
        if isinstance(a, str) and a in ERROR_CODES:
            return a
    if any(isinstance(a, str) for a in args):
        return VALUE_ERROR
    return sum(args)


def library_checks(v, vectors, cfgname, found):
    from pycel.excelutil import (AddressRange, build_operator_operand_fixup,
                                 in_array_formula_context)
    from pycel.lib.function_helpers import cse_array_wrapper
    fixup = build_operator_operand_fixup(lambda *a: None)
    fit_seen = set()
    for vec in vectors:
        if not vec['defined']:
            continue
        shapes = [tuple(s) for s in vec['shapes']]
        st = tuple(vec['st'])
        args = [to_py(e) if s != (1, 1) else pyval(e[0][0])
                for e, s in zip(vec['elems'], shapes)]
        want_res, want_cells = to_py(vec['res']), to_py(vec['sum'])
        case = dict(cfg=cfgname, form=vec['form'], kinds=vec['kinds'],
                    shapes=vec['shapes'], target=vec['st'], agg=vec['agg'])
        if st == (1, 1) and not vec['agg']:     # the lift depends on the operands only
            if vec['form'] == 'op':
                got = call(fixup, args[0], 'Add', args[1])
                what = 'operand fixup (array_fixup) A+B'
            else:
                f = cse_array_wrapper(sumv, set(range(len(args))))
                got = call(f, *args)
                what = 'cse_array_wrapper(sum)'
            v.case(('lib-lift', cfgname, vec['form'], json.dumps(vec['kinds']),
                    json.dumps(vec['shapes'])))
            if all(s == (1, 1) for s in shapes):
                ok = not isinstance(got, (Exception, tuple)) and \
                    xl.same_value(got, want_res[0][0])
            else:
                ok = not isinstance(got, Exception) and xl.same_value(got, want_res)
            if not ok:
                found.setdefault('library lift', []).append(
                    (f'{what} on shapes {vec["shapes"]}: got {short(got)}, '
                     f'expected {want_res!r}', case))
            # a 1x1 ARRAY (the constant {10}, a lifted function over one element)
            # next to a larger operand is repeated in both directions like a scalar
            if vec['form'] == 'op' and (1, 1) in shapes and \
                    not all(s == (1, 1) for s in shapes):
                args1 = [to_py(e) for e in vec['elems']]
                got = call(fixup, args1[0], 'Add', args1[1])
                v.case(('lib-lift-1x1-array', cfgname, vec['form'], json.dumps(vec['kinds']),
                        json.dumps(vec['shapes'])))
                if isinstance(got, Exception) or not xl.same_value(got, want_res):
                    found.setdefault('library lift', []).append(
                        (f'{what} on shapes {vec["shapes"]} with the 1x1 operand given as a '
                         f'1x1 array: got {short(got)}, expected {want_res!r}', case))
        # the fit depends on the result and the target only (a target of one
        # cell is a target: the result is trimmed to its top left element)
        # (a 1x1 result is tried both as a scalar and as a 1x1 array)
        results = [want_res] if tuple(vec['rshape']) != (1, 1) else \
            [want_res[0][0], want_res]
        target = AddressRange(f'S!{ref(1, 1, *st)}')
        for result in results:
            fkey = (repr(result), st)
            if fkey in fit_seen:
                continue
            fit_seen.add(fkey)

            def fit():
                with in_array_formula_context(target):
                    return in_array_formula_context.fit_to_range(result)
            got = call(fit)
            v.case(('lib-fit', cfgname, fkey))
            if isinstance(got, Exception) or not xl.same_value(got, want_cells):
                found.setdefault('library fit', []).append(
                    (f'fit_to_range of a {vec["rshape"]} result to a '
                     f'{st[0]}x{st[1]} target: got {short(got)}, expected '
                     f'{want_cells!r}', dict(case, result=result)))


# ---------------------------------------------------------------------------

def special_module(rnd, d):
    """thorough tier: a wrapper module with seeded special positions"""
    errs = ['#DIV/0!', '#NUM!', '#NAME?', '#VALUE!', '#NULL!']
    lines = []
    for k in (1, 2, 3):
        pos = [(i, j) for i in range(1, MAX + 1) for j in range(1, MAX + 1)]
        rnd.shuffle(pos)
        ne, nt = rnd.randint(2, 4), rnd.randint(1, 3)
        for n, (i, j) in enumerate(pos[:ne]):
            lines.append(f'k = {k} /\\ i = {i} /\\ j = {j} -> <<"E", "{rnd.choice(errs)}">>')
        for n, (i, j) in enumerate(pos[ne:ne + nt]):
            lines.append(f'k = {k} /\\ i = {i} /\\ j = {j} -> <<"S", "t{k}{i}{j}">>')
    body = '\n    [] '.join(lines)
    with open(os.path.join(d, 'MC_ArraysT.tla'), 'w') as f:
        f.write(f'''---- MODULE MC_ArraysT ----
EXTENDS Arrays
TSpecial(k, i, j) ==
  CASE {body}
    [] OTHER -> None
====
''')
    with open(os.path.join(d, 'T.cfg'), 'w') as f:
        f.write(open(os.path.join(tlc.SPEC, 'Arrays_big.cfg')).read()
                .replace('MCSpecial', 'TSpecial'))
    return 'MC_ArraysT', d, os.path.join(d, 'T.cfg')


def expected_states():
    """size of the domain the machine has to reach"""
    shapes = MAX * MAX
    kind_vectors = sum(2 ** n for n in (1, 2, 3))
    all_scalar = 3
    bare = shapes ** 3 + (kind_vectors - all_scalar) * shapes * shapes + all_scalar * shapes
    return 2 * bare         # each of them also inside an aggregating function


def run_tlc(label, module, cfg, spec_dir, library=None):
    # laws + export; coverage is collected in a second, cheap run (TLC's
    # coverage accounting is very slow on the nested matrix definitions)
    res = tlc.run(module, cfg, spec_dir=spec_dir, workers=4, timeout=1500,
                  library=library, heap='2g')
    if not res.ok:
        raise tlc.MachineryFailure(
            f'Arrays model ({label}) violates {res.violated}:\n' + res.stdout[-2000:])
    if res.distinct != expected_states():
        raise tlc.MachineryFailure(
            f'{label}: {res.distinct} states, expected {expected_states()}')
    if len(res.json) < res.distinct:
        # lines of different workers interleaved: once more with one worker
        res = tlc.run(module, cfg, spec_dir=spec_dir, workers=1, timeout=1500,
                      library=library, heap='2g')
        if not res.ok or len(res.json) < res.distinct:
            raise tlc.MachineryFailure(
                f'{label}: export incomplete: {len(res.json)} vectors for '
                f'{res.distinct} states')
    return res


def coverage_run(v):
    """every action of the machine is taken (cheap cfg: TypeOK only)"""
    d = tlc.new_scratch('arrays')
    cfg = os.path.join(d, 'cov.cfg')
    with open(cfg, 'w') as f:
        f.write('CONSTANTS\n  Max = 4\n  MaxArgs = 3\n  Special <- MCNone\n'
                'SPECIFICATION Spec\nINVARIANT TypeOK\n')
    res = tlc.run('MC_Arrays', cfg, workers=1, coverage=True, timeout=900, heap='2g')
    if not res.ok:
        raise tlc.MachineryFailure('coverage run failed:\n' + res.stdout[-1500:])
    for action in ('GrowA', 'GrowB', 'GrowT', 'Wrap'):
        if res.coverage.get(action, (0, 0))[1] == 0:
            raise tlc.MachineryFailure(f'vacuous: action {action} never taken '
                                       f'({res.coverage})')
    v.add_tlc(res, 'Arrays coverage')
    return {k: list(c) for k, c in res.coverage.items()}


def group_vectors(vectors):
    """(form, kinds, shapes, agg) -> {st: (src, sum)} and the operand elements"""
    groups = {}
    for vec in vectors:
        if not vec['defined']:
            continue
        key = (vec['form'], tuple(vec['kinds']), tuple(map(tuple, vec['shapes'])),
               vec['agg'])
        g = groups.setdefault(key, dict(elems=vec['elems'], inner=vec['inner'], targets={}))
        g['targets'][tuple(vec['st'])] = (vec['src'], vec['sum'])
    return groups


def make_tasks(cfgname, groups, tier, rnd, filedir, fraction):
    tasks = []
    for (form, kinds, shapes, agg), g in sorted(groups.items()):
        if len(g['targets']) != MAX * MAX:
            raise tlc.MachineryFailure(f'{cfgname}: group {form} {kinds} {shapes} has '
                                       f'{len(g["targets"])} targets')
        if agg:
            # inside an aggregating function: a sample of the catalogue
            cat = BINOPS if form == 'op' else FUNCS[len(kinds)]
            if tier == 'thorough':
                entries = rnd.sample(cat, 2)
            elif rnd.random() < max(fraction, 0.5):
                entries = [rnd.choice(cat)]
            else:
                entries = []
        elif form == 'op':
            if tier == 'thorough':
                entries = list(BINOPS)
            else:
                entries = [BINOPS[0]]
                if rnd.random() < fraction:
                    entries.append(rnd.choice(BINOPS[1:QUICK_BINOPS]))
                elif rnd.random() < 0.15:
                    entries.append(rnd.choice(BINOPS[QUICK_BINOPS:]))
        else:
            cat = FUNCS[len(kinds)]
            if tier == 'thorough':
                entries = list(cat)
            else:
                entries = [rnd.choice(cat)] if rnd.random() < max(fraction, 0.5) else []
        for template, domains in entries:
            outer = rnd.choice(AGGS) if agg else None
            ftemplate = f'{outer}({template})' if agg else template
            tid = f'{cfgname}|{form}|{kinds}|{shapes}|{ftemplate}'
            tasks.append(dict(
                cfg=cfgname, form=form, kinds=list(kinds),
                shapes=[list(s) for s in shapes], elems=g['elems'],
                targets=g['targets'], template=template, domains=domains,
                agg=outer, inner=g['inner'], ftemplate=ftemplate,
                use_sum=(template == '{0}+{1}' and domains == ('sym', 'sym')
                         and outer in (None, 'SUM')),
                seed=zlib.crc32(tid.encode()) ^ rnd.getrandbits(30),
                variants=rnd.random() < 0.5,
                overlap=OVERLAP_READS and rnd.random() < (
                    0.5 if tier == 'thorough' else 0.2),
                file=filedir if rnd.random() < (0.03 if tier == 'quick' else 0.05)
                else None))
    return tasks


def run(tier, seed):
    import multiprocessing
    from concurrent.futures import ThreadPoolExecutor
    v = Verdict(PID, tier, seed)
    rnd = random.Random(seed)
    tlc.scratch_dir()
    runs = [('plain', 'MC_Arrays', 'Arrays_mc.cfg', tlc.SPEC, None),
            ('special', 'MC_Arrays', 'Arrays_big.cfg', tlc.SPEC, None)]
    if tier == 'thorough':
        mod, d, cfg = special_module(rnd, tlc.new_scratch('arraysT'))
        runs.append(('special-seeded', mod, cfg, d, tlc.SPEC))
    with ThreadPoolExecutor(len(runs) + 1) as ex:
        cov = ex.submit(coverage_run, v)
        futs = [(r[0], ex.submit(run_tlc, *r)) for r in runs]
        results = [(label, f.result()) for label, f in futs]
        coverage = cov.result()

    filedir = tlc.new_scratch('xlsx')
    tasks, undefined, nvec, found = [], 0, 0, {}
    for n, (label, res) in enumerate(results):
        v.add_tlc(res, 'Arrays ' + label)
        nvec += len(res.json)
        undefined += sum(1 for x in res.json if not x['defined'])
        library_checks(v, res.json, label, found)
        groups = group_vectors(res.json)
        fraction = 1.0 if tier == 'thorough' else (0.5 if n == 0 else 0.25)
        tasks += make_tasks(label, groups, tier, rnd, filedir, fraction)
        for x in res.json:
            if x['form'] == 'op' and x['sa'] == [2, 3] and x['sb'] == [2, 1] \
                    and x['st'] == [3, 4] and n == 0:
                v.sample({k: x[k] for k in ('form', 'sa', 'sb', 'st', 'agg', 'rshape', 'sum')})

    procs = max(2, min(8 if tier == 'quick' else 12, (os.cpu_count() or 2)))
    agg = dict(evals=0, skipped_cells=0, skipped_targets=0, workbooks=0,
               informative=0, file_workbooks=sum(1 for t in tasks if t['file']))
    per_template = {}
    ctx = multiprocessing.get_context('fork')
    with ctx.Pool(procs) as pool:
        for task, out in zip(tasks, pool.imap(run_group, tasks, chunksize=4)):
            for k in ('evals', 'skipped_cells', 'skipped_targets', 'workbooks'):
                agg[k] += out[k]
            t = per_template.setdefault(task['ftemplate'], [0, 0, 0])
            t[0] += 1
            t[1] += len(out['cases'])
            t[2] = max(t[2], out['informative'])
            for key in out['cases']:
                v.case(key)
            v.evaluations += out['evals']
            for note in out['notes'][:2]:
                v.note(note)
            if out['sample'] and task['form'] == 'fn':
                v.sample(out['sample'], limit=9)
            for desc, case in out['violations']:
                kind = case.get('order') or 'compile'
                found.setdefault(kind.split(',')[0], []).append((desc, case))
    # report round-robin over the kinds of access, so that the replay files
    # (the first twenty) show every kind of discrepancy
    while any(found.values()):
        for kind in sorted(found):
            if found[kind]:
                v.violation(*found[kind].pop(0))
    v.traces = nvec
    v.extra.update(
        bounds=dict(max_extent=MAX, max_args=3, shape_triples=MAX ** 6,
                    smallest_target='1x1', aggregating_functions=AGGS,
                    states_per_configuration=expected_states()),
        exhaustive_over_shapes=True,
        configurations=[label for label, _ in results],
        coverage_actions=coverage,
        nonbroadcastable_vectors_not_executed=undefined,
        workbooks=agg['workbooks'], file_based_workbooks=agg['file_workbooks'],
        target_formulas=sum(t[1] for t in per_template.values()),
        targets_skipped_scalar_application_undefined=agg['skipped_targets'],
        per_template={k: dict(groups=a, targets=b, distinct_values_max=c)
                      for k, (a, b, c) in sorted(per_template.items())},
        rule='one case = (configuration, operator/function, operand shapes, '
             'target shape [, overlap reads]); expected cell = #N/A where the '
             'spec says uncovered, else the scalar application at the '
             'exported source positions (inside an aggregating function: that '
             'function over the scalar applications at all positions of the '
             'lifted array); "+" also against the value exported '
             'by TLC; library level: array_fixup / cse_array_wrapper / '
             'fit_to_range against res / sum of every vector')
    v.assumptions = [
        'TLC evaluates Arrays.tla correctly',
        'the scalar (non array) application of an operator/function in a plain '
        'formula is the reference for the element value (its own correctness '
        'is C10/C19/C20)',
        'evaluate() of a range trims a single row / column to a flat tuple '
        '(API convention, undone by the harness)']
    return v.finish()


def replay(path):
    """re-run the workbook of a recorded violation; 0 if it now agrees"""
    with open(path) as f:
        rec = json.load(f)
    case = rec['case']
    print(rec['desc'])
    if 'cells' not in case:
        print('library-level case:', json.dumps(case)[:600])
        return 1
    m = xl.compile_wb(case['cells'], arrays=case['arrays'])
    want = case.get('expected')
    if case.get('member'):
        addr = case['member']
        i, j = [(i, j) for i, row in enumerate(want) for j, _ in enumerate(row)
                if ref(target_origin(case['target'])[0] + i,
                       target_origin(case['target'])[1] + j, 1, 1) == addr][0]
        got = call(m.evaluate, 'S!' + addr)
        ok = not isinstance(got, Exception) and xl.same_value(got, want[i][j], tol=1e-12)
        print(f'evaluate(S!{addr}) = {short(got)}; expected {want[i][j]!r}')
    else:
        addr = case['read']
        got = call(m.evaluate, 'S!' + addr)
        want = tuple(tuple(r) for r in want)
        mat = None if isinstance(got, Exception) else \
            shape_of(got, (len(want), len(want[0])))
        ok = mat is not None and xl.same_value(mat, want, tol=1e-12)
        print(f'evaluate(S!{addr}) = {short(got)}; expected {want!r}')
    print('agrees' if ok else 'DISAGREES')
    return 0 if ok else 1
