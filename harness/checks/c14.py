"""C14 -- aggregates over ranges follow Excel's counting rules.

Spec: spec/Aggregates.tla (+ CellValues.tla).  A range is the row-major
sequence of its cells, built by the AppendCell action from a pool of numbers
(negative, fractional), numeric text, text, logicals, blank and two error
values.  TLC checks on the definitions: the fold step (FoldStep, SumStep),
permutation invariance by adjacent transpositions, reshape/transpose
invariance, additivity over splits and arbitrary two-block partitions,
AVERAGE = SUM/COUNT | #DIV/0!, MIN/MAX = 0 on nothing numeric, first-error
selection, the SUBTOTAL table, the SUMPRODUCT laws, homogeneity in the unit
of the numbers and totals of subtotals; every visited state is exported with
the allowed result set of each function.

Binding: every exported state becomes real ranges in an in-memory workbook
(every h x w shape, the transposed twin, a permuted twin, the rotated twin
for SUMPRODUCT, row/column splits and a random two-block partition) and the
formulas =SUM(..), =AVERAGE(..), =MIN(..), =MAX(..), =COUNT(..),
=SUBTOTAL(n, ..), =SUMPRODUCT(.., ..) are compiled and evaluated; the same
matrices are also passed to the library functions directly.  The value
returned by pycel must be a member of the allowed set exported by TLC.

What a number cell is, on the code's side: a constant int or float, the
result of a formula (law TwoLevel: subtotal formulas in cells, aggregated
again), and -- for the library calls -- every Python type in which pycel's
own functions leave numbers in cells (int, float, numpy integer, numpy
float).  Numbers of other magnitudes come from law Homogeneous: the same
range measured in a large unit (2^31, 10^10, 10^15) must give the allowed
results times the unit (SUMPRODUCT: times the product of the two units).
"""
import json
import os
import random
import re
import time
from collections import Counter
from concurrent.futures import ProcessPoolExecutor, ThreadPoolExecutor
from fractions import Fraction

from harness import tlc, xl
from harness.evidence import Verdict

PID = 'C14'
FNS = ('SUM', 'AVERAGE', 'MIN', 'MAX', 'COUNT')
KEY = {'SUM': 'sum', 'AVERAGE': 'average', 'MIN': 'min', 'MAX': 'max',
       'COUNT': 'count'}
SUBTOTAL = {1: 'AVERAGE', 2: 'COUNT', 4: 'MAX', 5: 'MIN', 9: 'SUM'}
SCALE = 2          # CellValues!Scale: <<"N", k>> is k / 2
FINDING_SCALAR_BLANK = 'D44'


# -- abstract value -> Python value -----------------------------------------
def pyval(cell, rnd, unit=1):
    """the cell as a Python value; numbers are counted in `unit`s (Homogeneous)"""
    tag = cell[0]
    if tag == 'N':
        k = cell[1] * unit
        if k % SCALE == 0:
            n = k // SCALE
            return float(n) if rnd.random() < 0.3 else n
        return k / SCALE
    if tag == 'S':
        return cell[1]
    if tag == 'B':
        return bool(cell[1])
    if tag == 'Z':
        return None
    if tag == 'E':
        return cell[1]
    raise ValueError(cell)


# units the ranges are re-measured in (law Homogeneous); every pool number
# times a unit is still an integer or a half below 2^53, exact as a double
UNITS = (2 ** 31, 10 ** 10, 10 ** 15)


def scaled(allowed, factor):
    """the allowed results of the range measured in a unit `factor` times as large"""
    return [a if a[0] == 'E' else ['R', a[1] * factor, a[2]] for a in allowed]


def as_numpy(val, rnd):
    """a number the way pycel's numpy based functions (SUMPRODUCT, FACTDOUBLE,
    the regression family) leave it in a cell"""
    import numpy as np
    if isinstance(val, bool) or rnd.random() < 0.25:
        return val
    if isinstance(val, int):
        return np.int64(val)
    if isinstance(val, float):
        return np.float64(val)
    return val


def matches(got, allowed):
    """is the value returned by pycel one of the allowed abstract results"""
    for a in allowed:
        if a[0] == 'E':
            if isinstance(got, str) and got == a[1]:
                return True
        else:
            if xl.typeclass(got) == 'num':
                want = Fraction(a[1], a[2])
                if abs(Fraction(float(got)) - want) <= Fraction(1, 10 ** 9) * max(1, abs(want)):
                    return True
    return False


def show(allowed):
    return [a[1] if a[0] == 'E' else (a[1] / a[2]) for a in allowed]


def col(c):
    s = ''
    while c:
        c, r = divmod(c - 1, 26)
        s = chr(65 + r) + s
    return s


def ref(r0, c0, h, w):
    return f'{col(c0)}{r0}:{col(c0 + w - 1)}{r0 + h - 1}'


def shapes_of(n):
    out = [(h, n // h) for h in range(1, n + 1) if n % h == 0]
    if n > 5:
        out = [(h, w) for h, w in out if h <= 5 and w <= 5]
    return out


class Sheet:
    """Lays rectangles out in one worksheet, one row band per rectangle."""

    def __init__(self):
        self.cells = {}
        self.band = 0
        self.formulas = []       # (address, text, allowed, label)

    def place(self, values, h, w):
        r0 = 1 + 30 * self.band
        self.band += 1
        for i, val in enumerate(values):
            if val is not None:
                self.cells[f'{col(1 + i % w)}{r0 + i // w}'] = val
        return r0

    def formula(self, text, allowed, label):
        addr = f'AZ{len(self.formulas) + 1}'
        self.cells[addr] = text
        self.formulas.append((addr, text, allowed, label))


def twin_allowed(vec, fn, same_order):
    """allowed results for a rearranged copy of the range"""
    if same_order or len(vec['errs']) <= 1:
        return vec[KEY[fn]]
    extra = [a for a in vec['count'] if a[0] == 'R'] if fn == 'COUNT' else []
    return list(vec['errs']) + extra


def check_vector(vec, seed, full):
    """Drive the real code with one exported state.

    Returns (violations, known, n_cases, distinct_keys, n_formulas).
    """
    from pycel import excellib
    from pycel.lib import stats
    rnd = random.Random(f'{seed}:{json.dumps(vec["cells"])}')
    cells = vec['cells']
    n = len(cells)
    vals = [pyval(c, rnd) for c in cells]
    viol, known, keys = [], [], []
    ncase = 0
    case = dict(cells=cells)
    LIB = {'SUM': excellib.sum_, 'AVERAGE': stats.average, 'MIN': stats.min_,
           'MAX': stats.max_, 'COUNT': stats.count}
    errfree = not vec['errs']
    shapes = shapes_of(n)
    rot = vals[1:] + vals[:1]
    perm = list(range(n))
    rnd.shuffle(perm)
    block = [rnd.random() < 0.5 for _ in range(n)]

    def judge(label, got, allowed, extra=None):
        nonlocal ncase
        ncase += 1
        keys.append(label.split('|')[0])
        c = dict(case, what=label, **(extra or {}))
        if isinstance(got, Exception):
            viol.append((f'{label}: raised {type(got).__name__}: '
                         f'{str(got).strip().splitlines()[-1][:200] if str(got).strip() else ""}'
                         f'; allowed {show(allowed)}', c))
        elif not matches(got, allowed):
            viol.append((f'{label}: got {got!r}, allowed {show(allowed)}', c))

    def call(fn, *args):
        try:
            return fn(*args)
        except Exception as exc:    # noqa
            return exc

    # ---- library calls on every shape ------------------------------------
    for h, w in shapes:
        M = tuple(tuple(vals[r * w:(r + 1) * w]) for r in range(h))
        Mrot = tuple(tuple(rot[r * w:(r + 1) * w]) for r in range(h))
        for fn in FNS:
            judge(f'lib {fn}|{h}x{w}', call(LIB[fn], M), vec[KEY[fn]])
        judge(f'lib SUMPRODUCT rot|{h}x{w}', call(excellib.sumproduct, M, Mrot),
              vec['sprot'])
        judge(f'lib SUMPRODUCT self|{h}x{w}', call(excellib.sumproduct, M, M),
              vec['spself'])
        ones = tuple((1,) * w for _ in range(h))
        judge(f'lib SUMPRODUCT ones|{h}x{w}', call(excellib.sumproduct, ones, M),
              vec['sum'] if errfree else vec['errs'])
    # permuted cells as separate arguments / as one row
    P = tuple(vals[i] for i in perm)
    for fn in FNS:
        judge(f'lib {fn} permuted', call(LIB[fn], (P,)), twin_allowed(vec, fn, False))
    # the cells as numpy numbers: what formula cells computed by pycel's
    # numpy based functions hold (the workbook below gets them from SUMPRODUCT)
    h, w = shapes[rnd.randrange(len(shapes))]
    nv = [as_numpy(x, rnd) for x in vals]
    M = tuple(tuple(nv[r * w:(r + 1) * w]) for r in range(h))
    Mrot = tuple(tuple((nv[1:] + nv[:1])[r * w:(r + 1) * w]) for r in range(h))
    for fn in FNS:
        judge(f'lib {fn} numpy numbers|{h}x{w}', call(LIB[fn], M), vec[KEY[fn]])
    judge(f'lib SUMPRODUCT rot numpy numbers|{h}x{w}',
          call(excellib.sumproduct, M, Mrot), vec['sprot'])
    judge(f'lib SUMPRODUCT self numpy numbers|{h}x{w}',
          call(excellib.sumproduct, M, M), vec['spself'])
    # the range measured in large units (law Homogeneous)
    unit, unit2 = rnd.choice(UNITS), rnd.choice(UNITS)
    uvals = [pyval(c, rnd, unit) for c in cells]
    urot = [pyval(c, rnd, unit2) for c in cells[1:] + cells[:1]]
    M = tuple(tuple(uvals[r * w:(r + 1) * w]) for r in range(h))
    Mrot = tuple(tuple(urot[r * w:(r + 1) * w]) for r in range(h))
    units = dict(unit=unit, unit_rotated=unit2)
    for fn in FNS:
        judge(f'lib {fn} large unit|{h}x{w}', call(LIB[fn], M),
              scaled(vec[KEY[fn]], 1 if fn == 'COUNT' else unit), units)
    judge(f'lib SUMPRODUCT rot large unit|{h}x{w}', call(excellib.sumproduct, M, Mrot),
          scaled(vec['sprot'], unit * unit2), units)
    judge(f'lib SUMPRODUCT self large unit|{h}x{w}', call(excellib.sumproduct, M, M),
          scaled(vec['spself'], unit * unit), units)
    if not full:
        return viol, known, ncase, keys, 0

    # ---- one workbook holding every twin ---------------------------------
    sh = Sheet()
    # the range in large units, one shape (law Homogeneous)
    ru, rv = sh.place(uvals, h, w), sh.place(urot, h, w)
    RU, RV = ref(ru, 1, h, w), ref(rv, 1, h, w)
    for fn in FNS:
        sh.formula(f'={fn}({RU})', scaled(vec[KEY[fn]], 1 if fn == 'COUNT' else unit),
                   f'{fn}(range in units of {unit})')
    if n > 1:        # (1x1 ranges reach SUMPRODUCT as scalars: D44)
        sh.formula(f'=SUMPRODUCT({RU},{RV})', scaled(vec['sprot'], unit * unit2),
                   f'SUMPRODUCT(range in units of {unit},rotated in units of {unit2})')
        sh.formula(f'=SUMPRODUCT({RU},{RU})', scaled(vec['spself'], unit * unit),
                   f'SUMPRODUCT(range,range) in units of {unit}')
    for si, (h, w) in enumerate(shapes):
        r0 = sh.place(vals, h, w)
        R = ref(r0, 1, h, w)
        tag = f'|{h}x{w}'
        for fn in FNS:
            sh.formula(f'={fn}({R})', vec[KEY[fn]], f'{fn}(range){tag}')
        for num, fn in SUBTOTAL.items():
            sh.formula(f'=SUBTOTAL({num},{R})', vec[KEY[fn]], f'SUBTOTAL({num}){tag}')
            sh.formula(f'=SUBTOTAL({num + 100},{R})', vec[KEY[fn]],
                       f'SUBTOTAL({num + 100}){tag}')
        # SUMPRODUCT with the rotated twin and with itself
        rr = sh.place(rot, h, w)
        sh.formula(f'=SUMPRODUCT({R},{ref(rr, 1, h, w)})', vec['sprot'],
                   f'SUMPRODUCT(range,rotated){tag}')
        sh.formula(f'=SUMPRODUCT({ref(rr, 1, h, w)},{R})', vec['sprot'],
                   f'SUMPRODUCT(rotated,range){tag}')
        sh.formula(f'=SUMPRODUCT({R},{R})', vec['spself'], f'SUMPRODUCT(range,range){tag}')
        # against a range of ones the products are the cells themselves
        # (SumProductLaw): the SUM of the numeric cells, or an error of the range
        ro = sh.place([1] * n, h, w)
        as_sum = vec['sum'] if errfree else vec['errs']
        sh.formula(f'=SUMPRODUCT({R},{ref(ro, 1, h, w)})', as_sum,
                   f'SUMPRODUCT(range,ones){tag}')
        sh.formula(f'=SUMPRODUCT({ref(ro, 1, h, w)},{R})', as_sum,
                   f'SUMPRODUCT(ones,range){tag}')
        # one range: the products are the cells themselves (SumProductLaw, Ones)
        sh.formula(f'=SUMPRODUCT({R})', as_sum,
                   f'SUMPRODUCT(range){tag}')
        # the transposed rectangle (a permutation of the cells)
        if h > 1 and w > 1 or si == 0:
            tv = [vals[(i % h) * w + i // h] for i in range(n)]
            rt = sh.place(tv, w, h)
            for fn in FNS:
                sh.formula(f'={fn}({ref(rt, 1, w, h)})', twin_allowed(vec, fn, False),
                           f'{fn}(transposed){tag}')
        # split into two blocks of rows / of columns: multi-argument form
        if h > 1:
            k = rnd.randrange(1, h)
            top, bot = ref(r0, 1, k, w), ref(r0 + k, 1, h - k, w)
            for fn in FNS:
                sh.formula(f'={fn}({top},{bot})', vec[KEY[fn]], f'{fn}(top,bottom){tag}')
            # SUBTOTAL(n, ref1, ref2) names the same function over all references
            for num, fn in SUBTOTAL.items():
                sh.formula(f'=SUBTOTAL({num},{top},{bot})', vec[KEY[fn]],
                           f'SUBTOTAL({num},top,bottom){tag}')
            if errfree:
                sh.formula(f'=SUM({top})+SUM({bot})', vec['sum'], f'SUM(top)+SUM(bottom){tag}')
                sh.formula(f'=COUNT({top})+COUNT({bot})', vec['count'],
                           f'COUNT(top)+COUNT(bottom){tag}')
            # totals of subtotals (law TwoLevel): the aggregates of the two
            # blocks sit in two cells, which are aggregated again
            def subtotals(fmt):
                rs = sh.place([fmt.format(top, ref(ro, 1, k, w)),
                               fmt.format(bot, ref(ro + k, 1, h - k, w))], 1, 2)
                return ref(rs, 1, 1, 2)
            producers = [('SUM', '=SUM({0})'), ('SUBTOTAL(9)', '=SUBTOTAL(9,{0})')]
            if w > 1:    # (a 1x1 block reaches SUMPRODUCT as a scalar: D44)
                producers += [('SUMPRODUCT(block,ones)', '=SUMPRODUCT({0},{1})'),
                              ('SUMPRODUCT(ones,block)', '=SUMPRODUCT({1},{0})'),
                              ('SUMPRODUCT(block)', '=SUMPRODUCT({0})')]
            for name, fmt in producers:
                # with errors: SUM's is the first one, SUMPRODUCT's any of its block
                allowed = vec['sum'] if errfree or not name.startswith('SUMPRODUCT') \
                    else vec['errs']
                sub = subtotals(fmt)
                sh.formula(f'=SUM({sub})', allowed, f'SUM of the {name}s of top,bottom{tag}')
                if errfree:
                    sh.formula(f'=COUNT({sub})', [['R', 2, 1]],
                               f'COUNT of the {name}s of top,bottom{tag}')
            if errfree:
                counts = subtotals('=COUNT({0})')
                sh.formula(f'=SUM({counts})', vec['count'],
                           f'SUM of the COUNTs of top,bottom{tag}')
                if all(any(c[0] == 'N' for c in part)
                       for part in (cells[:k * w], cells[k * w:])):
                    sh.formula(f'=MAX({subtotals("=MAX({0})")})', vec['max'],
                               f'MAX of the MAXs of top,bottom{tag}')
                    sh.formula(f'=MIN({subtotals("=MIN({0})")})', vec['min'],
                               f'MIN of the MINs of top,bottom{tag}')
                    sh.formula(f'=SUMPRODUCT({subtotals("=AVERAGE({0})")},{counts})',
                               vec['sum'], f'SUMPRODUCT(AVERAGEs,COUNTs) of top,bottom{tag}')
        if w > 1:
            k = rnd.randrange(1, w)
            left, right = ref(r0, 1, h, k), ref(r0, 1 + k, h, w - k)
            for fn in FNS:
                sh.formula(f'={fn}({left},{right})', twin_allowed(vec, fn, False),
                           f'{fn}(left,right){tag}')
            if errfree:
                sh.formula(f'=SUM({left})+SUM({right})', vec['sum'],
                           f'SUM(left)+SUM(right){tag}')
    # a permuted copy of the cells, laid out as the first shape
    h, w = shapes[rnd.randrange(len(shapes))]
    rp = sh.place([vals[i] for i in perm], h, w)
    for fn in FNS:
        sh.formula(f'={fn}({ref(rp, 1, h, w)})', twin_allowed(vec, fn, False),
                   f'{fn}(permuted)')
    rq = sh.place([rot[i] for i in perm], h, w)
    sh.formula(f'=SUMPRODUCT({ref(rp, 1, h, w)},{ref(rq, 1, h, w)})', vec['sprot'],
               'SUMPRODUCT(permuted pair)')
    # each adjacent transposition (short ranges)
    if n <= 4:
        for i in range(n - 1):
            sw = list(vals)
            sw[i], sw[i + 1] = sw[i + 1], sw[i]
            rs = sh.place(sw, 1, n)
            for fn in FNS:
                sh.formula(f'={fn}({ref(rs, 1, 1, n)})', twin_allowed(vec, fn, False),
                           f'{fn}(transposition {i + 1})')
    # an arbitrary partition into two blocks, each its own range
    A = [vals[i] for i in range(n) if block[i]]
    B = [vals[i] for i in range(n) if not block[i]]
    if A and B:
        ra, rb = sh.place(A, 1, len(A)), sh.place(B, 1, len(B))
        RA, RB = ref(ra, 1, 1, len(A)), ref(rb, 1, 1, len(B))
        for fn in FNS:
            sh.formula(f'={fn}({RA},{RB})', twin_allowed(vec, fn, False),
                       f'{fn}(block A,block B)')
        if errfree:
            sh.formula(f'=SUM({RA})+SUM({RB})', vec['sum'], 'SUM(A)+SUM(B)')
            sh.formula(f'=COUNT({RA})+COUNT({RB})', vec['count'], 'COUNT(A)+COUNT(B)')
    try:
        model = xl.compile_wb(sh.cells)
    except Exception as exc:      # noqa
        viol.append((f'workbook does not compile: {exc!r}', case))
        return viol, known, ncase, keys, 0
    for addr, text, allowed, label in sh.formulas:
        try:
            got = model.evaluate('S!' + addr)
        except Exception as exc:  # noqa
            got = exc
        # named deviation: SUMPRODUCT over 1x1 ranges reaches the library as
        # scalars, and a scalar blank is passed on to prod() -> #VALUE!
        if (n == 1 and cells[0] == ['Z'] and text.startswith('=SUMPRODUCT')
                and got == '#VALUE!' and not matches(got, allowed)):
            ncase += 1
            known.append((f'formula {label}: {text} with a blank 1x1 range gives '
                          f'#VALUE!, allowed {show(allowed)}', dict(case, formula=text)))
            continue
        judge('formula ' + label, got, allowed, dict(formula=text))
    return viol, known, ncase, keys, len(sh.formulas)


def _work(args):
    vecs, seed, full_flags = args
    out = []
    for vec, full in zip(vecs, full_flags):
        out.append(check_vector(vec, seed, full))
    return out


def canon(vec):
    return json.dumps(vec['cells'])


def run(tier, seed):
    v = Verdict(PID, tier, seed)
    rnd = random.Random(seed)
    jobs = min(16, os.cpu_count() or 4)
    # fork the workers now, while this process is still small
    pool = ProcessPoolExecutor(max_workers=jobs)
    pool.submit(int, 0).result()

    # ---- TLC, three runs side by side:
    # exhaustive: all sequences up to length 4 over the 10-value pool;
    # -simulate: long ranges (up to 25 = 5x5) over the larger pools, most
    # traces over the error-free pool (a random long range over a pool with
    # errors nearly always holds one), the rest over the pool with errors
    quick = tier == 'quick'
    # (cfg, TLC workers, traces per worker)
    sims = (('Aggregates_big.cfg', 1 if quick else 4, 4 if quick else 30),
            ('Aggregates_bigerr.cfg', 1 if quick else 2, 2 if quick else 20))
    tlc.scratch_dir()          # create the shared scratch before the threads start
    with ThreadPoolExecutor(max_workers=3) as tp:
        f_mc = tp.submit(tlc.run, 'MC_Aggregates', 'Aggregates_mc.cfg', workers=4,
                         coverage=True, timeout=800)
        f_sims = [tp.submit(tlc.run, 'MC_Aggregates', cfg, workers=w,
                            simulate=dict(num=nt), depth=26, seed=seed + 1, timeout=800)
                  for cfg, w, nt in sims]
        res = f_mc.result()
        sim_res = [f.result() for f in f_sims]
    if not res.ok:
        raise tlc.MachineryFailure(
            f'Aggregates model violates {res.violated}:\n' + res.stdout[-2500:])
    if res.coverage.get('AppendCell', (0, 0))[1] == 0:
        raise tlc.MachineryFailure('vacuous: action AppendCell never taken')
    v.add_tlc(res, 'Aggregates_mc')
    vectors = res.json
    if len(vectors) < res.distinct - 1:      # the empty range is not exported
        raise tlc.MachineryFailure(
            f'export incomplete: {len(vectors)} vectors for {res.distinct} states')
    exhaustive_n = len(vectors)
    seen = {canon(x) for x in vectors}
    long_vecs = []
    for (cfg, w, nt), sim in zip(sims, sim_res):
        ntraces = w * nt
        if not sim.ok:
            raise tlc.MachineryFailure(
                f'Aggregates model ({cfg}, simulation) violates {sim.violated}:\n'
                + sim.stdout[-2500:])
        new = 0
        for x in sim.json:
            k = canon(x)
            if k not in seen and shapes_of(len(x['cells'])):
                seen.add(k)
                long_vecs.append(x)
                new += 1
        if new < ntraces * 5:
            raise tlc.MachineryFailure(
                f'simulation export too small: {new} vectors from {ntraces} traces')
        v.states += new
        v.transitions += len(sim.json)
        v.tlc_runs.append(dict(run=cfg[:-4] + ' -simulate', traces=ntraces,
                               exported=len(sim.json), new_vectors=new,
                               wall_s=round(sim.wall, 2)))
    vectors = vectors + long_vecs

    # quick: every vector through the library; workbooks for every range of
    # length <= 2, 30% of length 3, a seeded 4% of length 4 and the long
    # ones; thorough: a workbook for every vector
    def full(vec):
        n = len(vec['cells'])
        return (tier != 'quick' or n <= 2 or n > 4
                or rnd.random() < (0.3 if n == 3 else 0.04))
    flags = [full(x) for x in vectors]
    order = list(range(len(vectors)))
    rnd.shuffle(order)
    chunk = max(1, len(order) // (jobs * 8))
    tasks = []
    for i in range(0, len(order), chunk):
        idx = order[i:i + chunk]
        tasks.append(([vectors[j] for j in idx], seed, [flags[j] for j in idx]))
    t_drive = time.time()
    nform = nfull = 0
    with pool as ex:
        for task, results in zip(tasks, ex.map(_work, tasks)):
            for vec, (viol, known, ncase, keys, nf) in zip(task[0], results):
                ck = canon(vec)
                for k in keys:
                    v.distinct.add((k, ck))
                v.evaluations += ncase
                nform += nf
                nfull += nf > 0
                for desc, case in viol:
                    v.violation(desc, case)
                for desc, case in known:
                    v.known_finding(FINDING_SCALAR_BLANK, desc, case)
                if nf:
                    v.sample(dict(cells=vec['cells'], sum=show(vec['sum']),
                                  average=show(vec['average']), count=show(vec['count']),
                                  sumproduct_rot=show(vec['sprot'])))
    v.traces = nfull
    # discrepancies grouped by (check, outcome) with the numbers blanked out
    classes = Counter(re.sub(r'-?\d+(\.\d+)?', '#', re.sub(r'\|\d+x\d+', '', x['desc']))[:110]
                      for x in v.violations)
    v.extra['violation_classes'] = [f'{n} x {k}' for k, n in classes.most_common(25)]
    v.extra['phase_s'] = dict(tlc=round(t_drive - v.t0, 1), drive=round(time.time() - t_drive, 1))
    v.extra.update(
        exhaustive=True, exhaustive_vectors=exhaustive_n,
        simulated_vectors=len(long_vecs), max_len_exhaustive=4, max_len_simulated=25,
        workbooks_built=nfull, formulas_evaluated=nform,
        coverage_actions={k: list(c) for k, c in res.coverage.items()},
        laws=['FoldStep', 'SumStep', 'PermInvariant', 'ReshapeInvariant', 'SplitAdditive',
              'PartitionAdditive', 'AverageLaw', 'MinMaxLaw', 'IgnoresNonNumeric',
              'FirstErrorLaw', 'SubtotalLaw', 'SumProductLaw', 'Homogeneous', 'TwoLevel'],
        units=list(UNITS),
        number_cells=['int constant', 'float constant', 'numpy integer / numpy float '
                      '(library calls)', 'result of a SUM / SUBTOTAL / SUMPRODUCT / COUNT / '
                      'MAX / MIN / AVERAGE formula (workbooks, TwoLevel)'],
        unconstrained=['COUNT / SUBTOTAL(2) over a range holding an error value: the '
                       'count of numeric cells and the first error are both allowed',
                       'which error SUMPRODUCT returns when its ranges hold different '
                       'error values',
                       'which error is returned by a permuted/transposed/column-split '
                       'copy of a range holding several different error values'],
        rule='one case = (function or law instance, range contents, shape); '
             'every sequence of length <= 4 over the 10-value pool is a vector; '
             'quick builds workbooks for all of length <= 2, 30% of length 3, 4% of '
             'length 4 and the simulated long ranges, thorough for every vector')
    v.assumptions = ['TLC evaluates Aggregates.tla/CellValues.tla correctly',
                     'pool numbers are multiples of 1/2, so binary floating point sums are '
                     'exact; results are compared with relative tolerance 1e-9']
    return v.finish()


def tla(x):
    """JSON value exported by TLC -> TLA+ literal"""
    if isinstance(x, list):
        return '<<' + ', '.join(tla(y) for y in x) + '>>'
    if isinstance(x, str):
        return '"' + x + '"'
    return str(x)


def replay(path):
    """Re-run one recorded discrepancy: TLC re-derives the allowed results for
    the recorded range (all laws checked on it), then the real code is driven."""
    with open(path) as f:
        rec = json.load(f)
    cells = rec['case']['cells']
    d = tlc.new_scratch('replay')
    with open(os.path.join(d, 'ReplayAggregates.tla'), 'w') as f:
        f.write(f'---- MODULE ReplayAggregates ----\nEXTENDS MC_Aggregates\n'
                f'RSeq == {tla(cells)}\nRInit == s = RSeq\nRNext == UNCHANGED s\n====\n')
    cfg = open(os.path.join(tlc.SPEC, 'Aggregates_big.cfg')).read()
    cfg = cfg.replace('SPECIFICATION Spec', 'INIT RInit\nNEXT RNext')
    cfg = '\n'.join(line for line in cfg.splitlines()
                    if not line.startswith(('PROPERTY', 'INVARIANT TypeOK')))
    with open(os.path.join(d, 'R.cfg'), 'w') as f:
        f.write(cfg + '\n')
    res = tlc.run('ReplayAggregates', 'R.cfg', spec_dir=d, workers=1, library=tlc.SPEC)
    if not res.ok or len(res.json) != 1:
        raise tlc.MachineryFailure('replay: TLC failed on the recorded range:\n'
                                   + res.stdout[-1500:])
    vec = res.json[0]
    seed = int(os.environ.get('VERIF_SEED', '0') or 0)
    viol, known, ncase, keys, nf = check_vector(vec, seed, True)
    print(f'replay {PID}: range {cells}; {ncase} cases, {nf} formulas')
    from harness.evidence import load_findings
    listed = any(e['id'] == FINDING_SCALAR_BLANK and e.get('status') == 'known'
                 for e in load_findings(PID))
    for desc, case in known:
        if listed:
            print(f'KNOWN-FINDING: property={PID} {FINDING_SCALAR_BLANK} {desc}')
        else:
            viol.append((desc + f' [unlisted finding id {FINDING_SCALAR_BLANK}]', case))
    for desc, case in viol:
        print(f'VIOLATION property={PID} replay={path}\n  {desc}')
    return 1 if viol else 0
