"""C15 -- conditional aggregation (...IF / ...IFS) selects exactly the matching cells.

Spec: spec/Criteria.tla (+ CellValues.tla).  Matches(cell, criterion) is a
relation (the set of allowed truth values); the selection of an ...IFS call is
the intersection over its (range, criterion) pairs; the consumers COUNTIF(S),
SUMIF(S), AVERAGEIF(S), MAXIFS, MINIFS aggregate the selected positions.
TLC checks Total, OneCriterion, Commute, Narrowing, Partition, NoOpIsEq,
TextVsNumber, Trichotomy, CaseInsensitive, StarLaw, AverageLaw on the
definitions and exports every visited (range, criteria) state with the masks
of the positions that must / may be selected and, per allowed selection, the
allowed result of every consumer.

Binding: every state becomes a workbook: the criteria ranges (criterion j
looks at the range rotated by j-1 cells), a range of power-of-two weights
(=SUMIFS(weights, ...) recovers the selected *positions*), a numeric data
range, and one formula per consumer; the library functions are also called
directly.  Observed selections and values must be allowed by the export; the
relational laws of the statement (one-criterion IFS = IF, criteria commute,
"=x"/"<>x" partition, AVERAGEIFS = SUMIFS/COUNTIFS) are checked between the
observed values themselves.  An exception escaping a function is a
discrepancy ("cells of any type never make the function fail").

Besides the numeric data range and the criteria range itself the consumers
aggregate a third range of mixed cells (blank, numbers, text, a logical, an
error value; Criteria!Mixed, every starting point for ranges of one or two
cells): SUMIF/AVERAGEIF(range, criterion, mixed) against
SUMIFS/AVERAGEIFS(mixed, range, criterion) and both against the export.
One-cell ranges reach the library as scalars, also in the direct calls.  A
criterion may be read from a blank cell (it is the number 0), and texts may
hold a line break.
"""
import json
import os
import random
import re
import time
from collections import Counter
from concurrent.futures import ProcessPoolExecutor, ThreadPoolExecutor
from fractions import Fraction

from harness import tlc, xl
from harness.evidence import Verdict

PID = 'C15'
SCALE = 2
# proposed known finding: "=x" and "<>x" both select a text cell that reads as
# the number x (pinned by tests/test_excelutil.py::test_criteria_parser)
FINDING_NUMTEXT_BOTH = 'C15_r3_4'


def num(k):
    """the number k / SCALE as Python value and as Excel text"""
    if k % SCALE == 0:
        return k // SCALE, str(k // SCALE)
    return k / SCALE, repr(k / SCALE)


def pyval(cell, rnd):
    tag = cell[0]
    if tag == 'N':
        val = num(cell[1])[0]
        return float(val) if rnd.random() < 0.3 else val
    if tag == 'S':
        return ''.join(cell[1])
    if tag == 'B':
        return bool(cell[1])
    if tag == 'Z':
        return None
    if tag == 'E':
        return cell[1]
    raise ValueError(cell)


BLANK_CELL = 'AV1'      # never written: the criterion read from a blank cell


def crit_text(cr):
    """the criterion as text; None for the one read from a blank cell"""
    op, v = cr
    if v[0] == 'Z':
        return None
    return op + (num(v[1])[1] if v[0] == 'N' else ''.join(v[1]))


def crit_py(cr, rnd):
    """criterion as the Python value handed to the library function"""
    op, v = cr
    if v[0] == 'N' and op == '' and rnd.random() < 0.5:
        return num(v[1])[0]
    return crit_text(cr)


def crit_formula(cr, rnd):
    """criterion as it is written inside a formula"""
    op, v = cr
    if v[0] == 'Z':
        return BLANK_CELL
    if v[0] == 'N' and op == '' and rnd.random() < 0.5:
        return num(v[1])[1]
    return '"' + crit_text(cr).replace('"', '""') + '"'


def number_of_text(cell):
    """the number a text cell reads as, else None"""
    if cell[0] != 'S':
        return None
    try:
        return float(''.join(cell[1]))
    except ValueError:
        return None


def flip(cr):
    return ['=' if cr[0] == '<>' else '<>', cr[1]]


def matches(got, allowed):
    for a in allowed:
        if a[0] == 'E':
            if isinstance(got, str) and got == a[1]:
                return True
        elif xl.typeclass(got) == 'num':
            want = Fraction(a[1], a[2])
            if abs(Fraction(float(got)) - want) <= Fraction(1, 10 ** 9) * max(1, abs(want)):
                return True
    return False


def show(allowed):
    out = []
    for a in allowed:
        x = a[1] if a[0] == 'E' else a[1] / a[2]
        if x not in out:
            out.append(x)
    return out


def union(outs, key):
    res = []
    for o in outs:
        for a in o[key]:
            if a not in res:
                res.append(a)
    return res


def col(c):
    s = ''
    while c:
        c, r = divmod(c - 1, 26)
        s = chr(65 + r) + s
    return s


def ref(r0, c0, h, w):
    return f'{col(c0)}{r0}:{col(c0 + w - 1)}{r0 + h - 1}'


def shapes_of(n):
    return [(h, n // h) for h in range(1, n + 1)
            if n % h == 0 and h <= 5 and n // h <= 5]


def is_int(x):
    return xl.typeclass(x) == 'num' and float(x) == int(x)


def check_vector(vec, seed, full):
    from pycel import excellib
    from pycel.lib import stats
    rnd = random.Random(f'{seed}:{json.dumps(vec["rng"])}:{json.dumps(vec["crits"])}')
    rng, crits = vec['rng'], vec['crits']
    n, k = len(rng), len(crits)
    outs = vec['outs']
    enum = vec['enum']
    must, may = vec['must'], vec['may']
    fullmask = (1 << n) - 1
    vals = [pyval(c, rnd) for c in rng]
    data = [num(c[1])[0] for c in vec['data']]
    weights = [1 << i for i in range(n)]
    ctexts = [crit_text(c) for c in crits]
    case = dict(range=vals, cells=rng, criteria=ctexts, crits=crits)
    viol, known, keys = [], [], []
    ncase = 0

    def bad(label, text, extra=None):
        viol.append((f'{label}: {text}', dict(case, what=label, **(extra or {}))))

    def ran(label, got, extra=None):
        """count the case; an exception is a discrepancy"""
        nonlocal ncase
        ncase += 1
        keys.append(label.split('|')[0])
        if isinstance(got, Exception):
            # a FormulaEvalError ends with the cause and the "Eval: ..." line
            lines = [ln for ln in str(got).strip().splitlines() if ln.strip()]
            if len(lines) > 1 and lines[-1].startswith('Eval:'):
                lines = [lines[-2], lines[-1]]
            msg = ' | '.join(lines[-2:])[:200]
            bad(label, f'raised {type(got).__name__}: {msg}', extra)
            return False
        return True

    def sel_ok(label, got, extra=None):
        """got = sum of the weights of the selected positions"""
        if not ran(label, got, extra):
            return None
        if not is_int(got) or not 0 <= int(got) <= fullmask:
            bad(label, f'got {got!r}, not a set of positions', extra)
            return None
        m = int(got)
        if m & ~may or must & ~m or (enum and m not in {o['mask'] for o in outs}):
            wrong_in = [i + 1 for i in range(n) if m >> i & 1 and not may >> i & 1]
            wrong_out = [i + 1 for i in range(n) if must >> i & 1 and not m >> i & 1]
            bad(label, f'selected positions {[i + 1 for i in range(n) if m >> i & 1]}; '
                       f'wrongly selected {wrong_in}, wrongly left out {wrong_out} '
                       f'(must {[i + 1 for i in range(n) if must >> i & 1]}, '
                       f'may {[i + 1 for i in range(n) if may >> i & 1]})', extra)
        return m

    def val_ok(label, got, key, extra=None, outs=outs):
        if not ran(label, got, extra):
            return
        if not enum:
            if not (xl.typeclass(got) in ('num', 'err')
                    or key in ('omax', 'omin', 'mmax', 'mmin') and isinstance(got, bool)):
                bad(label, f'got {got!r}, neither a number nor an error value', extra)
            return
        allowed = [['R', o['count'], 1] for o in outs] if key == 'count' else union(outs, key)
        if key in ('omax', 'omin', 'mmax', 'mmin') and isinstance(got, bool):
            # a selected logical of the aggregated range: whether it counts
            # is left open, and so is the type in which MAXIFS/MINIFS hand it back
            got = int(got)
        if not matches(got, allowed):
            bad(label, f'got {got!r}, allowed {show(allowed)}', extra)

    def same(label, a, b, extra=None):
        nonlocal ncase
        ncase += 1
        keys.append(label.split('|')[0])
        if isinstance(a, Exception) or isinstance(b, Exception):
            return                       # already reported by ran()
        ok = (a == b) if isinstance(a, str) or isinstance(b, str) else \
            (xl.typeclass(a) == xl.typeclass(b) == 'num'
             and abs(float(a) - float(b)) <= 1e-9 * max(1.0, abs(float(a))))
        if not ok:
            bad(label, f'{a!r} != {b!r}', extra)

    def call(fn, *args):
        try:
            return fn(*args)
        except Exception as exc:     # noqa
            return exc

    shapes = shapes_of(n)
    if not shapes:
        return viol, known, ncase, keys, 0

    def mat(seq, h, w):
        return tuple(tuple(seq[r * w:(r + 1) * w]) for r in range(h))

    def rot(seq, j):
        return [seq[(i + j) % n] for i in range(n)]

    # ---- library calls -----------------------------------------------------
    h, w = shapes[rnd.randrange(len(shapes))]
    R = [mat(rot(vals, j), h, w) for j in range(k)]
    W, D = mat(weights, h, w), mat(data, h, w)
    cpy = [crit_py(c, rnd) for c in crits]
    pairs = [x for j in range(k) for x in (R[j], cpy[j])]
    tag = f'|{h}x{w}'
    sel_ok('lib SUMIFS(weights)' + tag, call(excellib.sumifs, W, *pairs))
    val_ok('lib COUNTIFS' + tag, call(stats.countifs, *pairs), 'count')
    val_ok('lib SUMIFS(data)' + tag, call(excellib.sumifs, D, *pairs), 'dsum')
    val_ok('lib AVERAGEIFS(data)' + tag, call(stats.averageifs, D, *pairs), 'davg')
    val_ok('lib MAXIFS(data)' + tag, call(stats.maxifs, D, *pairs), 'dmax')
    val_ok('lib MINIFS(data)' + tag, call(stats.minifs, D, *pairs), 'dmin')
    val_ok('lib SUMIFS(range)' + tag, call(excellib.sumifs, R[0], *pairs), 'osum')
    val_ok('lib AVERAGEIFS(range)' + tag, call(stats.averageifs, R[0], *pairs), 'oavg')
    val_ok('lib MAXIFS(range)' + tag, call(stats.maxifs, R[0], *pairs), 'omax')
    val_ok('lib MINIFS(range)' + tag, call(stats.minifs, R[0], *pairs), 'omin')
    if k == 1:
        sel_ok('lib SUMIF(range,crit,weights)' + tag,
               call(excellib.sumif, R[0], cpy[0], W))
        val_ok('lib COUNTIF' + tag, call(stats.countif, R[0], cpy[0]), 'count')
        val_ok('lib SUMIF(range,crit)' + tag, call(excellib.sumif, R[0], cpy[0]), 'osum')
        val_ok('lib AVERAGEIF(range,crit)' + tag,
               call(stats.averageif, R[0], cpy[0]), 'oavg')
        val_ok('lib AVERAGEIF(range,crit,data)' + tag,
               call(stats.averageif, R[0], cpy[0], D), 'davg')
    # the mixed third range, from every exported starting point; one-cell
    # ranges also the way a compiled formula hands them over: as scalars
    mixed = sorted(vec['mixed'], key=lambda m: m['o'])
    for mx in mixed:
        mvals = [pyval(c, rnd) for c in mx['cells']]
        forms = [('', R, mat(mvals, h, w))]
        if n == 1:
            forms.append((' scalars', [vals[0]] * k, mvals[0]))
        for how, Rs, Mx in forms:
            prs = [x for j in range(k) for x in (Rs[j], cpy[j])]
            mtag = f'{how} mixed+{mx["o"]}{tag}'
            ex = dict(mixed=mvals)
            ifs = {}
            for name, fn, key in (('SUMIFS', excellib.sumifs, 'msum'),
                                  ('AVERAGEIFS', stats.averageifs, 'mavg'),
                                  ('MAXIFS', stats.maxifs, 'mmax'),
                                  ('MINIFS', stats.minifs, 'mmin')):
                ifs[name] = call(fn, Mx, *prs)
                val_ok(f'lib {name}(mixed)' + mtag, ifs[name], key, ex, mx['outs'])
            if k == 1:
                for name, fn, key in (('SUMIF', excellib.sumif, 'msum'),
                                      ('AVERAGEIF', stats.averageif, 'mavg')):
                    got = call(fn, Rs[0], cpy[0], Mx)
                    val_ok(f'lib {name}(range,crit,mixed)' + mtag, got, key, ex, mx['outs'])
                    same(f'lib {name}S={name} (mixed)' + mtag, ifs[name + 'S'], got, ex)
    if not full:
        return viol, known, ncase, keys, 0

    # ---- workbook ------------------------------------------------------------
    cells = {}
    band = [0]

    def place(seq, hh, ww, empty_as_formula=False):
        r0 = 1 + 8 * band[0]
        band[0] += 1
        for i, val in enumerate(seq):
            if val is None:
                continue
            if val == '' and isinstance(val, str) and empty_as_formula:
                val = '=""'
            cells[f'{col(1 + i % ww)}{r0 + i // ww}'] = val
        return ref(r0, 1, hh, ww)

    formulas = []

    def formula(text):
        addr = f'AZ{len(formulas) + 1}'
        cells[addr] = text
        formulas.append(addr)
        return len(formulas) - 1

    plan = []          # (kind, label, formula index(es), key, extra)
    for si, (h, w) in enumerate(shapes):
        tag = f'|{h}x{w}'
        Rr = [place(rot(vals, j), h, w, empty_as_formula=rnd.random() < 0.5)
              for j in range(k)]
        Wr, Dr = place(weights, h, w), place(data, h, w)
        cf = [crit_formula(c, rnd) for c in crits]
        # a criterion may also sit in a cell (not the ones that would be
        # read back as a formula or as a blank)
        for j in range(k):
            if ctexts[j] and not ctexts[j].startswith('=') and rnd.random() < 0.3:
                a = f'AX{len(cells) + 1}'
                cells[a] = ctexts[j]
                cf[j] = a
        args = ','.join(f'{Rr[j]},{cf[j]}' for j in range(k))
        fm = formula(f'=SUMIFS({Wr},{args})')
        plan.append(('sel', 'SUMIFS(weights)' + tag, fm, None))
        fc = formula(f'=COUNTIFS({args})')
        plan.append(('val', 'COUNTIFS' + tag, fc, 'count'))
        fs = formula(f'=SUMIFS({Dr},{args})')
        plan.append(('val', 'SUMIFS(data)' + tag, fs, 'dsum'))
        fa = formula(f'=AVERAGEIFS({Dr},{args})')
        plan.append(('val', 'AVERAGEIFS(data)' + tag, fa, 'davg'))
        plan.append(('avg', 'AVERAGEIFS=SUMIFS/COUNTIFS' + tag, (fa, fs, fc), None))
        plan.append(('val', 'MAXIFS(data)' + tag, formula(f'=MAXIFS({Dr},{args})'), 'dmax'))
        plan.append(('val', 'MINIFS(data)' + tag, formula(f'=MINIFS({Dr},{args})'), 'dmin'))
        if si == 0 or full > 1:
            plan.append(('val', 'SUMIFS(range)' + tag,
                         formula(f'=SUMIFS({Rr[0]},{args})'), 'osum'))
            plan.append(('val', 'AVERAGEIFS(range)' + tag,
                         formula(f'=AVERAGEIFS({Rr[0]},{args})'), 'oavg'))
            plan.append(('val', 'MAXIFS(range)' + tag,
                         formula(f'=MAXIFS({Rr[0]},{args})'), 'omax'))
            plan.append(('val', 'MINIFS(range)' + tag,
                         formula(f'=MINIFS({Rr[0]},{args})'), 'omin'))
        if k == 1:
            f1 = formula(f'=SUMIF({Rr[0]},{cf[0]},{Wr})')
            plan.append(('sel', 'SUMIF(range,crit,weights)' + tag, f1, None))
            plan.append(('same', 'SUMIFS=SUMIF (one criterion)' + tag, (fm, f1), None))
            f2 = formula(f'=COUNTIF({Rr[0]},{cf[0]})')
            plan.append(('val', 'COUNTIF' + tag, f2, 'count'))
            plan.append(('same', 'COUNTIFS=COUNTIF (one criterion)' + tag, (fc, f2), None))
            f3 = formula(f'=AVERAGEIF({Rr[0]},{cf[0]},{Dr})')
            plan.append(('val', 'AVERAGEIF(range,crit,data)' + tag, f3, 'davg'))
            plan.append(('same', 'AVERAGEIFS=AVERAGEIF (one criterion)' + tag, (fa, f3), None))
            if si == 0 and n > 1:
                # the criteria range a column, the sum range a row of as many
                # cells (and the other way round): whatever the answer, both
                # forms give it (the first cells of the vector: a band of the
                # sheet holds 8 rows)
                m5 = min(n, 5)
                for (rh, rw) in ((m5, 1), (1, m5)):
                    Rc, Wt = place(vals[:m5], rh, rw), place(weights[:m5], rw, rh)
                    ttag = f'|{rh}x{rw}'
                    plan.append(('same', 'SUMIFS=SUMIF (sum range transposed)' + ttag,
                                 (formula(f'=SUMIFS({Wt},{Rc},{cf[0]})'),
                                  formula(f'=SUMIF({Rc},{cf[0]},{Wt})')), None))
                    plan.append(('same',
                                 'AVERAGEIFS=AVERAGEIF (average range transposed)' + ttag,
                                 (formula(f'=AVERAGEIFS({Wt},{Rc},{cf[0]})'),
                                  formula(f'=AVERAGEIF({Rc},{cf[0]},{Wt})')), None))
            plan.append(('val', 'SUMIF(range,crit)' + tag,
                         formula(f'=SUMIF({Rr[0]},{cf[0]})'), 'osum'))
            plan.append(('val', 'AVERAGEIF(range,crit)' + tag,
                         formula(f'=AVERAGEIF({Rr[0]},{cf[0]})'), 'oavg'))
            if vec['part']:
                # "=x" and "<>x" partition the range
                twin = '"' + crit_text(flip(crits[0])).replace('"', '""') + '"'
                ft = formula(f'=SUMIFS({Wr},{Rr[0]},{twin})')
                plan.append(('part', '"=x"/"<>x" partition' + tag, (fm, ft), None))
        else:
            # criteria commute: the pairs in reversed and in rotated order
            rev = ','.join(f'{Rr[j]},{cf[j]}' for j in reversed(range(k)))
            fr = formula(f'=SUMIFS({Wr},{rev})')
            plan.append(('sel', 'SUMIFS(weights) pairs reversed' + tag, fr, None))
            plan.append(('same', 'criteria commute (SUMIFS)' + tag, (fm, fr), None))
            rol = ','.join(f'{Rr[j]},{cf[j]}' for j in list(range(1, k)) + [0])
            fr2 = formula(f'=COUNTIFS({rol})')
            plan.append(('same', 'criteria commute (COUNTIFS)' + tag, (fc, fr2), None))
        # the mixed third range (every starting point; first shape only in
        # the quick tier)
        if si == 0 or full > 1:
            for mx in mixed:
                Mr = place([pyval(c, rnd) for c in mx['cells']], h, w)
                mtag = f' mixed+{mx["o"]}{tag}'
                fi = {}
                for name, key in (('SUMIFS', 'msum'), ('AVERAGEIFS', 'mavg'),
                                  ('MAXIFS', 'mmax'), ('MINIFS', 'mmin')):
                    fi[name] = formula(f'={name}({Mr},{args})')
                    plan.append(('val', f'{name}(mixed)' + mtag, fi[name], key, mx['outs']))
                if k == 1:
                    for name, key in (('SUMIF', 'msum'), ('AVERAGEIF', 'mavg')):
                        f1 = formula(f'={name}({Rr[0]},{cf[0]},{Mr})')
                        plan.append(('val', f'{name}(range,crit,mixed)' + mtag, f1, key,
                                     mx['outs']))
                        plan.append(('same', f'{name}S={name} (mixed)' + mtag,
                                     (fi[name + 'S'], f1), None))
    try:
        model = xl.compile_wb(cells)
    except Exception as exc:       # noqa
        bad('workbook', f'does not compile: {exc!r}')
        return viol, known, ncase, keys, 0
    got = []
    for addr in formulas:
        try:
            got.append(model.evaluate('S!' + addr))
        except Exception as exc:   # noqa
            got.append(exc)
    sels = {}
    for kind, label, fi, key, *rest in plan:
        label = 'formula ' + label
        if kind == 'sel':
            sels[fi] = sel_ok(label, got[fi], dict(formula=cells[formulas[fi]]))
        elif kind == 'val':
            val_ok(label, got[fi], key, dict(formula=cells[formulas[fi]]), *rest)
        elif kind == 'same':
            same(label, got[fi[0]], got[fi[1]],
                 dict(formulas=[cells[formulas[i]] for i in fi]))
        elif kind == 'avg':
            a, s_, c_ = (got[i] for i in fi)
            ncase += 1
            keys.append(label.split('|')[0])
            if any(isinstance(x, Exception) for x in (a, s_, c_)):
                continue
            ex = dict(formulas=[cells[formulas[i]] for i in fi])
            if xl.typeclass(c_) == 'num' and c_ == 0:
                if a != '#DIV/0!':
                    bad(label, f'nothing selected but AVERAGEIFS = {a!r}', ex)
            elif all(xl.typeclass(x) == 'num' for x in (a, s_, c_)):
                if abs(float(a) - float(s_) / float(c_)) > 1e-9 * max(1.0, abs(float(a))):
                    bad(label, f'AVERAGEIFS {a!r} != SUMIFS {s_!r} / COUNTIFS {c_!r}', ex)
            else:
                bad(label, f'AVERAGEIFS {a!r}, SUMIFS {s_!r}, COUNTIFS {c_!r}', ex)
        elif kind == 'part':
            ncase += 1
            keys.append(label.split('|')[0])
            a, b = got[fi[0]], got[fi[1]]
            ex = dict(formulas=[cells[formulas[i]] for i in fi])
            if isinstance(b, Exception):
                ran(label, b, ex)
                continue
            if isinstance(a, Exception) or not is_int(a) or not is_int(b):
                continue
            a, b, fx = int(a), int(b), vec['compl']
            # (>> binds tighter than &: the masks are combined first)
            both = [i for i in range(n) if (a & b & fx) >> i & 1]
            none = [i for i in range(n) if (~(a | b) & fx) >> i & 1]
            # named deviation: a text cell that reads as the number x is
            # selected by "=x" (as the number) and by "<>x" (as a text)
            x = crits[0][1]
            named = [i for i in both
                     if x[0] == 'N' and number_of_text(rng[i]) == x[1] / SCALE]
            if named:
                ncase += 1
                known.append((f'{label}: text cells {[vals[i] for i in named]} at positions '
                              f'{[i + 1 for i in named]} are selected by both '
                              f'"{ctexts[0]}" and "{crit_text(flip(crits[0]))}"', dict(case, **ex)))
                both = [i for i in both if i not in named]
            if both or none:
                bad(label, f'positions selected by both {[i + 1 for i in both]}, '
                           f'by neither {[i + 1 for i in none]}', ex)
    return viol, known, ncase, keys, len(formulas)


def _work(args):
    vecs, seed, flags = args
    return [check_vector(vec, seed, fl) for vec, fl in zip(vecs, flags)]


def canon(vec):
    return json.dumps([vec['rng'], vec['crits']])


def run(tier, seed):
    v = Verdict(PID, tier, seed)
    rnd = random.Random(seed)
    jobs = min(16, os.cpu_count() or 4)
    # fork the workers now, while this process is still small
    pool = ProcessPoolExecutor(max_workers=jobs)
    pool.submit(int, 0).result()

    # ---- TLC: the exhaustive run and the simulation run side by side ---------
    # exhaustive: one cell x 1..2 criteria (thorough: also two cells x one
    # criterion); -simulate: ranges up to 15 cells, up to three criteria
    cfg = 'Criteria_mc.cfg' if tier == 'quick' else 'Criteria_mc2.cfg'
    quick = tier == 'quick'
    simw, simn = (1, 4) if quick else (4, 25)       # -simulate num is per worker
    ntraces = simw * simn
    tlc.scratch_dir()          # create the shared scratch before the threads start
    with ThreadPoolExecutor(max_workers=2) as tp:
        f_mc = tp.submit(tlc.run, 'MC_Criteria', cfg, workers=4,
                         coverage=True, timeout=840)
        f_sim = tp.submit(tlc.run, 'MC_Criteria', 'Criteria_big.cfg', workers=simw,
                          simulate=dict(num=simn), depth=19, seed=seed + 1, timeout=840)
        res, sim = f_mc.result(), f_sim.result()
    if not res.ok:
        raise tlc.MachineryFailure(
            f'Criteria model violates {res.violated}:\n' + res.stdout[-2500:])
    if res.coverage.get('AppendCell', (0, 0))[1] == 0:
        raise tlc.MachineryFailure('vacuous: action AppendCell never taken')
    v.add_tlc(res, cfg[:-4])
    vectors = res.json
    if not any(len(x['crits']) == 2 for x in vectors):
        raise tlc.MachineryFailure('vacuous: action AddCrit never taken twice')
    # states without a criterion (the empty range, the bare ranges) are not exported
    bare = sum(22 ** i for i in range(0, 2 if tier == 'quick' else 3))
    if len(vectors) < res.distinct - bare:
        raise tlc.MachineryFailure(
            f'export incomplete: {len(vectors)} vectors for {res.distinct} states')
    exhaustive_n = len(vectors)
    if not sim.ok:
        raise tlc.MachineryFailure(
            f'Criteria model (simulation) violates {sim.violated}:\n' + sim.stdout[-2500:])
    seen = {canon(x) for x in vectors}
    long_vecs = []
    for x in sim.json:
        c = canon(x)
        if c not in seen and shapes_of(len(x['rng'])):
            seen.add(c)
            long_vecs.append(x)
    if len(long_vecs) < ntraces * 4:
        raise tlc.MachineryFailure(
            f'simulation export too small: {len(long_vecs)} vectors from {ntraces} traces')
    v.states += len(long_vecs)
    v.transitions += len(sim.json)
    v.tlc_runs.append(dict(run='Criteria_big -simulate', traces=ntraces,
                           exported=len(sim.json), new_vectors=len(long_vecs),
                           wall_s=round(sim.wall, 2)))
    vectors = vectors + long_vecs
    skipped = sum(1 for x in vectors if not x['enum'])

    # quick: every vector through the library; a workbook for every
    # one-criterion vector, a seeded 15% of the two-criteria single cells
    # and every simulated range.  thorough: a workbook for every vector.
    def full(vec):
        if tier != 'quick':
            return 2
        return 1 if (len(vec['crits']) == 1 or len(vec['rng']) > 1
                     or rnd.random() < 0.15) else 0
    flags = [full(x) for x in vectors]
    order = list(range(len(vectors)))
    rnd.shuffle(order)
    chunk = max(1, len(order) // (jobs * 8))
    tasks = []
    for i in range(0, len(order), chunk):
        idx = order[i:i + chunk]
        tasks.append(([vectors[j] for j in idx], seed, [flags[j] for j in idx]))
    t_drive = time.time()
    nform = nfull = 0
    with pool as ex:
        for task, results in zip(tasks, ex.map(_work, tasks)):
            for vec, (viol, known, ncase, keys, nf) in zip(task[0], results):
                ck = canon(vec)
                for key in keys:
                    v.distinct.add((key, ck))
                v.evaluations += ncase
                nform += nf
                nfull += nf > 0
                for desc, case in viol:
                    v.violation(desc, case)
                for desc, case in known:
                    v.known_finding(FINDING_NUMTEXT_BOTH, desc, case)
                if nf and len(vec['rng']) > 2:
                    v.sample(dict(range=vec['rng'], criteria=[crit_text(c) for c in vec['crits']],
                                  must=vec['must'], may=vec['may']))
    v.traces = nfull
    # discrepancies grouped by (check, outcome) with the numbers blanked out
    classes = Counter(re.sub(r'-?\d+(\.\d+)?', '#', re.sub(r'\|\d+x\d+', '', x['desc']))[:110]
                      for x in v.violations)
    v.extra['violation_classes'] = [f'{n} x {k}' for k, n in classes.most_common(25)]
    v.extra['phase_s'] = dict(tlc=round(t_drive - v.t0, 1), drive=round(time.time() - t_drive, 1))
    v.extra.update(
        exhaustive=True, exhaustive_vectors=exhaustive_n,
        simulated_vectors=len(long_vecs), workbooks_built=nfull,
        formulas_evaluated=nform, vectors_not_enumerable=skipped,
        bounds=dict(cells=22, criteria=63, second_criteria=12, mixed_third_range=7,
                    exhaustive='1 cell x 1..2 criteria' if tier == 'quick'
                    else '1 cell x 1..2 criteria, 2 cells x 1 criterion',
                    simulated='up to 15 cells (5x3 / 3x5), 1..3 criteria'),
        coverage_actions={k: list(c) for k, c in res.coverage.items()},
        laws=['Total', 'OneCriterion', 'Commute', 'Narrowing', 'Partition', 'NoOpIsEq',
              'TextVsNumber', 'Trichotomy', 'CaseInsensitive', 'StarLaw', 'BlankIsZero',
              'LineBreakLaw', 'AverageLaw'],
        unconstrained=[
            'error cell in a criteria range, against any criterion',
            'logical cell against a numeric criterion or a < <= > >= criterion',
            'numeric-looking text cell against a numeric criterion or a text ordering',
            'empty-text cell against "", "=", "<>" or a text ordering',
            'text ordering when either side is not purely alphabetic',
            'whether a selected logical of the summed range counts as 1/0 or is skipped',
            'which error is returned when several selected cells hold different errors'],
        not_generated=['logical criteria',
                       '~ before a character other than ? * ~',
                       'ordering operators with wildcard operands',
                       'sum_range of a different shape than the criteria range'],
        rule='one case = (consumer or law instance, range contents, criteria, shape); '
             'selection is recovered position-wise through a power-of-two weights range')
    v.assumptions = ['TLC evaluates Criteria.tla/CellValues.tla correctly',
                     'numbers are multiples of 1/2: float sums exact; tolerance 1e-9']
    return v.finish()


def tla(x):
    """JSON value exported by TLC -> TLA+ literal"""
    if isinstance(x, list):
        return '<<' + ', '.join(tla(y) for y in x) + '>>'
    if isinstance(x, str):
        return '"' + x.replace('\\', '\\\\').replace('"', '\\"').replace('\n', '\\n') + '"'
    return str(x)


def replay(path):
    """Re-run one recorded discrepancy: TLC re-derives the allowed selections
    and results for the recorded (range, criteria), then the real code is driven."""
    with open(path) as f:
        rec = json.load(f)
    rng = rec['case']['cells']
    crits = [[c[0], c[1]] for c in rec['case']['crits']]
    d = tlc.new_scratch('replay')
    with open(os.path.join(d, 'ReplayCriteria.tla'), 'w') as f:
        f.write(f'---- MODULE ReplayCriteria ----\nEXTENDS MC_Criteria\n'
                f'RRng == {tla(rng)}\nRCrits == {tla(crits)}\n'
                f'RInit == rng = RRng /\\ crits = RCrits\nRNext == UNCHANGED vars\n====\n')
    cfg = open(os.path.join(tlc.SPEC, 'Criteria_big.cfg')).read()
    cfg = cfg.replace('SPECIFICATION Spec', 'INIT RInit\nNEXT RNext')
    cfg = '\n'.join(line for line in cfg.splitlines()
                    if not line.startswith(('PROPERTY', 'INVARIANT TypeOK')))
    with open(os.path.join(d, 'R.cfg'), 'w') as f:
        f.write(cfg + '\n')
    res = tlc.run('ReplayCriteria', 'R.cfg', spec_dir=d, workers=1, library=tlc.SPEC)
    if not res.ok or len(res.json) != 1:
        raise tlc.MachineryFailure('replay: TLC failed on the recorded input:\n'
                                   + res.stdout[-1500:])
    vec = res.json[0]
    seed = int(os.environ.get('VERIF_SEED', '0') or 0)
    viol, known, ncase, keys, nf = check_vector(vec, seed, 2)
    print(f'replay {PID}: range {rec["case"]["range"]}, criteria {rec["case"]["criteria"]}; '
          f'{ncase} cases, {nf} formulas')
    from harness.evidence import load_findings
    listed = any(e['id'] == FINDING_NUMTEXT_BOTH and e.get('status') == 'known'
                 for e in load_findings(PID))
    for desc, case in known:
        if listed:
            print(f'KNOWN-FINDING: property={PID} {FINDING_NUMTEXT_BOTH} {desc}')
        else:
            viol.append((desc + f' [unlisted finding id {FINDING_NUMTEXT_BOTH}]', case))
    for desc, case in viol:
        print(f'VIOLATION property={PID} replay={path}\n  {desc}')
    return 1 if viol else 0
