"""C16 -- lookup functions agree with a linear-scan definition.

Spec: spec/Lookup.tla.  MATCH is a relation (MatchRel / MatchAllowed: the set
of results the property allows), INDEX / VLOOKUP / HLOOKUP / LOOKUP are
defined on top of it.  The enumerator machine appends cells (leading blanks,
values of a mixed-type pool, trailing blanks) and maintains the two sorted
flags.  TLC checks the laws (ExactIsFirstEqual, ApproxIsBest,
ApproxFindsExact, BinarySearchOK, Sandwich, AppendLaw, TableLaws, FlagsRight,
BlanksAtEnds, WellFormed) on every reachable vector x every lookup value and
exports every state as a vector: arguments + allowed results.

Binding: every exported vector is executed on the real functions of
pycel.lib.lookup, loaded the way compiled formulas load them (column and row
orientation), and a sample of the states -- as many as the tier's budget
allows -- is rebuilt as an in-memory workbook whose formula cells
(=MATCH(K1,$A$1:$A$5,0), =VLOOKUP(..), =HLOOKUP(..), =LOOKUP(..), =INDEX(..))
are evaluated by a real ExcelCompiler.  The result must be a member of the
allowed set; an exception is always a discrepancy.  Vectors of one cell and
the 1 x 1 table (table modes of width 1) are ranges like any other there:
$A$1:$A$1.

Known finding C16_r3_1 (DEV_LookupOneCellScalar): a range of one cell reaches
a worksheet function as the value of the cell, and VLOOKUP / HLOOKUP / LOOKUP
/ INDEX answer a table that is not a table with #N/A / #VALUE! (pinned by
tests/lib/test_lookup.py).  A discrepancy is attributed to it only when the
formula hands a one-cell range to the function as its table or vector AND the
value observed is exactly the one the scalar guard of that function gives
(one_cell_answer); everything else stays a violation.

Abstract values are made concrete here: ["N",k] -> k or float(k), ["S",cs] ->
a string through a character table (the abstract "." becomes one of a list
of punctuation characters), ["B",b] -> bool, ["E",c] -> c, ["Z"] -> empty.
"""
import gc
import json
import multiprocessing
import os
import random
import re
import threading
import time
import zlib

from harness import tlc, xl
from harness.evidence import Verdict

PID = 'C16'
FINDING_ONE_CELL = 'C16_r3_1'
TYPES = (-1, 0, 1)
NA, FREE, SELF = 0, -1, -2

# abstract "." (a character that is neither a letter nor a wildcard)
PUNCT = ['.', '(', ')', '[', ']', '+', '$', '^', '|', '\\', '{', '}', '-',
         ' ', '!', '\n']
# letters: (a, A, b, B) -- case twins must stay case twins, a < b
LETTERS = [('a', 'A', 'b', 'B'), ('m', 'M', 'q', 'Q'), ('x', 'X', 'z', 'Z')]

_STATE = {}     # data shared with forked workers


# ---------------------------------------------------------------- values ---
class Conc:
    """One consistent choice of concrete values for a vector."""

    def __init__(self, rnd):
        la = rnd.choice(LETTERS) if rnd.random() < 0.5 else LETTERS[0]
        self.punct = rnd.choice(PUNCT)
        self.chars = {'a': la[0], 'A': la[1], 'b': la[2], 'B': la[3],
                      '?': '?', '*': '*', '.': self.punct}
        self.floats = rnd.random() < 0.3

    def __call__(self, x):
        tag = x[0]
        if tag == 'Z':
            return None
        if tag == 'N':
            return float(x[1]) if self.floats else x[1]
        if tag == 'B':
            return bool(x[1])
        if tag == 'E':
            return x[1]
        if tag == 'S':
            return ''.join(self.chars[c] for c in x[1])
        raise ValueError(x)


def rnd_for(seed, vec):
    key = json.dumps([vec.get('kind'), vec.get('w', 0), vec['a']])
    return random.Random(zlib.crc32(key.encode()) ^ (seed * 2654435761 % 2 ** 32))


def is_pos(got):
    return (isinstance(got, (int, float)) and not isinstance(got, bool)
            and got == int(got))


def pos_ok(got, allowed, v_c):
    """MATCH result against the exported set of positions."""
    if isinstance(got, BaseException):
        return False
    if FREE in allowed:
        return True
    if SELF in allowed:
        return isinstance(got, str) and got == v_c
    if isinstance(got, str):
        return got == '#N/A' and NA in allowed
    return is_pos(got) and int(got) in allowed and int(got) != NA


def cell_ok(got, allowed, conc):
    """lookup / index result against the exported set of cell values."""
    if isinstance(got, BaseException):
        return False
    for x in allowed:
        if x[0] == '?':
            return True
        if xl.same_value(got, conc(x)):
            return True
    return False


def show_allowed_pos(allowed):
    return [('#N/A' if p == NA else 'anything' if p == FREE else
             'the lookup error' if p == SELF else p) for p in allowed]


def classify(a_c, v_c, fn, got=None):
    """A hint for the reader of a violation (never changes the verdict)."""
    if len(a_c) == 1 and fn.startswith('formula') and (
            isinstance(a_c[0], str) or
            isinstance(got, BaseException) and 'len()' in str(got)):
        return 'one-cell range'      # reaches MATCH as a scalar
    if isinstance(v_c, str) and ('*' in v_c or '?' in v_c) and any(
            ch in x for ch in PUNCT for x in [v_c] + a_c if isinstance(x, str)):
        return 'wildcard pattern next to a regex-special character'
    if any(x is None for x in a_c) and not isinstance(v_c, (str, bool)):
        return 'blank cell in the lookup vector read as 0'
    return 'unclassified'


# ------------------------------------------------------------ library -----
def load_lib():
    """The lookup functions, wrapped exactly as compiled formulas get them."""
    import pycel.lib.lookup as lk
    from pycel.lib.function_helpers import load_functions
    ns = {}
    missing = load_functions(['match', 'index', 'vlookup', 'hlookup', 'lookup'],
                             ns, [lk])
    if missing:
        raise tlc.MachineryFailure(f'lookup functions not found: {missing}')
    ns['_match'] = lk._match
    return ns


def call(fn, *args):
    try:
        return fn(*args)
    except Exception as exc:   # noqa
        return exc


class Out:
    """What one worker reports back."""

    def __init__(self):
        self.evals = 0
        self.viols = []
        self.knowns = []     # discrepancies the one-cell finding explains
        self.nknown = 0
        self.formulas = 0
        self.workbooks = 0
        self.skipped = {}
        self.free = 0
        self.keys = 0

    def bad(self, desc, case):
        if len(self.viols) < 200:
            self.viols.append((desc, case))
        else:
            self.skipped['violations beyond 200 per worker'] = \
                self.skipped.get('violations beyond 200 per worker', 0) + 1

    def known(self, desc, case):
        self.nknown += 1
        kind = desc.split(':')[0]      # a few examples of every kind
        if sum(1 for d, _ in self.knowns if d.split(':')[0] == kind) < 3:
            self.knowns.append((desc, case))

    def skip(self, why, n=1):
        self.skipped[why] = self.skipped.get(why, 0) + n


def lib_vector(vec, look, lib, conc, out, rnd, free_share):
    """free_share: share of the unconstrained cases that is still executed
    (they can only show an exception)."""
    a = vec['a']
    a_c = [conc(x) for x in a]
    n = len(a)
    col = tuple((x,) for x in a_c)
    row = (tuple(a_c),)
    for i, lv in enumerate(look):
        v_c = conc(lv)
        for ti, t in enumerate(TYPES):
            allowed = vec['m'][i][ti]
            if FREE in allowed:
                out.free += 1
                if free_share < 1 and rnd.random() >= free_share:
                    out.skip('unconstrained MATCH cases not executed (quick tier)')
                    continue
            # one orientation per case, both over the run
            for orient, arr in ((('col', col),) if (i + ti + n) % 2 else
                                (('row', row),)):
                if n == 0:
                    if lv[0] == 'E':
                        continue      # an empty range cannot reach match()
                    got = call(lib['_match'], v_c, [], t)
                else:
                    got = call(lib['match'], v_c, arr, t)
                out.evals += 1
                if not pos_ok(got, allowed, v_c):
                    out.bad(f'MATCH type {t} ({orient}, library call) '
                            f'[{classify(a_c, v_c, "lib")}]: got {got!r}, '
                            f'allowed {show_allowed_pos(allowed)}',
                            dict(fn='match', v=v_c, a=a_c, t=t,
                                 orient=orient, allowed=allowed, got=repr(got)))
    # INDEX(vector, i): i = 1..n+1 and -1
    if n:
        for k, allowed in enumerate(vec['ix']):
            i = -1 if k == n + 1 else k + 1
            forms = (('col', (col, i)), ('row', (row, i)),
                     ('col2', (col, i, 1)), ('row2', (row, 1, i)))
            for form, args in (forms if free_share >= 1 else
                               forms[(k + n) % 2::2]):
                got = call(lib['index'], *args)
                out.evals += 1
                if not cell_ok(got, allowed, conc):
                    out.bad(f'INDEX on a vector ({form}, library call): '
                            f'index {i} of {n}: got {got!r}, allowed '
                            f'{[conc(x) for x in allowed]}',
                            dict(fn='index1', a=a_c, i=i, form=form,
                                 allowed=[conc(x) for x in allowed],
                                 got=repr(got)))


def transpose(t):
    return tuple(zip(*t))


def lib_table(vec, look, lib, conc, out):
    T = tuple(tuple(conc(x) for x in r) for r in vec['t'])
    TT = transpose(T)
    n, w = len(T), vec['w']
    a_c = [r[0] for r in T]

    def cc(allowed):
        return [('anything' if x[0] == '?' else conc(x)) for x in allowed]

    for i, lv in enumerate(look):
        v_c = conc(lv)
        for k, ri in enumerate(vec['ri']):
            for ai, approx in enumerate((False, True)):
                allowed = vec['vl'][i][k][ai]
                for fn, tbl in (('vlookup', T), ('hlookup', TT)):
                    # (an index with a fraction is read as its whole part:
                    # Lookup.tla WholePart)
                    for idx in ((ri, ri + 0.5) if ri >= 0 else (ri,)):
                        got = call(lib[fn], v_c, tbl, idx, approx)
                        out.evals += 1
                        if not cell_ok(got, allowed, conc):
                            out.bad(f'{fn.upper()} (library call) '
                                    f'[{classify(a_c, v_c, "lib")}]: index {idx}, '
                                    f'range_lookup {approx}: got {got!r}, '
                                    f'allowed {cc(allowed)}',
                                    dict(fn=fn, v=v_c, table=tbl, index=idx,
                                         approx=approx, allowed=cc(allowed),
                                         got=repr(got)))
        forms = [('lookup vector form', (tuple((x,) for x in a_c),
                                         tuple((r[-1],) for r in T)), vec['lv'][i]),
                 ('lookup vector form (rows)', ((tuple(a_c),),
                                                (tuple(r[-1] for r in T),)),
                  vec['lv'][i])]
        if n >= w:
            forms.append(('lookup array form', (T,), vec['la'][i]))
        if n > w:
            forms.append(('lookup array form (transposed)', (TT,), vec['lt'][i]))
        for name, args, allowed in forms:
            got = call(lib['lookup'], v_c, *args)
            out.evals += 1
            if not cell_ok(got, allowed, conc):
                out.bad(f'{name.upper()} (library call) '
                        f'[{classify(a_c, v_c, "lib")}]: got {got!r}, '
                        f'allowed {cc(allowed)}',
                        dict(fn=name, v=v_c, args=args, allowed=cc(allowed),
                             got=repr(got)))
    for rk, rowset in enumerate(vec['ix']):
        r = -1 if rk == n + 1 else rk + 1
        for ck, allowed in enumerate(rowset):
            c = -1 if ck == w + 1 else ck + 1
            forms = [('T', (T, r, c)), ('transposed', (TT, c, r))]
            if r > 0 and c > 0:
                forms += [('T, fractions', (T, r + 0.5, c + 0.25)),
                          ('transposed, fractions', (TT, c + 0.75, r + 0.5))]
            for form, args in forms:
                got = call(lib['index'], *args)
                out.evals += 1
                if not cell_ok(got, allowed, conc):
                    out.bad(f'INDEX ({form}, library call): ({r},{c}) of '
                            f'{n}x{w}: got {got!r}, allowed {cc(allowed)}',
                            dict(fn='index', table=args[0], r=args[1], c=args[2],
                                 allowed=cc(allowed), got=repr(got)))


# ------------------------------------------------------------ formulas ----
COLS = 'ABCDEFGHIJ'


def literal(v_c):
    """The value written inside a formula, or None if it must be a cell."""
    if v_c is None:
        return None
    if isinstance(v_c, bool):
        return 'TRUE' if v_c else 'FALSE'
    if isinstance(v_c, (int, float)):
        return repr(v_c)
    if v_c.startswith('#'):
        return v_c
    if any(ch in v_c for ch in '"\\\n'):
        return None
    return '"' + v_c + '"'


def put(cells, addr, value):
    if value is not None:
        cells[addr] = value


def arg_for(i, v_c, rnd, cells):
    """lookup value i: a reference to K<i> or (sometimes) a literal."""
    put(cells, f'K{i + 1}', v_c)
    lit = literal(v_c)
    if lit is not None and rnd.random() < 0.3:
        return lit
    return f'K{i + 1}'


def one_cell_answer(fn, cell):
    """DEV_LookupOneCellScalar: what fn gives when its table / vector is a
    range of one cell -- it receives the VALUE of the cell (a scalar) and its
    guard for "not a table" answers: #N/A from VLOOKUP / HLOOKUP / LOOKUP;
    INDEX hands an error value on and gives #VALUE! for anything else."""
    from pycel.excelutil import ERROR_CODES
    if fn == 'INDEX':
        return cell if isinstance(cell, str) and cell in ERROR_CODES \
            else '#VALUE!'
    return '#N/A'


def run_formulas(cells, checks, out, what):
    """checks: list of (address, formula, predicate(got) -> bool, describe,
    one_cell); one_cell is None, or (function, value of the cell) when the
    formula hands a range of one cell to that function as its table/vector."""
    for addr, formula, *_ in checks:
        cells[addr] = formula
    try:
        model = xl.compile_wb(cells)
    except Exception as exc:   # noqa
        out.bad(f'{what}: workbook does not compile: {exc!r}',
                dict(fn='compile', cells=cells))
        return
    out.workbooks += 1
    for addr, formula, pred, describe, one_cell in checks:
        try:
            got = model.evaluate('S!' + addr)
        except Exception as exc:   # noqa
            got = exc
        out.evals += 1
        out.formulas += 1
        if not pred(got):
            desc, case = describe(got)
            case = dict(case, formula=formula, got=_short(got),
                        cells={k: v for k, v in cells.items()
                               if not (isinstance(v, str) and v.startswith('=')
                                       and k != addr)})
            if one_cell is not None and isinstance(got, str) \
                    and got == one_cell_answer(*one_cell):
                out.known(desc, case)
            else:
                out.bad(desc, case)


def _short(got):
    if isinstance(got, BaseException):
        lines = str(got).strip().splitlines()
        tail = [ln for ln in lines if 'Error' in ln or 'error' in ln][-1:] or lines[-1:]
        return f'{type(got).__name__}: {" ".join(tail)[:200]}'
    return repr(got)


def formula_vector(vec, look, conc, rnd, out):
    a = vec['a']
    n = len(a)
    if n == 0:
        return
    a_c = [conc(x) for x in a]
    cells = {}
    for r, x in enumerate(a_c):
        put(cells, f'A{r + 1}', x)                 # column A1:A<n>
        put(cells, f'{COLS[r]}30', x)              # row A30:<n>30
    crange = f'$A$1:$A${n}'
    rrange = f'A30:{COLS[n - 1]}30'
    checks = []
    for i, lv in enumerate(look):
        v_c = conc(lv)
        for ti, t in enumerate(TYPES):
            allowed = vec['m'][i][ti]
            for oi, (orient, rng) in enumerate((('col', crange), ('row', rrange))):
                if oi == 1 and rnd.random() < 0.5:
                    continue
                arg = arg_for(i, v_c, rnd, cells)
                tt = '' if (t == 1 and rnd.random() < 0.3) else f',{t}'
                formula = f'=MATCH({arg},{rng}{tt})'
                addr = f'{"MNOPQR"[ti * 2 + oi]}{i + 1}'

                def describe(got, allowed=allowed, v_c=v_c, t=t, orient=orient):
                    return (f'MATCH type {t} ({orient}, formula) '
                            f'[{classify(a_c, v_c, "formula", got)}]: got '
                            f'{_short(got)}, allowed {show_allowed_pos(allowed)}',
                            dict(fn='formula-match', v=v_c, a=a_c, t=t,
                                 allowed=allowed))
                checks.append((addr, formula,
                               lambda got, allowed=allowed, v_c=v_c:
                               pos_ok(got, allowed, v_c), describe, None))
    # INDEX(range, i); the vector of one cell is the range $A$1:$A$1
    one_cell = ('INDEX', a_c[0]) if n == 1 else None
    for k, allowed in enumerate(vec['ix']):
        i = -1 if k == n + 1 else k + 1
        for fi, formula in enumerate((f'=INDEX({crange},{i})',
                                      f'=INDEX({rrange},{i})',
                                      f'=INDEX({crange},{i},1)',
                                      f'=INDEX({rrange},1,{i})')):
            addr = f'{"STUV"[fi]}{k + 1}'

            def describe(got, allowed=allowed, i=i):
                return (f'INDEX on a vector (formula)'
                        f'{" [one-cell range]" if n == 1 else ""}: index {i} '
                        f'of {n}: got {_short(got)}, allowed '
                        f'{[conc(x) for x in allowed]}',
                        dict(fn='formula-index1', a=a_c, i=i,
                             allowed=[conc(x) for x in allowed]))
            checks.append((addr, formula,
                           lambda got, allowed=allowed: cell_ok(got, allowed, conc),
                           describe, one_cell))
    run_formulas(cells, checks, out, 'vector workbook')


def formula_table(vec, look, conc, rnd, out):
    T = [[conc(x) for x in r] for r in vec['t']]
    n, w = len(T), vec['w']
    a_c = [r[0] for r in T]
    cells = {}
    for r in range(n):
        for c in range(w):
            put(cells, f'{COLS[c]}{r + 1}', T[r][c])          # T at A1
            put(cells, f'{COLS[r]}{20 + c}', T[r][c])         # transpose at A20
    trange = f'A1:{COLS[w - 1]}{n}'
    ttrange = f'A20:{COLS[n - 1]}{19 + w}'
    checks = []

    def cc(allowed):
        return [('anything' if x[0] == '?' else conc(x)) for x in allowed]

    # the ranges of one cell: the 1 x 1 table, and with one row of any width
    # the two vectors of LOOKUP's vector form
    tbl_1x1 = n == 1 and w == 1
    vec_1 = n == 1

    def add(addr, formula, allowed, name, v_c, one_cell=None):
        def describe(got):
            hint = 'one-cell range' if one_cell else classify(a_c, v_c, "formula")
            return (f'{name} (formula) [{hint}]: '
                    f'{formula}: got {_short(got)}, allowed {cc(allowed)}',
                    dict(fn='formula-' + name, v=v_c, table=T, allowed=cc(allowed)))
        checks.append((addr, formula,
                       lambda got: cell_ok(got, allowed, conc), describe,
                       one_cell))

    row = 0
    for i, lv in enumerate(look):
        v_c = conc(lv)
        for k, ri in enumerate(vec['ri']):
            for ai, approx in enumerate((False, True)):
                allowed = vec['vl'][i][k][ai]
                for fi, (fn, rng) in enumerate((('VLOOKUP', trange),
                                                ('HLOOKUP', ttrange))):
                    if rnd.random() < 0.4:
                        continue
                    arg = arg_for(i, v_c, rnd, cells)
                    ap = rnd.choice(['TRUE', '1'] if approx else ['FALSE', '0'])
                    ap = '' if (approx and rnd.random() < 0.3) else ',' + ap
                    row += 1
                    add(f'M{row}', f'={fn}({arg},{rng},{ri}{ap})', allowed, fn, v_c,
                        (fn, T[0][0]) if tbl_1x1 else None)
        arg = arg_for(i, v_c, rnd, cells)
        row += 1
        add(f'M{row}', f'=LOOKUP({arg},A1:A{n},{COLS[w - 1]}1:{COLS[w - 1]}{n})',
            vec['lv'][i], 'LOOKUP vector form', v_c,
            ('LOOKUP', T[0][0]) if vec_1 else None)
        row += 1
        add(f'M{row}', f'=LOOKUP({arg},A20:{COLS[n - 1]}20,'
                       f'A{19 + w}:{COLS[n - 1]}{19 + w})',
            vec['lv'][i], 'LOOKUP vector form (rows)', v_c,
            ('LOOKUP', T[0][0]) if vec_1 else None)
        if n >= w:
            row += 1
            add(f'M{row}', f'=LOOKUP({arg},{trange})', vec['la'][i],
                'LOOKUP array form', v_c,
                ('LOOKUP', T[0][0]) if tbl_1x1 else None)
        if n > w:
            row += 1
            add(f'M{row}', f'=LOOKUP({arg},{ttrange})', vec['lt'][i],
                'LOOKUP array form (transposed)', v_c)
    for rk, rowset in enumerate(vec['ix']):
        r = -1 if rk == n + 1 else rk + 1
        for ck, allowed in enumerate(rowset):
            c = -1 if ck == w + 1 else ck + 1
            row += 1
            add(f'M{row}', f'=INDEX({trange},{r},{c})', allowed, 'INDEX', None,
                ('INDEX', T[0][0]) if tbl_1x1 else None)
            row += 1
            add(f'M{row}', f'=INDEX({ttrange},{c},{r})', allowed,
                'INDEX (transposed)', None,
                ('INDEX', T[0][0]) if tbl_1x1 else None)
    run_formulas(cells, checks, out, 'table workbook')


# -------------------------------------------------------------- workers ---
def work(span):
    lo, hi = span
    vectors, looks, seed, fprob = (_STATE['vectors'], _STATE['looks'],
                                   _STATE['seed'], _STATE['fprob'])
    lib = _STATE.get('lib') or load_lib()
    _STATE['lib'] = lib
    out = Out()
    for vec in vectors[lo:hi]:
        rnd = rnd_for(seed, vec)
        conc = Conc(rnd)
        look = looks[(vec['run'], vec['mode'])]
        n = len(vec['a'])
        if vec['kind'] == 'vec':
            lib_vector(vec, look, lib, conc, out, rnd, _STATE['free_share'])
            out.keys += len(look) * 3 + len(vec['ix'])
            if rnd.random() < fprob.get(('vec', n), fprob['*']):
                formula_vector(vec, look, conc, rnd, out)
        else:
            lib_table(vec, look, lib, conc, out)
            out.keys += len(look) * (len(vec['ri']) * 2 + 3) + \
                len(vec['ix']) * len(vec['ix'][0])
            if rnd.random() < fprob.get(('tbl', n), fprob['*']):
                formula_table(vec, look, conc, rnd, out)
    return out


def execute(v, vectors, looks, seed, fprob, totals, free_share=1.0):
    """Run all vectors on the real code in forked workers."""
    if not vectors:
        return
    t0 = time.time()
    _STATE.update(vectors=vectors, looks=looks, seed=seed, fprob=fprob,
                  free_share=free_share)
    _STATE.pop('lib', None)
    nproc = max(1, min(16, os.cpu_count() or 1))
    gc.freeze()        # keep the collector of the forked workers off the vectors
    step = max(1, min(400, len(vectors) // (nproc * 4) + 1))
    spans = [(i, min(i + step, len(vectors))) for i in range(0, len(vectors), step)]
    ctx = multiprocessing.get_context('fork')
    with ctx.Pool(nproc) as pool:
        for out in pool.imap_unordered(work, spans):
            v.evaluations += out.evals
            totals['keys'] += out.keys
            totals['formulas'] += out.formulas
            totals['workbooks'] += out.workbooks
            totals['free'] += out.free
            for k, c in out.skipped.items():
                totals['skipped'][k] = totals['skipped'].get(k, 0) + c
            for desc, case in out.viols:
                v.violation(desc, case)
            totals['known'] += out.nknown
            for desc, case in out.knowns:
                v.known_finding(FINDING_ONE_CELL, desc, case)
    v.traces += len(vectors)
    totals['exec_s'] = round(totals.get('exec_s', 0) + time.time() - t0, 1)


# ------------------------------------------------------------------ TLC ---
LAWS = ['TypeOK', 'BlanksAtEnds', 'FlagsRight', 'WellFormed',
        'ExactIsFirstEqual', 'ApproxIsBest', 'ApproxFindsExact',
        'BinarySearchOK', 'Sandwich', 'TableLaws', 'AppendLaw']
ACTIONS = ['LeadBlank', 'AppendAny', 'TrailBlank']


def write_wrapper(d, name, modes_expr, invariants=None):
    """A wrapper module + cfg in scratch that selects some modes."""
    with open(os.path.join(d, name + '.tla'), 'w') as f:
        f.write(f'---- MODULE {name} ----\nEXTENDS MC_Lookup\n'
                f'RunModes == {modes_expr}\n====\n')
    base = open(os.path.join(tlc.SPEC, 'Lookup_mc.cfg')).read()
    lines = []
    for ln in base.splitlines():
        ln = ln.replace('QuickModes', 'RunModes')
        parts = ln.split()
        if invariants is not None and parts[:1] in (['INVARIANT'], ['PROPERTY']) \
                and parts[1] not in invariants:
            continue
        lines.append(ln)
    cfg = os.path.join(d, name + '.cfg')
    with open(cfg, 'w') as f:
        f.write('\n'.join(lines) + '\n')
    return cfg


def model_run(d, name, modes_expr, label, v, *, workers=16, simulate=None,
              depth=None, seed=None, timeout=800):
    """Laws + export without coverage, and concurrently a cheap coverage run
    (state machine only) for vacuity control.  Returns (vectors, coverage)."""
    cfg = write_wrapper(d, name, modes_expr)
    box = {}

    def cov_run():
        try:
            ccfg = write_wrapper(d, name + 'Cov', modes_expr,
                                 invariants=('TypeOK', 'BlanksAtEnds', 'FlagsRight'))
            box['cov'] = tlc.run(name + 'Cov', ccfg, spec_dir=d, workers=2,
                                 coverage=True, timeout=timeout, library=tlc.SPEC,
                                 keep_stdout=False)
        except Exception as exc:   # noqa
            box['err'] = exc

    th = None
    if simulate is None:
        th = threading.Thread(target=cov_run)
        th.start()
    try:
        res = tlc.run(name, cfg, spec_dir=d, workers=workers, timeout=timeout,
                      library=tlc.SPEC, simulate=simulate, depth=depth, seed=seed)
    finally:
        if th:
            th.join()
    if 'err' in box:
        raise box['err']
    if not res.ok or res.violated:
        raise tlc.MachineryFailure(
            f'Lookup model ({label}) violates {res.violated}:\n' + res.stdout[-3000:])
    vectors = res.json
    if simulate is not None:
        m = re.search(r'The number of states generated: (\d+)', res.stdout)
        res.generated = int(m.group(1)) if m else len(vectors)
        res.distinct = 0          # counted after removing duplicates
    res.stdout = ''
    v.add_tlc(res, label)
    coverage = {}
    if simulate is None:
        cov = box['cov']
        if not cov.ok:
            raise tlc.MachineryFailure(f'coverage run ({label}) failed: {cov.violated}')
        if cov.distinct != res.distinct:
            raise tlc.MachineryFailure(
                f'{label}: coverage run saw {cov.distinct} states, main run {res.distinct}')
        coverage = {k: list(c) for k, c in cov.coverage.items() if k in ACTIONS}
        for act in ACTIONS:
            if coverage.get(act, (0, 0))[1] == 0:
                raise tlc.MachineryFailure(f'vacuous ({label}): action {act} never taken')
    return vectors, coverage


def collect(vectors, run, looks, n_table_modes, distinct, label):
    """Tag vectors with the run, collect the lookup tuples, completeness."""
    for vec in vectors:
        vec['run'] = run
        if vec.get('look'):
            looks[(run, vec['mode'])] = vec['look']
    for vec in vectors:
        if (run, vec['mode']) not in looks:
            raise tlc.MachineryFailure(
                f'{label}: no lookup tuple exported for mode {vec["mode"]}')
    if distinct is not None and len(vectors) < distinct - n_table_modes:
        raise tlc.MachineryFailure(
            f'{label}: export incomplete: {len(vectors)} vectors for '
            f'{distinct} states')


def dedup(vectors):
    seen, out = set(), []
    for vec in vectors:
        full = (vec['mode'], json.dumps(vec['a']))
        if full in seen:
            continue
        seen.add(full)
        out.append(vec)
    return out


# ------------------------------------------------------------------ run ---
# every vector / table of ONE row goes through a workbook in both tiers: the
# ranges of one cell only exist there
QUICK_FPROB = {'*': 0.003, ('vec', 1): 1.0, ('vec', 2): 0.04, ('vec', 3): 0.006,
               ('tbl', 1): 1.0, ('tbl', 2): 0.06, ('tbl', 3): 0.015, ('tbl', 4): 0.006}
THOROUGH_FPROB = {'*': 0.008, ('vec', 1): 1.0, ('vec', 2): 0.3, ('vec', 3): 0.05,
                  ('vec', 4): 0.015, ('tbl', 1): 1.0, ('tbl', 2): 0.3,
                  ('tbl', 3): 0.1, ('tbl', 4): 0.03, ('tbl', 5): 0.012,
                  ('tbl', 6): 0.006}

BIG = [('wide<=4', 'BigModes[1]', 0), ('four values<=6', 'BigModes[2]', 0),
       ('neutral<=5', 'BigModes[3]', 0), ('one per type<=8', 'BigModes[4]', 0),
       ('sorted<=6', 'BigModes[5]', 0), ('sorted<=8', 'BigModes[6]', 0),
       ('table 4x2', 'BigModes[7]', 1), ('table 5x3', 'BigModes[8]', 1),
       ('table 6x4', 'BigModes[9]', 1), ('tables 1x1..6x1', 'BigModes[10]', 1)]


def run(tier, seed):
    v = Verdict(PID, tier, seed)
    d = tlc.new_scratch('lookup')
    totals = dict(keys=0, formulas=0, workbooks=0, free=0, known=0, skipped={})
    coverage_all = {}
    looks = {}
    nvec = 0
    if tier == 'quick':
        vectors, cov = model_run(d, 'MC_LookupQ', 'QuickModes', 'Lookup_mc', v)
        collect(vectors, 'q', looks, 3, v.states, 'Lookup_mc')
        coverage_all['Lookup_mc'] = cov
        for vec in vectors[:3]:
            v.sample({k: vec[k] for k in ('kind', 'a', 'asc', 'desc') if k in vec})
        nvec += len(vectors)
        execute(v, vectors, looks, seed, QUICK_FPROB, totals, free_share=0.4)
    else:
        for k, (label, expr, ntab) in enumerate(BIG):
            before = v.states
            vectors, cov = model_run(d, f'MC_LookupB{k}', f'<<{expr}>>', label, v)
            collect(vectors, f'b{k}', looks, ntab, v.states - before, label)
            coverage_all[label] = cov
            for vec in vectors[:1]:
                v.sample({kk: vec[kk] for kk in ('kind', 'a', 'asc', 'desc') if kk in vec})
            nvec += len(vectors)
            execute(v, vectors, looks, seed, THOROUGH_FPROB, totals)
            del vectors
        # random part: wide pool, any order, up to length 8 / tables 6 x 4
        # (-simulate num= is per worker; every state of a trace is exported)
        for k, (label, expr, num, depth, longest) in enumerate((
                ('simulate wide<=8', 'SimModes[1]', 400, 9, 8),
                ('simulate table 6x4', 'SimModes[2]', 60, 7, 6))):
            vectors, _ = model_run(
                d, f'MC_LookupS{k}', f'<<{expr}>>', label, v, workers=4,
                simulate=dict(num=num), depth=depth, seed=seed + 1, timeout=300)
            collect(vectors, f's{k}', looks, 0, None, label)
            vectors = dedup(vectors)
            if not any(len(vec['a']) == longest for vec in vectors):
                raise tlc.MachineryFailure(
                    f'{label}: no vector of length {longest} among '
                    f'{len(vectors)} simulated vectors')
            v.states += len(vectors)
            nvec += len(vectors)
            execute(v, vectors, looks, seed, THOROUGH_FPROB, totals)
            del vectors
    if totals['formulas'] == 0:
        raise tlc.MachineryFailure('no formula was evaluated')
    # one example of every kind of discrepancy first (finish() lists 20)
    seen, first, rest = set(), [], []
    for x in v.violations:
        k = x['desc'].split(':')[0]
        (rest if k in seen else first).append(x)
        seen.add(k)
    v.violations = first + rest
    # distinct (function, arguments) cases that were executed
    v.distinct = range(totals['keys'] - totals['skipped'].get(
        'unconstrained MATCH cases not executed (quick tier)', 0))
    v.extra.update(
        exhaustive=(tier == 'quick'),
        vectors=nvec,
        laws_checked_by_tlc=LAWS,
        coverage_actions=coverage_all,
        formulas_evaluated=totals['formulas'],
        workbooks_compiled=totals['workbooks'],
        unconstrained_match_cases=totals['free'],
        one_cell_range_discrepancies=totals['known'],
        skipped=totals['skipped'],
        seconds_executing_on_code=totals.get('exec_s'),
        bounds=('quick: all vectors <= 3 (12-value pool) / <= 4 (7-value pools), '
                'all sorted vectors <= 5, tables 1x1 .. 4x3; x 24 lookup values x '
                'match types {-1,0,1} x result indices -1..w+1'
                if tier == 'quick' else
                'thorough: all vectors <= 4 (10-value pool) / 6 (4 values) / 5 '
                '(neutral values) / 8 (one value per type), all sorted vectors '
                '<= 6 (9 values) / <= 8 (6 values), tables 4x2, 5x3, 6x4 '
                'exhaustive (4 keys), 1x1 .. 6x1 (5 keys); simulation: '
                '12-value pool to length 8, '
                'tables 6x4'),
        rule='one case = (function, concrete arguments); result must be a '
             'member of the allowed set exported by TLC; every vector through '
             'library calls (column and row orientation), a sample through '
             'compiled workbooks',
        unconstrained=['lookup value 0 / "" / FALSE with a blank cell in the vector',
                       'blank lookup value',
                       'types 1/-1 on vectors not sorted in that direction',
                       'types 1/-1 when text with punctuation is involved '
                       '(collation not fixed by the statement)'])
    v.assumptions = ['TLC evaluates Lookup.tla correctly',
                     'the character table maps case twins to case twins and '
                     'keeps a < b']
    return v.finish()


# --------------------------------------------------------------- replay ---
def replay(path):
    """Re-run the library / formula call of a violation file."""
    with open(path) as f:
        rec = json.load(f)
    case = rec['case']
    print(rec['desc'])
    lib = load_lib()
    fn = case.get('fn', '')
    if 'formula' in case:
        cells = dict(case.get('cells', {}))
        got = call(xl.evalf, case['formula'], cells, 'S', 'Z99')
        print(f"{case['formula']} with {cells} -> {_short(got)} "
              f"(allowed {case.get('allowed')})")
        bad = _short(got) == case.get('got')
    elif fn == 'match':
        arr = tuple((x,) for x in case['a']) if case['orient'] == 'col' \
            else (tuple(case['a']),)
        got = call(lib['match'], case['v'], arr, case['t']) if case['a'] \
            else call(lib['_match'], case['v'], [], case['t'])
        print(f"match({case['v']!r}, {case['a']!r}, {case['t']}) -> {got!r} "
              f"(allowed {show_allowed_pos(case['allowed'])})")
        bad = not pos_ok(got, case['allowed'], case['v'])
    else:
        print(json.dumps(case, indent=1, default=str))
        bad = True
    if bad:
        print(f'VIOLATION property={PID} replay={path}')
        return 1
    print(f'{PID}: replay no longer fails')
    return 0
