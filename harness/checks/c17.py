"""C17 -- date serial numbers form Excel's 1900 calendar.

Spec: spec/Calendar.tla.  Six machines in one module:
  cal    the day-successor machine (n, y, m, d, wd) from 1900-01-00 to
         9999-12-31, compared by TLC at every state with the closed forms
         DateSerial / Parts / Zeller (thorough: all 2 958 466 days are states;
         quick: single days through 1901, whole months afterwards);
  date   DATE(y, m, d) for m, d in -40..60 (carrying), walked day argument by
         day argument;
  shift  EOMONTH / EDATE for month shifts -1200..1200 from a set of starts;
  time   the clock over the 86 400 seconds of a day (+ sub-second offsets);
  yf     YEARFRAC argument pairs, their swaps and the bases 0..4;
  frac   arguments with a fraction (quarters): DATE(y, m, d) along lines of the
         -40..60 grid, EOMONTH / EDATE from every quarter of a start day (a
         date-time, day 0 included) with the months argument walking by
         quarters.  The functions use the whole part; for a negative argument
         truncation and floor are both allowed.
  far    one argument of DATE / EOMONTH / EDATE walked away from zero decade
         by decade (+-{1,2,3,5,7} * 10^0..20, as an int and as the double a
         cell holds) while the others are pinned: a day or month argument
         carries over any number of years, and what leaves the calendar is
         #NUM! however far it leaves it -- never an exception.
TLC runs twice on the same machines and constants: once checking the laws and
printing the vectors, once without laws under -coverage to see that every
action is taken (the state counts of the two runs must agree).
Binding: TLC prints one vector per state (the calendar machine: one line per
month start; the days in between are derived from consecutive lines of TLC's
output only).  Every vector is executed on the real pycel functions through
their excel_helper wrappers and, for a sample, through compiled formulas in a
workbook (=YEAR(A1), =DATE(YEAR(A1),MONTH(A1),DAY(A1)), =EOMONTH(A1,K1) ...).
The result must be a member of the allowed set the spec exported; an
exception escaping a worksheet function is always a discrepancy.
Python's datetime is used only to sanity-check the *spec's* export (a
disagreement there is a machinery failure, never a verdict on the code).
"""
import datetime as dt
import json
import multiprocessing
import os
import random
import threading
import time

from harness import tlc, xl
from harness.evidence import Verdict

PID = 'C17'
MAX_SERIAL = 2958465
N_MONTHS = 8100 * 12
# quick: days 0..731, month starts 1902-01 .. 9999-12, days 2..31 of the last month
QUICK_CAL_STATES = 732 + 8098 * 12 + 30
STORE_CAP = 400          # violations kept verbatim (all are counted)
PER_KIND_CAP = 3         # ... per (function, access path, exception type)
_CALL = object()         # 'no result supplied: call the library function'

ARG_ACTIONS = ('NextDayArg', 'NextMonthArg', 'NextShift', 'Tick',
               'SwapDates', 'NextBasis', 'NextFrac', 'NextDecade')


# ---------------------------------------------------------------------------
# the functions under test, wrapped as a worksheet would call them
_W = None


def lib():
    global _W
    if _W is None:
        from pycel.lib import date_time
        from pycel.lib.function_helpers import apply_meta
        _W = {name.upper(): apply_meta(getattr(date_time, name), name_space={})[0]
              for name in ('date', 'year', 'month', 'day', 'weekday', 'eomonth',
                           'edate', 'hour', 'minute', 'second', 'yearfrac')}
    return _W


def call(fn, *args):
    try:
        return lib()[fn](*args)
    except Exception as exc:   # noqa: an exception is a result to be judged
        return exc


def conforms(got, allowed):
    """is `got` a member of the allowed set exported by TLC?"""
    if isinstance(got, Exception):
        return False                       # never an exception, even for ANY
    for a in allowed:
        if a[0] == 'ANY':
            return True
        if a[0] == 'N' and xl.same_value(got, a[1]):
            return True
        if a[0] == 'E' and isinstance(got, str) and got == a[1]:
            return True
    return False


def show(got):
    if isinstance(got, Exception):
        return f'exception {type(got).__name__}: {str(got)[:120]}'
    return repr(got)


class Counter:
    """stands in for Verdict.distinct: the keys are distinct by construction
    (one per (function, input) pair), so only their number is kept."""

    def __init__(self):
        self.n = 0

    def add(self, key):
        self.n += 1

    def bulk(self, k):
        self.n += k

    def __len__(self):
        return self.n


class Judge:
    """collects discrepancies in a worker or in the parent"""

    def __init__(self):
        self.cases = 0
        self.bad = []
        self.nbad = 0
        self.per = {}

    def _store(self, key, desc, case):
        self.nbad += 1
        self.per[key] = self.per.get(key, 0) + 1
        if self.per[key] <= PER_KIND_CAP and len(self.bad) < STORE_CAP:
            self.bad.append(dict(desc=desc, case=case, kind=key))

    def check(self, fn, args, allowed, via='lib', got=_CALL):
        self.cases += 1
        if got is _CALL:
            got = call(fn, *args)
        if not conforms(got, allowed):
            kind = f'{fn}/{via.split(" ")[0]}/' + (
                type(got).__name__ if isinstance(got, Exception) else 'value')
            self._store(kind,
                        f'{fn}({", ".join(map(repr, args))}) via {via}: '
                        f'allowed {allowed}, got {show(got)}',
                        dict(fn=fn, args=list(args), allowed=allowed, via=via))
        return got

    def fail(self, desc, case):
        self.cases += 1
        self._store(f"{case['fn']}/{case['via']}/pair", desc, case)

    def merge_into(self, v, counter):
        v.evaluations += self.cases
        counter.bulk(self.cases)
        for b in self.bad:
            k = v.__dict__.setdefault('_stored_kinds', {})
            if k.get(b['kind'], 0) < PER_KIND_CAP and len(v.violations) < STORE_CAP:
                v.violation(b['desc'], b['case'])
            k[b['kind']] = k.get(b['kind'], 0) + 1
        tot = v.extra.setdefault('discrepancy_totals', {})
        for key, cnt in self.per.items():
            tot[key] = tot.get(key, 0) + cnt
        return self.nbad


# ---------------------------------------------------------------------------
# TLC

def wrapper(tier, modes, rnd, tag, laws=True):
    """a wrapper module/cfg in a scratch dir that runs only `modes`
    (thorough tier: adds seeded random starts, days and years);
    laws=False: the same machines and constants without any INVARIANT /
    PROPERTY (and so without the export) -- the run that counts the actions"""
    d = tlc.new_scratch('cal' + tag)
    base = 'Calendar_mc.cfg' if tier == 'quick' else 'Calendar_big.cfg'
    cfg = open(os.path.join(tlc.SPEC, base)).read()
    if not laws:
        cfg = '\n'.join(line for line in cfg.splitlines()
                        if not line.startswith(('INVARIANT', 'PROPERTY'))) + '\n'
    mod = 'MC_Calendar_' + tag
    body = [f'---- MODULE {mod} ----', 'EXTENDS MC_Calendar',
            'RunModes == {' + ', '.join(f'"{m}"' for m in modes) + '}']
    cfg = cfg.replace('AllModes', 'RunModes')
    if tier != 'quick' and 'cal' not in modes:
        def pick(k, lo, hi):
            return ', '.join(str(rnd.randint(lo, hi)) for _ in range(k))
        body += [
            'RndShiftStarts == BigShiftStarts \\cup {' + pick(60, 1, MAX_SERIAL) + '}',
            'RndYfDays == BigYfDays \\cup {' + pick(20, 0, MAX_SERIAL) + '}',
            'RndDateYears == BigDateYears \\cup {' + pick(6, 0, 9999) + '}',
            # numerators of years with a fraction (below 9999: the whole part
            # of 9999.25 is a legal year only if the fraction is dropped first)
            'RndFracYears == BigFracYears \\cup {' + pick(6, 0, 4 * 9999 - 1) + '}',
            'RndFracStarts == BigFracStarts \\cup {' + pick(20, 1, MAX_SERIAL) + '}',
            'RndFarYears == BigFarYears \\cup {' + pick(4, 0, 9999) + '}',
            'RndFarStarts == BigFarStarts \\cup {' + pick(6, 1, MAX_SERIAL) + '}']
        cfg = (cfg.replace('BigShiftStarts', 'RndShiftStarts')
               .replace('BigYfDays', 'RndYfDays')
               .replace('BigDateYears', 'RndDateYears')
               .replace('BigFracYears', 'RndFracYears')
               .replace('BigFracStarts', 'RndFracStarts')
               .replace('BigFarYears', 'RndFarYears')
               .replace('BigFarStarts', 'RndFarStarts'))
    body.append('====')
    with open(os.path.join(d, mod + '.tla'), 'w') as f:
        f.write('\n'.join(body) + '\n')
    with open(os.path.join(d, 'run.cfg'), 'w') as f:
        f.write(cfg)
    return mod, d


def run_tlc(tier, modes, rnd, tag, workers, coverage, out, heap='6g'):
    """coverage=False: check the laws and export the vectors;
    coverage=True: only count how often every action is taken.  TLC's
    coverage instrumentation expands every definition at every reference
    (the nested LETs of ShiftLaws / FracLaws alone cost a minute of start-up),
    so the laws are never evaluated under it: the two runs explore the same
    state space and are compared by their state counts."""
    try:
        mod, d = wrapper(tier, modes, rnd, tag, laws=not coverage)
        res = tlc.run(mod, os.path.join(d, 'run.cfg'), spec_dir=d,
                      workers=workers, coverage=coverage, timeout=1700,
                      library=tlc.SPEC, heap=heap)
        if not res.ok:
            raise tlc.MachineryFailure(
                f'Calendar model ({tag}) violates {res.violated}:\n'
                + res.stdout[-3000:])
        out[tag] = res
    except BaseException as exc:   # noqa: re-raised in the main thread
        out[tag] = exc


# ---------------------------------------------------------------------------
# the calendar machine's export -> months -> days

def months_from_export(lines, distinct, tier):
    """validate the export of the cal machine and return
    (day0 line, [(n0, y, m, length, wd0)], edge line)"""
    cal = sorted((x for x in lines if x['t'] == 'cal'), key=lambda x: x['n'])
    edge = [x for x in lines if x['t'] == 'edge']
    if len(edge) != 1:
        raise tlc.MachineryFailure('export incomplete: no edge line')
    if len(cal) != N_MONTHS + 2:
        raise tlc.MachineryFailure(
            f'export incomplete: {len(cal)} month lines, expected {N_MONTHS + 2}')
    want_states = MAX_SERIAL + 1 if tier != 'quick' else None
    if want_states and distinct != want_states:
        raise tlc.MachineryFailure(
            f'calendar machine visited {distinct} states, expected {want_states}')
    first, last = cal[0], cal[-1]
    if (first['n'], first['y'], first['m'], first['d'], first['wd']) != (0, 1900, 1, 0, 7):
        raise tlc.MachineryFailure(f'unexpected initial state {first}')
    if (last['n'], last['y'], last['m'], last['d']) != (MAX_SERIAL, 9999, 12, 31):
        raise tlc.MachineryFailure(f'unexpected last state {last}')
    starts = cal[1:-1]
    months = []
    for i, s in enumerate(starts):
        if s['d'] != 1:
            raise tlc.MachineryFailure(f'not a month start: {s}')
        nxt = starts[i + 1] if i + 1 < len(starts) else None
        length = (nxt['n'] if nxt else last['n'] + 1) - s['n']
        if nxt:
            ym = s['y'] * 12 + s['m']
            if nxt['y'] * 12 + nxt['m'] != ym + 1 or not 28 <= length <= 31 \
                    or (s['wd'] - 1 + length) % 7 + 1 != nxt['wd']:
                raise tlc.MachineryFailure(f'month lines not consecutive: {s} {nxt}')
        months.append((s['n'], s['y'], s['m'], length, s['wd']))
    if last['wd'] != (months[-1][4] - 1 + months[-1][3] - 1) % 7 + 1:
        raise tlc.MachineryFailure('weekday of the last state inconsistent')
    # sanity check of the SPEC (not of the code) against Python's datetime:
    # for n > 60 the parts are those of 1899-12-30 + n, true weekday
    base = dt.date(1899, 12, 30)
    for n0, y, m, length, wd0 in months:
        if n0 <= 60:
            continue
        for n, d, wd in ((n0, 1, wd0),
                         (n0 + length - 1, length, (wd0 - 1 + length - 1) % 7 + 1)):
            p = base + dt.timedelta(days=n)
            if (p.year, p.month, p.day) != (y, m, d) or p.isoweekday() % 7 + 1 != wd:
                raise tlc.MachineryFailure(
                    f'spec disagrees with the proleptic Gregorian calendar at {n}: '
                    f'{(y, m, d, wd)} vs {p}')
    if [x[3] for x in months[:3]] != [31, 29, 31]:
        raise tlc.MachineryFailure('1900 is not a leap year in the export')
    return first, months, edge[0]


def drive_days(job):
    """worker: execute YEAR/MONTH/DAY/WEEKDAY/DATE for the selected days of a
    run of months;  job = (months, rule, r)  rule: 'all' | 'quick'"""
    months, rule, r = job
    j = Judge()
    ndays = 0
    for n0, y, m, length, wd0 in months:
        for d in range(1, length + 1):
            n = n0 + d - 1
            if rule == 'quick' and not (
                    n <= 731 or d == 1 or d == length or n % 7 == r):
                continue
            ndays += 1
            wd = (wd0 - 1 + d - 1) % 7 + 1
            gy = j.check('YEAR', (n,), [['N', y]])
            gm = j.check('MONTH', (n,), [['N', m]])
            gd = j.check('DAY', (n,), [['N', d]])
            j.check('WEEKDAY', (n,), [['N', wd]])
            j.check('DATE', (y, m, d), [['N', n]])
            if (gy, gm, gd) != (y, m, d) and not any(
                    isinstance(g, (Exception, str)) for g in (gy, gm, gd)):
                # the literal statement: DATE(YEAR(n), MONTH(n), DAY(n)) = n
                j.check('DATE', (gy, gm, gd), [['N', n]], via='lib roundtrip')
            if n % 97 == r:              # the same day as a float, as cells hold it
                j.check('YEAR', (float(n),), [['N', y]])
                j.check('DAY', (float(n),), [['N', d]])
                j.check('WEEKDAY', (float(n),), [['N', wd]])
    return j, ndays


def drive_time(job):
    """worker: HOUR/MINUTE/SECOND of day + (1000 s + delta) / 86 400 000"""
    vecs, plan = job            # plan: [(day offset, use deltas?)]
    j = Judge()
    for vec in vecs:
        s = vec['s']
        want = (vec['h'], vec['mi'], vec['sec'])
        for off, perturbed in plan:
            for dl in (vec['deltas'] if perturbed else (0,)):
                x = off + (1000 * s + dl) / 86400000
                for fn, w in zip(('HOUR', 'MINUTE', 'SECOND'), want):
                    j.check(fn, (x,), [['N', w]])
            # the last half second of the day reads as 00:00:00, never 24:00:00
            for dl, clock in vec.get('roll', ()):
                x = off + (1000 * s + dl) / 86400000
                for fn, w in zip(('HOUR', 'MINUTE', 'SECOND'), clock):
                    j.check(fn, (x,), [['N', w]])
    return j


def pool_map(fn, jobs, procs):
    if procs <= 1 or len(jobs) <= 1:
        return [fn(job) for job in jobs]
    ctx = multiprocessing.get_context('fork')
    with ctx.Pool(procs) as pool:
        return pool.map(fn, jobs, chunksize=1)


def chunks(seq, k):
    size = max(1, (len(seq) + k - 1) // k)
    return [seq[i:i + size] for i in range(0, len(seq), size)]


# ---------------------------------------------------------------------------
# compiled formulas

class Sheet:
    """one compiled workbook whose input cells are overwritten per vector"""
    CELLS = {
        'A1': 40000, 'B1': '=YEAR(A1)', 'C1': '=MONTH(A1)', 'D1': '=DAY(A1)',
        'E1': '=WEEKDAY(A1)', 'F1': '=DATE(YEAR(A1),MONTH(A1),DAY(A1))',
        'G1': 2009, 'H1': 1, 'I1': 1, 'J1': '=DATE(G1,H1,I1)',
        'K1': 0, 'L1': '=EOMONTH(A1,K1)', 'M1': '=EDATE(A1,K1)',
        'N1': 0.5, 'O1': '=HOUR(N1)', 'P1': '=MINUTE(N1)', 'Q1': '=SECOND(N1)',
        'R1': 1, 'S1': 2, 'T1': 0, 'U1': '=YEARFRAC(R1,S1,T1)',
        'V1': '=YEARFRAC(S1,R1,T1)',
    }

    def __init__(self):
        self.model = None
        self.current = {}

    def get(self, inputs, outputs):
        """write the inputs, return the value (or the exception) per output"""
        out = []
        for o in outputs:
            try:
                if self.model is None:
                    self.model = xl.compile_wb(self.CELLS)
                    self.current = {}
                    for c, f in self.CELLS.items():   # build every cell
                        if str(f).startswith('='):
                            self.model.evaluate('S!' + c)
                for a, val in inputs.items():
                    if self.current.get(a, _CALL) != val or \
                            type(self.current.get(a)) is not type(val):
                        self.model.set_value('S!' + a, val)
                        self.current[a] = val
                out.append(self.model.evaluate('S!' + o))
            except Exception as exc:   # noqa: judged by the caller
                out.append(exc)
                self.model = None      # do not trust a model after a failure
        return out


# ---------------------------------------------------------------------------

def run(tier, seed):
    v = Verdict(PID, tier, seed)
    counter = Counter()
    v.distinct = counter
    rnd = random.Random(seed)
    quick = tier == 'quick'
    procs = min(14, os.cpu_count() or 2)
    lib()
    tlc.scratch_dir()
    total_bad = 0
    phase = {}
    t0 = time.time()

    # -- TLC.  quick: one run of Calendar_mc.cfg (all machines; the calendar
    # machine is started in every century so that the search is wide).
    # thorough: the 2 958 466-state chain in its own single-worker process,
    # the argument machines beside it.
    # At most 4 TLC workers at a time: laws + export on 3 (thorough: 2 beside
    # the calendar chain), the action counts on 1.
    out = {}
    if quick:
        modes, arg_seed = ['cal', 'date', 'shift', 'time', 'yf', 'frac', 'far'], seed
        t_cal = None
    else:
        modes, arg_seed = ['date', 'shift', 'time', 'yf', 'frac', 'far'], seed + 1
        t_cal = threading.Thread(target=run_tlc, args=(
            tier, ['cal'], random.Random(seed), 'cal', 1, False, out))
        t_cal.start()
    t_cov = threading.Thread(target=run_tlc, args=(
        tier, modes, random.Random(arg_seed), 'cov', 1, True, out, '2g'))
    t_cov.start()
    run_tlc(tier, modes, random.Random(arg_seed), 'args', 3 if quick else 2, False, out,
            '2g' if quick else '6g')
    t_cov.join()
    res, cov = out['args'], out['cov']
    for r in (res, cov):
        if isinstance(r, BaseException):
            if t_cal:
                t_cal.join()
            raise r
    if (cov.distinct, cov.generated) != (res.distinct, res.generated):
        raise tlc.MachineryFailure(
            f'the run that counts the actions explored {cov.distinct} states / '
            f'{cov.generated} transitions, the run that checks the laws '
            f'{res.distinct} / {res.generated}')
    res.coverage = cov.coverage
    for act in ARG_ACTIONS + (('NextDay', 'NextMonth') if quick else ()):
        if res.coverage.get(act, (0, 0))[1] == 0:
            raise tlc.MachineryFailure(f'vacuous: action {act} never taken')
    v.add_tlc(res, 'Calendar_mc (all machines)' if quick
              else 'Calendar_big (date, shift, time, yf, frac, far)')
    v.extra['action_count_run'] = dict(
        what='same machines and constants, no INVARIANT / PROPERTY, -coverage',
        distinct=cov.distinct, generated=cov.generated, wall_s=round(cov.wall, 2))
    phase['wait_tlc_args'] = round(time.time() - t0, 1)
    if len(res.json) < res.distinct - (0 if not quick else QUICK_CAL_STATES - N_MONTHS - 3):
        raise tlc.MachineryFailure(
            f'export incomplete: {len(res.json)} vectors for {res.distinct} states')
    by = {}
    for vec in res.json:
        by.setdefault(vec['t'], []).append(vec)
    res.stdout = ''
    for kind, key in (('date', lambda x: (x['y'], x['m'], x['d'])),
                      ('shift', lambda x: (x['n'], x['k'])),
                      ('time', lambda x: x['s']),
                      ('yf', lambda x: (x['a'], x['b'], x['basis'], x['swapped'])),
                      ('fdate', lambda x: (x['y'], x['m'], x['d'], x['walk'])),
                      ('fshift', lambda x: (x['n'], x['q'], x['k'])),
                      ('far', lambda x: (x['kind'], x['a'], x['b'], x['sg'], x['mt'], x['ex']))):
        if len({key(x) for x in by.get(kind, [])}) != len(by.get(kind, [])):
            # split chains that did not merge into one another
            raise tlc.MachineryFailure(f'duplicate {kind} vectors in the export')
    sheet = Sheet()
    fbudget = dict(date=1500, shift=1500, time=1000, yf=400, cal=3000, frac=1000,
                   far=800) if quick \
        else dict(date=20000, shift=20000, time=15000, yf=3000, cal=60000, frac=12000,
                  far=8000)

    # -- DATE(y, m, d), m, d in -40..60
    j = Judge()
    dates = by.get('date', [])
    pf = min(1.0, fbudget['date'] / max(1, len(dates)))
    for vec in dates:
        args = (vec['y'], vec['m'], vec['d'])
        j.check('DATE', args, vec['allowed'])
        if rnd.random() < pf or (vec['m'] in (-40, 0, 1, 12, 13, 60)
                                 and vec['d'] in (-40, 0, 1, 32, 60)):
            got, = sheet.get(dict(G1=args[0], H1=args[1], I1=args[2]), ['J1'])
            j.check('DATE', args, vec['allowed'], via='formula =DATE(G1,H1,I1)', got=got)
    for vec in dates[:3]:
        v.sample(vec)
    total_bad += j.merge_into(v, counter)
    n_date = len(dates)

    # -- EOMONTH / EDATE
    j = Judge()
    shifts = by.get('shift', [])
    pf = min(1.0, fbudget['shift'] / max(1, len(shifts)))
    for vec in shifts:
        args = (vec['n'], vec['k'])
        j.check('EOMONTH', args, vec['eomonth'])
        j.check('EDATE', args, vec['edate'])
        if rnd.random() < pf or vec['k'] in (-1200, -1, 0, 1, 1200):
            g1, g2 = sheet.get(dict(A1=args[0], K1=args[1]), ['L1', 'M1'])
            j.check('EOMONTH', args, vec['eomonth'], via='formula =EOMONTH(A1,K1)', got=g1)
            j.check('EDATE', args, vec['edate'], via='formula =EDATE(A1,K1)', got=g2)
    for vec in shifts[1200:1202]:
        v.sample(vec)
    total_bad += j.merge_into(v, counter)

    # -- arguments with a fraction: numerators over den, whole numbers as int
    def arg(num, den):
        return num // den if num % den == 0 else num / den

    j = Judge()
    fdates, fshifts = by.get('fdate', []), by.get('fshift', [])
    if not fdates or not fshifts:
        raise tlc.MachineryFailure('no vectors of the frac machine in the export')
    pf = min(1.0, fbudget['frac'] / max(1, len(fdates)))
    for vec in fdates:
        args = tuple(arg(vec[a], vec['den']) for a in 'ymd')
        j.check('DATE', args, vec['allowed'])
        if rnd.random() < pf:
            got, = sheet.get(dict(G1=args[0], H1=args[1], I1=args[2]), ['J1'])
            j.check('DATE', args, vec['allowed'], via='formula =DATE(G1,H1,I1)', got=got)
    v.sample(fdates[len(fdates) // 2])
    pf = min(1.0, fbudget['frac'] / max(1, len(fshifts)))
    for vec in fshifts:
        den = vec['den']
        start, months = arg(vec['n'] * den + vec['q'], den), arg(vec['k'], den)
        j.check('EOMONTH', (start, months), vec['eomonth'])
        j.check('EDATE', (start, months), vec['edate'])
        if vec['k'] % (5 * den) == 0:      # the parts of a date-time are those of its day
            for fn in ('YEAR', 'MONTH', 'DAY', 'WEEKDAY'):
                j.check(fn, (start,), vec[fn.lower()])
        if rnd.random() < pf:
            got = sheet.get(dict(A1=start, K1=months), ['L1', 'M1', 'B1', 'C1', 'D1', 'E1'])
            j.check('EOMONTH', (start, months), vec['eomonth'],
                    via='formula =EOMONTH(A1,K1)', got=got[0])
            j.check('EDATE', (start, months), vec['edate'],
                    via='formula =EDATE(A1,K1)', got=got[1])
            for fn, g in zip(('YEAR', 'MONTH', 'DAY', 'WEEKDAY'), got[2:]):
                j.check(fn, (start,), vec[fn.lower()], via=f'formula ={fn}(A1)', got=g)
    v.sample(fshifts[len(fshifts) // 2])
    total_bad += j.merge_into(v, counter)

    # -- far arguments: +-mantissa * 10^exponent, as the exact int and as the
    # double a cell holds (beyond 2^53 the double is not that int: both are
    # far beyond the calendar, where the spec says the same for all of them)
    j = Judge()
    fars = by.get('far', [])
    if not fars:
        raise tlc.MachineryFailure('no vectors of the far machine in the export')
    pf = min(1.0, fbudget['far'] / max(1, len(fars)))
    for vec in fars:
        exact = vec['sg'] * vec['mt'] * 10 ** vec['ex']
        a, b, kind = vec['a'], vec['b'], vec['kind']
        for val in (exact, float(exact)):
            formula = isinstance(val, float) and (
                rnd.random() < pf or (vec['mt'] == 1 and vec['ex'] in (4, 5, 7, 20)))
            if kind in ('year', 'month', 'day'):
                args = dict(year=(val, a, b), month=(a, val, b), day=(a, b, val))[kind]
                j.check('DATE', args, vec['date'])
                if formula:
                    got, = sheet.get(dict(G1=args[0], H1=args[1], I1=args[2]), ['J1'])
                    j.check('DATE', args, vec['date'], via='formula =DATE(G1,H1,I1)', got=got)
            else:
                args = (a, val) if kind == 'shift' else (val, a)
                j.check('EOMONTH', args, vec['eomonth'])
                j.check('EDATE', args, vec['edate'])
                if formula:
                    g1, g2 = sheet.get(dict(A1=args[0], K1=args[1]), ['L1', 'M1'])
                    j.check('EOMONTH', args, vec['eomonth'],
                            via='formula =EOMONTH(A1,K1)', got=g1)
                    j.check('EDATE', args, vec['edate'], via='formula =EDATE(A1,K1)', got=g2)
    v.sample(next(x for x in fars if x['kind'] == 'day' and x['ex'] == 4))
    total_bad += j.merge_into(v, counter)

    # -- YEARFRAC symmetry (value not judged)
    j = Judge()
    yfs = by.get('yf', [])
    swapped = {(x['b'], x['a'], x['basis']) for x in yfs if x['swapped'] == 1}
    pf = min(1.0, fbudget['yf'] / max(1, len(yfs)))
    n_pairs = 0
    for vec in yfs:
        if vec['swapped']:
            continue
        a, b, basis = vec['a'], vec['b'], vec['basis']
        if a != b and (a, b, basis) not in swapped:
            raise tlc.MachineryFailure(f'swap of {vec} not exported')
        n_pairs += 1
        for via in ('lib', 'formula'):
            if via == 'lib':
                r1, r2 = call('YEARFRAC', a, b, basis), call('YEARFRAC', b, a, basis)
            elif rnd.random() < pf:
                r1, r2 = sheet.get(dict(R1=a, S1=b, T1=basis), ['U1', 'V1'])
            else:
                continue
            case = dict(fn='YEARFRAC', args=[a, b, basis], via=via,
                        allowed='symmetric number')
            if any(isinstance(r, Exception) or xl.typeclass(r) != 'num'
                   for r in (r1, r2)):
                j.fail(f'YEARFRAC({a},{b},{basis}) / swapped via {via}: expected two '
                       f'numbers, got {show(r1)} / {show(r2)}', case)
            elif r1 != r2:
                j.fail(f'YEARFRAC({a},{b},{basis}) = {r1!r} but '
                       f'YEARFRAC({b},{a},{basis}) = {r2!r} via {via}', case)
            else:
                j.cases += 1
    total_bad += j.merge_into(v, counter)

    # -- HOUR / MINUTE / SECOND
    times = sorted(by.get('time', []), key=lambda x: x['s'])
    if len(times) != 86400:
        raise tlc.MachineryFailure(f'{len(times)} time vectors, expected 86400')
    today = 45000 + rnd.randrange(2000)
    plan = [(0, False), (1, True), (today, False), (MAX_SERIAL, False)] if quick else \
        [(0, True), (1, True), (60, False), (today, True), (1000000, False),
         (MAX_SERIAL, True)]
    total_bad_time = 0
    for jt in pool_map(drive_time, [(c, plan) for c in chunks(times, procs * 2)], procs):
        total_bad_time += jt.merge_into(v, counter)
    total_bad += total_bad_time
    j = Judge()
    step = max(1, 86400 // fbudget['time'])
    r = rnd.randrange(step)
    for vec in times:
        if vec['s'] % step != r and vec['s'] % 3600 not in (0, 1, 3599):
            continue
        off = rnd.choice(plan)[0]
        dl = rnd.choice(vec['deltas'])
        x = off + (1000 * vec['s'] + dl) / 86400000
        got = sheet.get(dict(N1=x), ['O1', 'P1', 'Q1'])
        for fn, g, w in zip(('HOUR', 'MINUTE', 'SECOND'), got,
                            (vec['h'], vec['mi'], vec['sec'])):
            j.check(fn, (x,), [['N', w]], via=f'formula ={fn}(N1)', got=g)
    v.sample(times[3661])
    total_bad += j.merge_into(v, counter)

    # -- the calendar machine
    phase['drive_args'] = round(time.time() - t0, 1)
    if quick:
        cal_lines = by.get('cal', []) + by.get('edge', [])
        cal_distinct = None
    else:
        t_cal.join()
        cres = out['cal']
        if isinstance(cres, BaseException):
            raise cres
        v.add_tlc(cres, 'Calendar_big (cal: day-successor machine)')
        cal_lines, cal_distinct = cres.json, cres.distinct
        cres.stdout = ''
    phase['wait_tlc_cal'] = round(time.time() - t0, 1)
    day0, months, edge = months_from_export(cal_lines, cal_distinct, tier)
    r7, = rnd.sample(range(7), 1)
    jobs = [(c, 'quick' if quick else 'all', r7) for c in chunks(months, procs * 4)]
    ndays = 0
    for jd, k in pool_map(drive_days, jobs, procs):
        ndays += k
        total_bad += jd.merge_into(v, counter)
    j = Judge()
    # day 0 = 1900-01-00, a Saturday
    for fn, w in (('YEAR', 1900), ('MONTH', 1), ('DAY', 0), ('WEEKDAY', day0['wd'])):
        j.check(fn, (0,), [['N', w]])
    j.check('DATE', (1900, 1, 0), [['N', 0]])
    # outside 0..MaxSerial
    for fn in ('YEAR', 'MONTH', 'DAY', 'WEEKDAY'):
        j.check(fn, (edge['neg'],), edge['negParts'])
        j.check(fn, (edge['over'],), edge['overParts'])
    # formulas on a sample of days: all of 1900, month ends, random days
    picks = {0, 1, 59, 60, 61, 366, MAX_SERIAL}
    picks.update(range(0, 367 if quick else 732))
    while len(picks) < fbudget['cal']:
        n0, y, m, length, wd0 = months[rnd.randrange(len(months))]
        picks.add(n0 + rnd.choice((0, length - 1, rnd.randrange(length))))
    starts = [x[0] for x in months]
    import bisect
    for n in sorted(picks):
        if n == 0:
            y, m, d, wd = 1900, 1, 0, day0['wd']
        else:
            n0, y, m, length, wd0 = months[bisect.bisect_right(starts, n) - 1]
            d = n - n0 + 1
            wd = (wd0 - 1 + d - 1) % 7 + 1
        got = sheet.get(dict(A1=n), ['B1', 'C1', 'D1', 'E1', 'F1'])
        for fn, g, w in zip(('YEAR', 'MONTH', 'DAY', 'WEEKDAY'), got, (y, m, d, wd)):
            j.check(fn, (n,), [['N', w]], via=f'formula ={fn}(A1)', got=g)
        j.check('DATE(YEAR,MONTH,DAY)', (n,), [['N', n]],
                via='formula =DATE(YEAR(A1),MONTH(A1),DAY(A1))', got=got[4])
    for fn, cell in (('YEAR', 'B1'), ('MONTH', 'C1'), ('DAY', 'D1'), ('WEEKDAY', 'E1')):
        g, = sheet.get(dict(A1=edge['over']), [cell])
        j.check(fn, (edge['over'],), edge['overParts'], via=f'formula ={fn}(A1)', got=g)
        g, = sheet.get(dict(A1=edge['neg']), [cell])
        j.check(fn, (edge['neg'],), edge['negParts'], via=f'formula ={fn}(A1)', got=g)
    total_bad += j.merge_into(v, counter)
    v.sample(dict(t='cal', month_start=months[1], derived='days 32..60 of 1900-02'))

    phase['drive_cal'] = round(time.time() - t0, 1)
    v.traces = ndays + 1 + n_date + len(shifts) + n_pairs + len(times) \
        + len(fdates) + len(fshifts) + len(fars)
    v.extra.update(
        exhaustive=not quick,
        phase_elapsed_s=phase,
        serial_days_executed=ndays + 1,
        day_rule='every serial day 0..2958465' if not quick else
                 f'years 1900-1901 fully, first and last day of every month, '
                 f'every 7th day (n mod 7 = {r7})',
        calendar_states='one TLC state per day' if not quick else
                        'one TLC state per day through 1901, per month afterwards',
        month_lines=len(months),
        date_vectors=n_date, date_args='m, d in -40..60',
        shift_vectors=len(shifts), shift_range='-1200..1200',
        yearfrac_pairs=n_pairs, yearfrac_rule='symmetry only, bases 0..4',
        frac_date_vectors=len(fdates), frac_shift_vectors=len(fshifts),
        frac_rule='arguments in quarters; DATE along lines of the -40..60 grid, '
                  'EOMONTH/EDATE from every quarter of a start day, months -30..30 '
                  'by quarters; whole part, negative: truncation or floor',
        far_vectors=len(fars),
        far_rule='one argument of DATE / EOMONTH / EDATE = +-{1,2,3,5,7} * 10^(0..20) as int '
                 'and as double, the others pinned; evaluated exactly up to 10^6, '
                 'beyond that out of the calendar: #NUM! (a start day: any value), '
                 'never an exception',
        time_vectors=len(times), time_day_offsets=[p[0] for p in plan],
        time_deltas_ms=times[1]['deltas'],
        discrepancies_total=total_bad, discrepancies_stored=len(v.violations),
        coverage_actions={k: list(c) for k, c in res.coverage.items()
                          if k in ARG_ACTIONS},
        unconstrained=[
            'DATE whose month argument carries to before 1900-01 while the day '
            'argument carries back into range (any value, no exception)',
            'EDATE from serial 0 (day 0 of a month)',
            'YEAR/MONTH/DAY/WEEKDAY/EOMONTH/EDATE of a serial > 2958465: '
            'any value, no exception',
            'YEARFRAC values (only symmetry and "two numbers")',
            'a negative month / day argument with a fraction: truncated or floored',
            'a year argument with a fraction is only enumerated below 9999',
            'WEEKDAY return types: not enumerated'],
        rule='one case = (function, arguments, access path); the allowed set '
             'comes from TLC; distinct = number of cases (distinct by construction)')
    v.assumptions = [
        'TLC evaluates Calendar.tla correctly',
        'the days between two month starts printed by TLC are n0 .. n1-1 with '
        'consecutive day numbers and weekdays (what NextDay does; checked by TLC '
        'state by state in the thorough tier, by MonthJumpSound in the quick tier)',
        'times are passed as the double nearest to day + ms/86400000']
    if total_bad > len(v.violations):
        v.note(f'{total_bad} discrepancies in total, first {len(v.violations)} stored')
    return v.finish()


def replay(path):
    """re-execute the case of a replay file on the current tree"""
    with open(path) as f:
        rec = json.load(f)
    case = rec['case']
    fn, args = case['fn'], case['args']
    if fn == 'YEARFRAC':
        r1 = call(fn, *args)
        r2 = call(fn, args[1], args[0], args[2])
        ok = not any(isinstance(r, Exception) or xl.typeclass(r) != 'num'
                     for r in (r1, r2)) and r1 == r2
        print(f'YEARFRAC{tuple(args)} = {show(r1)}; swapped = {show(r2)}')
    else:
        if fn.startswith('DATE('):
            n = args[0]
            got = call('DATE', call('YEAR', n), call('MONTH', n), call('DAY', n))
        else:
            got = call(fn, *args)
        ok = conforms(got, case['allowed'])
        print(f'{fn}{tuple(args)} = {show(got)}; allowed {case["allowed"]}')
    if ok:
        print(f'{PID}: replay passes on this tree')
        return 0
    print(f'VIOLATION property={PID} replay={path}')
    return 1
