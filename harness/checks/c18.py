"""C18 -- radix conversions on the 10-digit two's-complement range.

Spec: spec/Radix.tla (odometer machine, Val/Canon/Regroup definitions,
laws SuccAddsOne, RegroupAgrees, CanonSame, Extremes checked by TLC).
Binding: every state visited by TLC is exported and driven through the real
DEC2x/x2DEC/x2y functions (library call and compiled formula); the
definitions' values are the oracle.

"Anything outside the range or alphabet yields #NUM!/#VALUE! rather than a
value or an exception" is driven per vector with: digit strings of the base
with one illegal character and with 11 characters (x2DEC), the decimal numeral
of the value as text with one illegal character (DEC2x), and a places argument
that is text with an illegal character or an error value (DEC2x, x2y; an error
value may also be handed on as it is).  Places > 10 is not judged (outside the
quantifier "places 1..10", not documented by Excel).
"""
import json
import os
import random

from harness import tlc, xl
from harness.evidence import Verdict

PID = 'C18'
DIG = '0123456789ABCDEF'
NAME = {2: 'bin', 8: 'oct', 16: 'hex'}
RANGE = {2: 512, 8: 2 ** 29, 16: 2 ** 39}
ILLEGAL = {2: ['2', 'G', ' ', '_', '+', 'x', '-', '.'],
           8: ['8', 'G', ' ', '_', '+', 'x', '-', '.'],
           16: ['G', ' ', '_', '+', 'x', '-', '.', 'g'],
           # the decimal argument of DEC2x and the places argument, given as
           # text: characters that no Excel reading of a number contains
           # (blanks, signs, '.', ',', 'E', '%', '$', '/', ':' can all be part
           # of a text that Excel reads as a number, they are not used)
           10: ['_', 'G', 'x', '!', '~', '#']}
# error values as an argument: the error itself (Excel hands it on) or one of
# the two errors the statement names, never a value or an exception
ARG_ERRORS = ['#DIV/0!', '#N/A', '#NAME?', '#REF!', '#NULL!', '#NUM!', '#VALUE!']


def dstr(digs):
    return ''.join(DIG[d] for d in digs)


def wrapper_module(tier, seed, rnd):
    """MC module with the seeds for this run (thorough: + random seeds)."""
    if tier == 'quick':
        return 'MC_Radix', tlc.SPEC
    d = tlc.new_scratch('radix')

    def seeds(base, n):
        out = []
        for _ in range(n):
            out.append('<<' + ','.join(str(rnd.randrange(base)) for _ in range(10)) + '>>')
        return ', '.join(out)
    with open(os.path.join(d, 'MC_RadixT.tla'), 'w') as f:
        f.write(f'''---- MODULE MC_RadixT ----
EXTENDS MC_Radix
TBases == {{2, 8, 16}}
TSeeds == [base \\in TBases |->
  IF base = 2 THEN MCSeeds[2]
  ELSE IF base = 8 THEN MCSeeds[8] \\cup {{ {seeds(8, 60)} }}
  ELSE MCSeeds[16] \\cup {{ {seeds(16, 60)} }}]
TSteps == [base \\in TBases |-> IF base = 2 THEN 1023 ELSE 300]
====
''')
    with open(os.path.join(d, 'T.cfg'), 'w') as f:
        f.write(open(os.path.join(tlc.SPEC, 'Radix_mc.cfg')).read()
                .replace('MCBases', 'TBases').replace('MCSeeds', 'TSeeds')
                .replace('MCSteps', 'TSteps'))
    return 'MC_RadixT', d


def run(tier, seed):
    v = Verdict(PID, tier, seed)
    rnd = random.Random(seed)
    from pycel.lib import engineering as eng
    from pycel.excelutil import ERROR_CODES, NUM_ERROR, VALUE_ERROR

    module, d = wrapper_module(tier, seed, rnd)
    cfg = 'Radix_mc.cfg' if tier == 'quick' else os.path.join(d, 'T.cfg')
    res = tlc.run(module, cfg, spec_dir=d, workers=1 if tier == 'quick' else 4,
                  coverage=True, extra=(), env=None,
                  timeout=1500) if d == tlc.SPEC else \
        tlc.run(module, cfg, spec_dir=d, workers=4, coverage=True,
                timeout=1500, library=tlc.SPEC)
    if not res.ok:
        raise tlc.MachineryFailure(
            f'Radix model violates {res.violated}:\n' + res.stdout[-2000:])
    if res.coverage.get('Step', (0, 0))[1] == 0:
        raise tlc.MachineryFailure('vacuous: action Step never taken')
    v.add_tlc(res, 'Radix_mc')
    vectors = res.json
    if len(vectors) < res.distinct:
        raise tlc.MachineryFailure(
            f'export incomplete: {len(vectors)} vectors for {res.distinct} states')

    def call(fn, *args):
        try:
            return fn(*args)
        except Exception as exc:   # noqa
            return exc

    def expect(desc, got, want, case):
        v.case((desc.split(' ')[0], json.dumps(case, sort_keys=True)))
        if isinstance(got, Exception) or not xl.same_value(got, want):
            v.violation(f'{desc}: expected {want!r}, got {got!r}', case)

    def expect_error(desc, got, case, allowed=(NUM_ERROR, VALUE_ERROR)):
        v.case((desc.split(' ')[0], json.dumps(case, sort_keys=True)))
        if isinstance(got, Exception) or got not in allowed:
            v.violation(f'{desc}: expected one of {allowed}, got {got!r}', case)

    formula_budget = 150 if tier == 'quick' else 1500
    for vec in vectors:
        base = vec['base']
        nm = NAME[base]
        n = int(''.join(map(str, vec['mag']))) * (-1 if vec['neg'] else 1)
        canon = dstr(vec['canon'])
        full = dstr(vec['digs'])
        case = dict(base=base, digits=full, value=n)
        v.sample(dict(case, canon=canon))
        x2dec = getattr(eng, nm + '2dec')
        dec2x = getattr(eng, 'dec2' + nm)
        # inverse pair
        expect(f'{nm}2dec canon', call(x2dec, canon), n, case)
        expect(f'{nm}2dec padded', call(x2dec, full), n, case)
        if base == 16:
            expect('hex2dec lower', call(x2dec, canon.lower()), n, case)
        expect(f'dec2{nm}', call(dec2x, n), canon, case)
        expect(f'{nm}2dec(dec2{nm})', call(x2dec, call(dec2x, n)), n, case)
        # numeric argument for digit strings that are decimal numerals
        if not vec['neg'] and canon.isdigit() and len(canon) <= 10:
            expect(f'{nm}2dec numeric', call(x2dec, int(canon)), n, case)
        # places
        for p in range(0, 11):       # places = 0 is always too small
            got = call(dec2x, n, p)
            if len(canon) > p:
                expect_error(f'dec2{nm} places={p}', got, case, (NUM_ERROR,))
            else:
                expect(f'dec2{nm} places={p}', got, canon.zfill(p), case)
        # base to base = composition through decimal
        for ob in (2, 8, 16):
            if ob == base:
                continue
            f = getattr(eng, f'{nm}2{NAME[ob]}')
            got = call(f, canon)
            if -RANGE[ob] <= n < RANGE[ob]:
                want = call(getattr(eng, 'dec2' + NAME[ob]), n)
                expect(f'{nm}2{NAME[ob]}', got, want, case)
                if base == 2:   # TLC's regrouping of the bits
                    expect(f'bin2{NAME[ob]} regroup', got,
                           dstr(vec['oct' if ob == 8 else 'hex']), case)
            else:
                expect_error(f'{nm}2{NAME[ob]} out of range', got, case, (NUM_ERROR,))
        # strings with one illegal character, and 11 characters
        pos = rnd.randrange(len(canon) + 1)
        for bad in ILLEGAL[base]:
            for s_bad in (canon[:pos] + bad + canon[pos + 1:],
                          (canon[:pos] + bad + canon[pos:])[:10]):
                if s_bad == '' or all(ch.upper() in DIG[:base] for ch in s_bad):
                    continue
                expect_error(f'{nm}2dec illegal', call(x2dec, s_bad),
                             dict(case, text=s_bad))
        expect_error(f'{nm}2dec 11 chars', call(x2dec, '0' + full), case, (NUM_ERROR,))
        # the decimal numeral of n, as text, with one illegal character
        dec = str(n)
        pos = rnd.randrange(len(dec) + 1)
        bad = rnd.choice(ILLEGAL[10])
        bad_decs = [dec[:pos] + bad + dec[pos:]]
        if len(dec) > 1:
            pos = rnd.randrange(1, len(dec))      # between two characters
            bad_decs.append(dec[:pos] + '_' + dec[pos:])
            bad_decs.append(dec[:pos] + bad + dec[pos + 1:])
        for s_bad in bad_decs:
            expect_error(f'dec2{nm} illegal', call(dec2x, s_bad),
                         dict(case, text=s_bad))
        # places that is not a number 1..10: text with an illegal character,
        # an error value
        digits = str(rnd.randrange(1, 11))
        pos = rnd.randrange(len(digits) + 1)
        for p_bad in (digits[:pos] + bad + digits[pos:], '1_0', bad * 3):
            expect_error(f'dec2{nm} places illegal', call(dec2x, n, p_bad),
                         dict(case, places=p_bad))
        err = rnd.choice(ARG_ERRORS)
        expect_error(f'dec2{nm} places error', call(dec2x, n, err),
                     dict(case, places=err), (err, NUM_ERROR, VALUE_ERROR))
        ob = rnd.choice([o for o in (2, 8, 16) if o != base])
        if -RANGE[ob] <= n < RANGE[ob]:
            f = getattr(eng, f'{nm}2{NAME[ob]}')
            p_bad = rnd.choice((digits[:pos] + bad + digits[pos:], '1_0', bad * 3))
            expect_error(f'{nm}2{NAME[ob]} places illegal', call(f, canon, p_bad),
                         dict(case, places=p_bad))
            expect_error(f'{nm}2{NAME[ob]} places error', call(f, canon, err),
                         dict(case, places=err), (err, NUM_ERROR, VALUE_ERROR))
        # through compiled formulas
        if formula_budget > 0 and (rnd.random() < 0.1 or n in (
                -RANGE[base], RANGE[base] - 1, -1, 0)):
            formula_budget -= 1
            fn = nm.upper()
            expect(f'formula {fn}2DEC', call(
                xl.evalf, f'={fn}2DEC(A1)', {'A1': canon}), n, case)
            expect(f'formula DEC2{fn}', call(
                xl.evalf, f'=DEC2{fn}(A1)', {'A1': n}), canon, case)
            expect(f'formula roundtrip', call(
                xl.evalf, f'={fn}2DEC(DEC2{fn}(A1))', {'A1': n}), n, case)
            # illegal text / error values reach the functions through cells
            # and through literals and sub-expressions of the formula
            s_bad, p_bad = bad_decs[-1], digits[:pos] + bad + digits[pos:]
            expect_error(f'formula DEC2{fn} illegal', call(
                xl.evalf, f'=DEC2{fn}(A1)', {'A1': s_bad}), dict(case, text=s_bad))
            expect_error(f'formula DEC2{fn} illegal literal', call(
                xl.evalf, f'=DEC2{fn}("{s_bad}")', {}), dict(case, text=s_bad))
            expect_error(f'formula DEC2{fn} places illegal', call(
                xl.evalf, f'=DEC2{fn}(A1,B1)', {'A1': n, 'B1': p_bad}),
                dict(case, places=p_bad))
            expect_error(f'formula DEC2{fn} places illegal literal', call(
                xl.evalf, f'=DEC2{fn}(A1,"{p_bad}")', {'A1': n}),
                dict(case, places=p_bad))
            expect_error(f'formula DEC2{fn} places error', call(
                xl.evalf, f'=DEC2{fn}(A1,1/0)', {'A1': n}),
                dict(case, places='1/0'), ('#DIV/0!', NUM_ERROR, VALUE_ERROR))
    # outside the range
    for base in (2, 8, 16):
        dec2x = getattr(eng, 'dec2' + NAME[base])
        for n in (RANGE[base], -RANGE[base] - 1, RANGE[base] * 7, -RANGE[base] * 3):
            expect_error(f'dec2{NAME[base]} out of range', call(dec2x, n),
                         dict(base=base, value=n), (NUM_ERROR,))
    v.extra.update(exhaustive=(tier == 'quick'), vectors=len(vectors),
                   coverage_actions={k: list(c) for k, c in res.coverage.items()},
                   rule='one case = (function, base, digit string / value); '
                        'non-trivial = distinct (function, input) pair; '
                        'binary range exhaustive, octal/hex: 128-step odometer '
                        'walks across every boundary and patterned seeds',
                   illegal_characters={str(k): c for k, c in ILLEGAL.items()},
                   unconstrained=['places > 10', 'text that Excel reads as a number '
                                  '(blanks, signs, scientific notation) as the '
                                  'decimal argument'])
    v.traces = len(vectors)
    v.assumptions = ['TLC evaluates Radix.tla definitions correctly',
                     'decimal value strings compared through Python int()']
    return v.finish()
