"""C18 -- radix conversions on the 10-digit two's-complement range.

Spec: spec/Radix.tla (odometer machine, Val/Canon/Regroup definitions,
laws SuccAddsOne, RegroupAgrees, CanonSame, Extremes checked by TLC).
Binding: every state visited by TLC is exported and driven through the real
DEC2x/x2DEC/x2y functions (library call and compiled formula); the
definitions' values are the oracle.

"Anything outside the range or alphabet yields #NUM!/#VALUE! rather than a
value or an exception" is driven per vector with: digit strings of the base
with one illegal character and with 11 characters (x2DEC), the decimal numeral
of the value as text with one illegal character (DEC2x), and a places argument
that is text with an illegal character or an error value (DEC2x, x2y; an error
value may also be handed on as it is).  Places 11 .. 10^18 is not judged
(outside the quantifier "places 1..10", not documented by Excel).
"Outside the range" is driven at every magnitude: the spec scales the value of
every vector by 10^e (Radix!Exps: next to the ranges, beyond 2^63, around and
beyond the largest double) and says which of them are outside (Radix!InRange),
which are beyond the doubles (Radix!BeyondDouble) and which make a decimal
numeral of more than 10 digits; they are handed to DEC2x, x2DEC and x2y as an
integer, as the nearest double (an infinity when beyond the doubles), as
numeric text ("-512e3", "5e400") and as the digits written out, and 10^e
(e >= 19) as places.  NaN, the double that is no number, goes the same way.
"""
import json
import math
import os
import random

from harness import tlc, xl
from harness.evidence import Verdict

PID = 'C18'
DIG = '0123456789ABCDEF'
NAME = {2: 'bin', 8: 'oct', 16: 'hex'}
RANGE = {2: 512, 8: 2 ** 29, 16: 2 ** 39}
# (line feed, tab, carriage return: legal characters of a cell text, CHAR(10))
ILLEGAL = {2: ['2', 'G', ' ', '_', '+', 'x', '-', '.', '\n', '\t', '\r'],
           8: ['8', 'G', ' ', '_', '+', 'x', '-', '.', '\n', '\t', '\r'],
           16: ['G', ' ', '_', '+', 'x', '-', '.', 'g', '\n', '\t', '\r'],
           # the decimal argument of DEC2x and the places argument, given as
           # text: characters that no Excel reading of a number contains
           # (blanks, signs, '.', ',', 'E', '%', '$', '/', ':' can all be part
           # of a text that Excel reads as a number, they are not used)
           10: ['_', 'G', 'x', '!', '~', '#']}
# error values as an argument: the error itself (Excel hands it on) or one of
# the two errors the statement names, never a value or an exception
ARG_ERRORS = ['#DIV/0!', '#N/A', '#NAME?', '#REF!', '#NULL!', '#NUM!', '#VALUE!']


def dstr(digs):
    return ''.join(DIG[d] for d in digs)


def wrapper_module(tier, seed, rnd):
    """MC module with the seeds for this run (thorough: + random seeds)."""
    if tier == 'quick':
        return 'MC_Radix', tlc.SPEC
    d = tlc.new_scratch('radix')

    def seeds(base, n):
        out = []
        for _ in range(n):
            out.append('<<' + ','.join(str(rnd.randrange(base)) for _ in range(10)) + '>>')
        return ', '.join(out)
    with open(os.path.join(d, 'MC_RadixT.tla'), 'w') as f:
        f.write(f'''---- MODULE MC_RadixT ----
EXTENDS MC_Radix
TBases == {{2, 8, 16}}
TSeeds == [base \\in TBases |->
  IF base = 2 THEN MCSeeds[2]
  ELSE IF base = 8 THEN MCSeeds[8] \\cup {{ {seeds(8, 60)} }}
  ELSE MCSeeds[16] \\cup {{ {seeds(16, 60)} }}]
TSteps == [base \\in TBases |-> IF base = 2 THEN 1023 ELSE 300]
====
''')
    with open(os.path.join(d, 'T.cfg'), 'w') as f:
        f.write(open(os.path.join(tlc.SPEC, 'Radix_mc.cfg')).read()
                .replace('MCBases', 'TBases').replace('MCSeeds', 'TSeeds')
                .replace('MCSteps', 'TSteps'))
    return 'MC_RadixT', d


def run(tier, seed):
    v = Verdict(PID, tier, seed)
    rnd = random.Random(seed)
    from pycel.lib import engineering as eng
    from pycel.excelutil import ERROR_CODES, NUM_ERROR, VALUE_ERROR

    module, d = wrapper_module(tier, seed, rnd)
    cfg = 'Radix_mc.cfg' if tier == 'quick' else os.path.join(d, 'T.cfg')
    res = tlc.run(module, cfg, spec_dir=d, workers=1 if tier == 'quick' else 4,
                  coverage=True, extra=(), env=None,
                  timeout=1500) if d == tlc.SPEC else \
        tlc.run(module, cfg, spec_dir=d, workers=4, coverage=True,
                timeout=1500, library=tlc.SPEC)
    if not res.ok:
        raise tlc.MachineryFailure(
            f'Radix model violates {res.violated}:\n' + res.stdout[-2000:])
    if res.coverage.get('Step', (0, 0))[1] == 0:
        raise tlc.MachineryFailure('vacuous: action Step never taken')
    v.add_tlc(res, 'Radix_mc')
    vectors = res.json
    if len(vectors) < res.distinct:
        raise tlc.MachineryFailure(
            f'export incomplete: {len(vectors)} vectors for {res.distinct} states')

    def call(fn, *args):
        try:
            return fn(*args)
        except Exception as exc:   # noqa
            return exc

    def expect(desc, got, want, case):
        v.case((desc.split(' ')[0], json.dumps(case, sort_keys=True)))
        if isinstance(got, Exception) or not xl.same_value(got, want):
            v.violation(f'{desc}: expected {want!r}, got {got!r}', case)

    def expect_error(desc, got, case, allowed=(NUM_ERROR, VALUE_ERROR)):
        v.case((desc.split(' ')[0], json.dumps(case, sort_keys=True)))
        if isinstance(got, Exception) or not isinstance(got, str) or got not in allowed:
            v.violation(f'{desc}: expected one of {allowed}, got {got!r}', case)

    def short(x):
        r = repr(x)
        return r if len(r) <= 40 else f'{r[:12]}..({len(r)} chars)..{r[-8:]}'

    def forms(mant, e, beyond, written_out):
        """mant * 10^e as the arguments that stand for it: (kind, argument,
        errors allowed).  A finite number outside the range is #NUM!; what no
        number stands for (an infinity, text) may also be #VALUE!"""
        sci = f'{mant}e{e}'
        dbl = float(sci)
        if beyond and not math.isinf(dbl):
            raise tlc.MachineryFailure(f'{sci} is finite, the spec says beyond the doubles')
        out = [('int', mant * 10 ** e, (NUM_ERROR,)),
               ('float', dbl, (NUM_ERROR, VALUE_ERROR) if math.isinf(dbl) else (NUM_ERROR,)),
               ('text', sci, (NUM_ERROR, VALUE_ERROR))]
        if written_out:
            out.append(('digits', str(mant * 10 ** e), (NUM_ERROR, VALUE_ERROR)))
        return out

    def some(exps, keep=None):
        """quick tier: every exponent; thorough tier (15 times the vectors):
        four of them per vector, chosen at random"""
        exps = sorted(exps)
        if tier == 'quick' or len(exps) <= 4:
            return exps
        return sorted(set(rnd.sample(exps, 4)) | ({keep} if keep is not None else set()))

    seen_inf = 0

    formula_budget = 150 if tier == 'quick' else 1500
    for vec in vectors:
        base = vec['base']
        nm = NAME[base]
        n = int(''.join(map(str, vec['mag']))) * (-1 if vec['neg'] else 1)
        canon = dstr(vec['canon'])
        full = dstr(vec['digs'])
        case = dict(base=base, digits=full, value=n)
        v.sample(dict(case, canon=canon))
        x2dec = getattr(eng, nm + '2dec')
        dec2x = getattr(eng, 'dec2' + nm)
        # inverse pair
        expect(f'{nm}2dec canon', call(x2dec, canon), n, case)
        expect(f'{nm}2dec padded', call(x2dec, full), n, case)
        if base == 16:
            expect('hex2dec lower', call(x2dec, canon.lower()), n, case)
        expect(f'dec2{nm}', call(dec2x, n), canon, case)
        expect(f'{nm}2dec(dec2{nm})', call(x2dec, call(dec2x, n)), n, case)
        # numeric argument for digit strings that are decimal numerals
        if not vec['neg'] and canon.isdigit() and len(canon) <= 10:
            expect(f'{nm}2dec numeric', call(x2dec, int(canon)), n, case)
        # places
        for p in range(0, 11):       # places = 0 is always too small
            got = call(dec2x, n, p)
            if len(canon) > p:
                expect_error(f'dec2{nm} places={p}', got, case, (NUM_ERROR,))
            else:
                expect(f'dec2{nm} places={p}', got, canon.zfill(p), case)
        # base to base = composition through decimal
        for ob in (2, 8, 16):
            if ob == base:
                continue
            f = getattr(eng, f'{nm}2{NAME[ob]}')
            got = call(f, canon)
            if -RANGE[ob] <= n < RANGE[ob]:
                want = call(getattr(eng, 'dec2' + NAME[ob]), n)
                expect(f'{nm}2{NAME[ob]}', got, want, case)
                if base == 2:   # TLC's regrouping of the bits
                    expect(f'bin2{NAME[ob]} regroup', got,
                           dstr(vec['oct' if ob == 8 else 'hex']), case)
            else:
                expect_error(f'{nm}2{NAME[ob]} out of range', got, case, (NUM_ERROR,))
        # strings with one illegal character, and 11 characters
        pos = rnd.randrange(len(canon) + 1)
        for bad in ILLEGAL[base]:
            # somewhere, as the first and as the last character
            for s_bad in {canon[:pos] + bad + canon[pos + 1:],
                          (canon[:pos] + bad + canon[pos:])[:10],
                          (bad + canon)[:10], canon[:9] + bad}:
                if s_bad == '' or all(ch.upper() in DIG[:base] for ch in s_bad):
                    continue
                expect_error(f'{nm}2dec illegal', call(x2dec, s_bad),
                             dict(case, text=s_bad))
        expect_error(f'{nm}2dec 11 chars', call(x2dec, '0' + full), case, (NUM_ERROR,))
        # the decimal numeral of n, as text, with one illegal character
        dec = str(n)
        pos = rnd.randrange(len(dec) + 1)
        bad = rnd.choice(ILLEGAL[10])
        bad_decs = [dec[:pos] + bad + dec[pos:]]
        if len(dec) > 1:
            pos = rnd.randrange(1, len(dec))      # between two characters
            bad_decs.append(dec[:pos] + '_' + dec[pos:])
            bad_decs.append(dec[:pos] + bad + dec[pos + 1:])
        for s_bad in bad_decs:
            expect_error(f'dec2{nm} illegal', call(dec2x, s_bad),
                         dict(case, text=s_bad))
        # places that is not a number 1..10: text with an illegal character,
        # an error value
        digits = str(rnd.randrange(1, 11))
        pos = rnd.randrange(len(digits) + 1)
        for p_bad in (digits[:pos] + bad + digits[pos:], '1_0', bad * 3):
            expect_error(f'dec2{nm} places illegal', call(dec2x, n, p_bad),
                         dict(case, places=p_bad))
        err = rnd.choice(ARG_ERRORS)
        expect_error(f'dec2{nm} places error', call(dec2x, n, err),
                     dict(case, places=err), (err, NUM_ERROR, VALUE_ERROR))
        ob = rnd.choice([o for o in (2, 8, 16) if o != base])
        if -RANGE[ob] <= n < RANGE[ob]:
            f = getattr(eng, f'{nm}2{NAME[ob]}')
            p_bad = rnd.choice((digits[:pos] + bad + digits[pos:], '1_0', bad * 3))
            expect_error(f'{nm}2{NAME[ob]} places illegal', call(f, canon, p_bad),
                         dict(case, places=p_bad))
            expect_error(f'{nm}2{NAME[ob]} places error', call(f, canon, err),
                         dict(case, places=err), (err, NUM_ERROR, VALUE_ERROR))
        # outside the range at every magnitude: n * 10^e for the exponents the
        # spec found outside the range of the base
        if sorted(vec['out']) != sorted(
                e for e in vec['exps'] if not -RANGE[base] <= n * 10 ** e < RANGE[base]):
            raise tlc.MachineryFailure(f'Radix!InRange disagrees with integer arithmetic: {vec}')
        e_out = rnd.choice(sorted(vec['out'])) if vec['out'] else None
        for e in some(vec['out'], e_out):
            for kind, arg, allowed in forms(n, e, e in vec['inf'], e == e_out):
                seen_inf += isinstance(arg, float) and math.isinf(arg)
                expect_error(f'dec2{nm} scaled {kind}', call(dec2x, arg),
                             dict(case, exp10=e, arg=short(arg)), allowed)
        # ... and the digit string read as a decimal numeral, times 10^e, once
        # it has more than 10 digits (x2DEC and x2y given a number)
        if canon.isdigit():
            f = getattr(eng, f'{nm}2{NAME[ob]}')
            for e in some(vec['long']):
                for kind, arg, allowed in forms(int(canon), e, len(canon) + e >= 310, False):
                    if kind == 'text':
                        continue         # more than 10 characters: driven above
                    expect_error(f'{nm}2dec scaled {kind}', call(x2dec, arg),
                                 dict(case, exp10=e, arg=short(arg)), allowed)
                    expect_error(f'{nm}2{NAME[ob]} scaled {kind}', call(f, arg),
                                 dict(case, exp10=e, arg=short(arg)), allowed)
        # places beyond any text length: 10^e, e >= 19
        for e in some(vec['pfar']):
            for kind, arg, allowed in forms(1, e, e >= 309, False):
                expect_error(f'dec2{nm} places scaled {kind}', call(dec2x, n, arg),
                             dict(case, exp10=e, places=short(arg)),
                             (NUM_ERROR, VALUE_ERROR))
        # through compiled formulas
        if formula_budget > 0 and (rnd.random() < 0.1 or n in (
                -RANGE[base], RANGE[base] - 1, -1, 0)):
            formula_budget -= 1
            fn = nm.upper()
            expect(f'formula {fn}2DEC', call(
                xl.evalf, f'={fn}2DEC(A1)', {'A1': canon}), n, case)
            expect(f'formula DEC2{fn}', call(
                xl.evalf, f'=DEC2{fn}(A1)', {'A1': n}), canon, case)
            expect(f'formula roundtrip', call(
                xl.evalf, f'={fn}2DEC(DEC2{fn}(A1))', {'A1': n}), n, case)
            # illegal text / error values reach the functions through cells
            # and through literals and sub-expressions of the formula
            s_bad, p_bad = bad_decs[-1], digits[:pos] + bad + digits[pos:]
            expect_error(f'formula DEC2{fn} illegal', call(
                xl.evalf, f'=DEC2{fn}(A1)', {'A1': s_bad}), dict(case, text=s_bad))
            expect_error(f'formula DEC2{fn} illegal literal', call(
                xl.evalf, f'=DEC2{fn}("{s_bad}")', {}), dict(case, text=s_bad))
            expect_error(f'formula DEC2{fn} places illegal', call(
                xl.evalf, f'=DEC2{fn}(A1,B1)', {'A1': n, 'B1': p_bad}),
                dict(case, places=p_bad))
            expect_error(f'formula DEC2{fn} places illegal literal', call(
                xl.evalf, f'=DEC2{fn}(A1,"{p_bad}")', {'A1': n}),
                dict(case, places=p_bad))
            expect_error(f'formula DEC2{fn} places error', call(
                xl.evalf, f'=DEC2{fn}(A1,1/0)', {'A1': n}),
                dict(case, places='1/0'), ('#DIV/0!', NUM_ERROR, VALUE_ERROR))
            # beyond the range / beyond the doubles through cells and literals
            if e_out is not None:
                sci = f'{n}e{e_out}'
                expect_error(f'formula DEC2{fn} scaled text', call(
                    xl.evalf, f'=DEC2{fn}(A1)', {'A1': sci}), dict(case, text=sci))
                expect_error(f'formula DEC2{fn} scaled literal', call(
                    xl.evalf, f'=DEC2{fn}("{sci}")', {}), dict(case, text=sci))
                if not math.isinf(float(sci)):
                    expect_error(f'formula DEC2{fn} scaled number', call(
                        xl.evalf, f'=DEC2{fn}(A1)', {'A1': float(sci)}),
                        dict(case, number=sci), (NUM_ERROR,))
            e_far = rnd.choice(sorted(vec['pfar']))
            expect_error(f'formula DEC2{fn} places scaled', call(
                xl.evalf, f'=DEC2{fn}(A1,"1e{e_far}")', {'A1': n}),
                dict(case, places=f'"1e{e_far}"'))
            if e_far < 309:
                expect_error(f'formula DEC2{fn} places scaled number', call(
                    xl.evalf, f'=DEC2{fn}(A1,B1)', {'A1': n, 'B1': float(f'1e{e_far}')}),
                    dict(case, places=f'1e{e_far}'))
    # outside the range
    if not seen_inf:
        raise tlc.MachineryFailure('vacuous: no scaled value was beyond the doubles')
    nan = float('nan')
    for base in (2, 8, 16):
        nm, fn = NAME[base], NAME[base].upper()
        dec2x = getattr(eng, 'dec2' + nm)
        x2dec = getattr(eng, nm + '2dec')
        for n in (RANGE[base], -RANGE[base] - 1, RANGE[base] * 7, -RANGE[base] * 3):
            expect_error(f'dec2{nm} out of range', call(dec2x, n),
                         dict(base=base, value=n), (NUM_ERROR,))
        # the doubles that no number stands for: the infinities and NaN
        others = [(NAME[ob], getattr(eng, f'{nm}2{NAME[ob]}'))
                  for ob in (2, 8, 16) if ob != base]
        for name, x in (('inf', math.inf), ('-inf', -math.inf), ('nan', nan)):
            case = dict(base=base, value=name)
            expect_error(f'dec2{nm} not finite', call(dec2x, x), case)
            expect_error(f'dec2{nm} places not finite', call(dec2x, 1, x), case)
            expect_error(f'{nm}2dec not finite', call(x2dec, x), case)
            for to, f in others:
                expect_error(f'{nm}2{to} not finite', call(f, x), case)
                expect_error(f'{nm}2{to} places not finite', call(f, '1', x), case)
        # ... as they arise inside a workbook: to pycel 1E+308*10.5 is an
        # infinity and 1E+308*10 an integer of 310 digits
        for name, expr in (('inf', '1E+308*10.5'), ('-inf', '-1E+308*10.5'),
                           ('1e309', '1E+308*10')):
            case = dict(base=base, value=name, expr=expr)
            to = others[0][0].upper()
            for desc, formula in (
                    (f'formula DEC2{fn} not finite', f'=DEC2{fn}({expr})'),
                    (f'formula DEC2{fn} not finite cell', f'=DEC2{fn}(A1*10.5)'),
                    (f'formula DEC2{fn} places not finite', f'=DEC2{fn}(1,{expr})'),
                    (f'formula {fn}2DEC not finite', f'={fn}2DEC({expr})'),
                    (f'formula {fn}2{to} not finite', f'={fn}2{to}({expr})')):
                cells = {'A1': -1e308 if name == '-inf' else 1e308}
                expect_error(desc, call(xl.evalf, formula, cells), dict(case, formula=formula))
    v.extra.update(exhaustive=(tier == 'quick'), vectors=len(vectors),
                   coverage_actions={k: list(c) for k, c in res.coverage.items()},
                   rule='one case = (function, base, digit string / value); '
                        'non-trivial = distinct (function, input) pair; '
                        'binary range exhaustive, octal/hex: 128-step odometer '
                        'walks across every boundary and patterned seeds',
                   illegal_characters={str(k): c for k, c in ILLEGAL.items()},
                   scaled_by_exp10=sorted(vectors[0]['exps']) if vectors else [],
                   places_exp10=sorted(vectors[0]['pfar']) if vectors else [],
                   infinite_arguments=seen_inf,
                   unconstrained=['places 11 .. 10^18', 'text that Excel reads as a number '
                                  '(blanks, signs, scientific notation) as the '
                                  'decimal argument'])
    v.traces = len(vectors)
    v.assumptions = ['TLC evaluates Radix.tla definitions correctly',
                     'decimal value strings compared through Python int()']
    return v.finish()
