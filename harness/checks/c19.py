"""C19 -- rounding family: decimal-exact, half away from zero, correct brackets.

Spec: spec/Rounding.tla.  Numbers are exact decimals x = k/10^j (|k| <= 10^6,
j in 0..6).  TLC checks the laws of the statement on the integer div/mod
definitions (bracket, fixed points, nearest, ties away from zero, MOD identity
and sign, CEILING/FLOOR adjacency, EVEN/ODD parity and side, monotonicity) and
exports one vector per visited state of the enumerator machine (consecutive
small k, a grid, exact multiples, exact ties, their +-1 neighbours, -k).

Binding: every vector is executed on the real worksheet functions (the
excellib functions wrapped the way the formula loader wraps them) and a
class-stratified sample through compiled formulas in a workbook.  The
argument is float(k/10^j) (its shortest repr is that decimal) or the int k;
the result must equal the exact rational of the spec within 1e-12 relative.

Statement-level freedom kept as freedom:
 * CEILING/FLOOR variants with a negative number or significance: any of the
   two adjacent multiples (and #NUM! where legacy CEILING/FLOOR reject the
   signs); Excel's documented convention is only counted (NOTE on mismatch).
 * MOD of decimals that are not binary-exact: when the exact remainder is 0
   the float remainder may come out just below the divisor (0.3 mod 0.1);
   accepted and counted -- but only together with an INT(n/m) that is one
   less: INT(n/m) and MOD(n, m) are judged as a pair (ModPairs of the spec),
   so that n = m*INT(n/m) + MOD(n, m) holds for every vector of the M phase,
   through the library and through formulas.
 * "sampled binary floats": only the magnitude laws (multiple, bracket,
   adjacency, fixed points) against the shortest-repr decimal, with tolerance;
   the ROUND family over the whole range of magnitudes 1e-300 .. 1e300 (a
   double has at most 17 significant digits: a large number is a multiple of
   10^-d and must come back unchanged), INT/EVEN/ODD up to 1e9.

The same number reaches a worksheet function in more than one Python form: a
cell constant (int / float), or the result of another worksheet function --
SUM gives a float, SUMPRODUCT over arrays hands on numpy scalars.  Both paths
draw from these forms (OPERANDS, Driver.numbers).
"""
import decimal
import json
import math
import os
import random
from concurrent.futures import ThreadPoolExecutor, as_completed
from fractions import Fraction

from harness import tlc, xl
from harness.evidence import Verdict

PID = 'C19'
TOL = 1e-12
P10 = [10 ** i for i in range(0, 13)]
ACTIONS = ('Small', 'GridEnter', 'GridUp', 'MultUp', 'MultJump', 'MultTop',
           'TieUp', 'TieJump', 'TieTop', 'Nudge', 'Negate')
CLASSES_R = ('fixed', 'tiny', 'tie', 'neartie', 'mult', 'nearmult', 'grid')

# spec name -> (excellib attribute, Excel name, extra trailing arguments)
VARIANTS = [('CEILING', 'ceiling', 'CEILING', ()),
            ('CEILING.MATH', 'ceiling_math', 'CEILING.MATH', ()),
            ('CEILING.MATH1', 'ceiling_math', 'CEILING.MATH', (1,)),
            ('CEILING.PRECISE', 'ceiling_precise', 'CEILING.PRECISE', ()),
            ('FLOOR', 'floor', 'FLOOR', ()),
            ('FLOOR.MATH', 'floor_math', 'FLOOR.MATH', ()),
            ('FLOOR.MATH1', 'floor_math', 'FLOOR.MATH', (1,)),
            ('FLOOR.PRECISE', 'floor_precise', 'FLOOR.PRECISE', ())]
LIB = dict(ROUND='round_', ROUNDUP='roundup', ROUNDDOWN='rounddown',
           TRUNC='trunc', INT='int_', MOD='mod', EVEN='even', ODD='odd')
LIB.update({v[2]: v[1] for v in VARIANTS})


# ---------------------------------------------------------------- real code
def load_functions():
    """The worksheet functions as formulas see them (metadata wrappers on)."""
    from pycel import excellib
    from pycel.lib.function_helpers import apply_meta
    return {xname: apply_meta(getattr(excellib, attr), name_space={})[0]
            for xname, attr in LIB.items()}


def call(fn, *args):
    try:
        return fn(*args)
    except Exception as exc:  # noqa: an escaping exception is a discrepancy
        return exc


def eval_formulas(rows):
    """rows: [(a, b, [formula text with {a} {b}])] -> [[result or Exception]]

    One fresh workbook per batch: A<i>, B<i> hold the arguments, C<i>.. the
    formulas; each formula cell is evaluated through ExcelCompiler.evaluate.
    """
    out = []
    for start in range(0, len(rows), 200):
        batch = rows[start:start + 200]
        cells = {}
        for i, (a, b, fs) in enumerate(batch, 1):
            cells[f'A{i}'] = a
            cells[f'B{i}'] = b
            for c, f in zip('CDEFGHIJKLMN', fs):
                cells[f'{c}{i}'] = '=' + f.replace('{a}', f'A{i}').replace('{b}', f'B{i}')
        model = xl.compile_wb(cells)
        for i, (a, b, fs) in enumerate(batch, 1):
            out.append([call(model.evaluate, f'S!{c}{i}')
                        for c, f in zip('CDEFGHIJKLMN', fs)])
    return out


# ------------------------------------------------------------------ judging
def is_num(g):
    return xl.typeclass(g) == 'num' and math.isfinite(g)


def near(got, want, scale=None):
    """got (int/float) equals the exact value `want` (int/Fraction/float)
    within TOL relative to |want| (or to `scale`); exact zero stays zero."""
    if not is_num(got):
        return False
    wf = float(want)
    if got == wf:
        return True
    return abs(got - wf) <= TOL * (abs(wf) if scale is None else scale)


def dec_value(pair):
    """<<m, e>> of the spec = m * 10^e as an exact int/Fraction."""
    m, e = pair
    return m * P10[e] if e >= 0 else Fraction(m, P10[-e])


def number(k, j):
    """the Python values standing for x = k/10^j: float with that shortest
    repr, and the int itself for integers"""
    return [k, float(k)] if j == 0 else [k / P10[j]]


def computed(x):
    """x as a worksheet function computing it with numpy hands it on
    (SUMPRODUCT over arrays: numpy.sum(numpy.prod(..)))"""
    import numpy as np
    return np.sum(np.prod(np.array(((x, 0), (1, 0))), axis=0))


# how the first argument reaches the function in a formula; {a} {b} are the
# cells of the row (the second one holds a number: its product with 0 is 0)
OPERANDS = ('{a}', '{a}', 'SUM({a})', 'SUMPRODUCT({a}:{b},{1,0})')


def binary_exact(k, j):
    return Fraction(k, P10[j]).denominator in (1, 2, 4, 8, 16, 32, 64)


def plain(a):
    """numpy scalar -> the Python number (for the recorded case)"""
    return a.item() if hasattr(a, 'item') else a


def formula_path(op):
    return 'formula' if op == '{a}' else 'formula ' + op


def lib_path(x):
    return 'lib' if type(x) in (int, float) else 'lib numpy scalar'


def show(x):
    return repr(x) if not isinstance(x, Exception) else f'{type(x).__name__}({x})'


class Judge:
    """Collects discrepancies per (function, path); keeps the smallest ones."""

    def __init__(self, v):
        self.v = v
        self.bad = {}
        self.counts = {}
        self.doc_mismatch = 0
        self.mod_wraps = 0

    def fail(self, fn, path, text, case, size):
        key = (fn, path)
        self.counts[key] = self.counts.get(key, 0) + 1
        lst = self.bad.setdefault(key, [])
        lst.append((size, text, case))
        if len(lst) > 40:
            lst.sort(key=lambda t: t[0])
            del lst[8:]

    def exact(self, fn, path, args, got, want, cls):
        """want: exact int/Fraction"""
        self.v.case((fn, path) + tuple(args))
        if near(got, want):
            return True
        self.fail(fn, path,
                  f'{fn}({", ".join(map(repr, args))}) [{path}, {cls}]: expected '
                  f'{float(want)!r}, got {show(got)}',
                  dict(fn=fn, path=path, args=[plain(a) for a in args], cls=cls,
                       judge='exact', want=[want.numerator, want.denominator]
                       if isinstance(want, Fraction) else [want, 1],
                       got=show(got)),
                  (len(repr(args[0])), abs(args[0])))
        return False

    def member(self, fn, path, args, got, quarters, err_ok, cls, den=4):
        """CEILING/FLOOR family: got is one of the allowed quarters/den (units
        of 1/SigDen), or #NUM! where the relation allows the error"""
        self.v.case((fn, path) + tuple(args))
        if err_ok and isinstance(got, str) and got == '#NUM!':
            return True
        if any(near(got, Fraction(q, den)) for q in quarters):
            return True
        self.fail(fn, path,
                  f'{fn}({", ".join(map(repr, args))}) [{path}, {cls}]: expected '
                  f'{"one of " if len(quarters) > 1 else ""}'
                  f'{sorted(q / den for q in quarters)}'
                  f'{" or #NUM!" if err_ok else ""}, got {show(got)}',
                  dict(fn=fn, path=path, args=[plain(a) for a in args], cls=cls,
                       judge='member', quarters=sorted(quarters), den=den, err_ok=err_ok,
                       got=show(got)),
                  (len(repr(args[0])), abs(args[0])))
        return False

    def mod(self, path, args, got, want, strict, cls):
        """MOD: exact remainder `want`; for operands that are not binary-exact
        a float remainder just below the divisor is accepted when want = 0"""
        n, m = args
        self.v.case(('MOD', path, n, m))
        scale = max(abs(n), abs(m))
        ok = near(got, want, scale=None if strict else scale)
        if not ok and not strict and want == 0 and near(got, m, scale=scale) \
                and abs(got) <= abs(m):
            self.mod_wraps += 1
            ok = True
        if ok and is_num(got) and got != 0 and (got > 0) != (m > 0) \
                and abs(got) > TOL * scale:
            ok = False
        if ok:
            return True
        self.fail('MOD', path,
                  f'MOD({n!r}, {m!r}) [{path}, {cls}]: expected {float(want)!r} '
                  f'(sign of the divisor), got {show(got)}',
                  dict(fn='MOD', path=path, args=[plain(n), plain(m)], cls=cls, judge='mod',
                       want=[Fraction(want).numerator, Fraction(want).denominator],
                       strict=strict, got=show(got)),
                  (len(repr(n)) + len(repr(m)), abs(n) + abs(m)))
        return False

    def identity(self, path, args, q_got, r_got, pairs, j, cls, total=None):
        """n = m*INT(n/m) + MOD(n, m): (INT(n/m), MOD(n, m)) is one of the pairs
        <<q, r>> the spec allows (r at scale 10^j; the caller drops the pair
        with the remainder 'wrapped' to the divisor for binary-exact operands);
        `total` = the value of the formula m*INT(n/m)+MOD(n,m) where it was
        evaluated as one formula"""
        n, m = args
        fn = 'm*INT(n/m)+MOD(n,m)'
        self.v.case((fn, path, n, m))
        scale = max(abs(n), abs(m))
        ok = is_num(q_got) and is_num(r_got) and (total is None or is_num(total))
        if ok:
            ok = any(q_got == q and near(r_got, Fraction(r, P10[j]), scale=scale)
                     for q, r in pairs)
            if total is None:
                total = m * q_got + r_got
            ok = ok and near(total, n, scale=scale)
        if ok:
            return True
        self.fail(fn, path,
                  f'n = m*INT(n/m) + MOD(n, m) fails for n={n!r}, m={m!r} [{path}, {cls}]: '
                  f'INT(n/m) = {show(q_got)}, MOD(n, m) = {show(r_got)}, together '
                  f'{show(total)}; allowed (INT, MOD) pairs '
                  f'{[(q, float(Fraction(r, P10[j]))) for q, r in pairs]}',
                  dict(fn=fn, path=path, args=[plain(n), plain(m)], cls=cls, judge='identity',
                       pairs=[list(pr) for pr in pairs], j=j,
                       got=[show(q_got), show(r_got)]),
                  (len(repr(n)) + len(repr(m)), abs(n) + abs(m)))
        return False

    def law(self, fn, path, args, ok, text, cls='float'):
        self.v.case((fn, path) + tuple(args))
        if not ok:
            self.fail(fn, path, f'{fn}({", ".join(map(repr, args))}) [{path}, {cls}]: {text}',
                      dict(fn=fn, path=path, args=[plain(a) for a in args], cls=cls, judge='law',
                           law=text), (len(repr(args[0])), abs(args[0])))
        return ok

    def flush(self):
        """smallest discrepancies of each (function, path) become violations"""
        for key in sorted(self.bad):
            lst = sorted(self.bad[key], key=lambda t: t[0])
            for size, text, case in lst[:3]:
                self.v.violation(text, case)
        return {f'{fn} [{path}]': n for (fn, path), n in sorted(self.counts.items())}


# --------------------------------------------------------------------- TLC
def tlc_runs(tier, rnd):
    """quick: the committed MC configuration in one run.
    thorough: the Big configuration partitioned by (phase, scale) into 21
    runs executed a few at a time, with seed-dependent grid offsets."""
    if tier == 'quick':
        yield 'Rounding_mc', lambda: tlc.run(
            'MC_Rounding', 'Rounding_mc.cfg', workers=4, coverage=True, timeout=600)
        yield 'Rounding_dec', lambda: tlc.run(
            'MC_Rounding', 'Rounding_dec.cfg', workers=4, coverage=True, timeout=600)
        yield 'Rounding_mil', lambda: tlc.run(
            'MC_Rounding', 'Rounding_mil.cfg', workers=4, coverage=True, timeout=600)
        return
    d = tlc.new_scratch('rounding')
    offs = sorted({0, 1237, rnd.randrange(1, 9973), rnd.randrange(1, 9973)})
    big = open(os.path.join(tlc.SPEC, 'Rounding_big.cfg')).read()
    jobs = []
    for ph in 'RMC':
        for j in range(7):
            name = f'MC_RoundingT_{ph}{j}'
            with open(os.path.join(d, name + '.tla'), 'w') as f:
                f.write(f'---- MODULE {name} ----\nEXTENDS MC_Rounding\n'
                        f'TPhases == {{"{ph}"}}\nTJs == {{{j}}}\n'
                        f'TGridOffsets == {{{", ".join(map(str, offs))}}}\n====\n')
            with open(os.path.join(d, name + '.cfg'), 'w') as f:
                f.write(big.replace('MCPhases', 'TPhases').replace('MCJs', 'TJs')
                        .replace('BigGridOffsets', 'TGridOffsets'))
            jobs.append((f'Rounding_big[{ph},j={j}]', name))
    # decimal significances (twentieths) for the CEILING/FLOOR family
    for j in range(7):
        name = f'MC_RoundingT_D{j}'
        with open(os.path.join(d, name + '.tla'), 'w') as f:
            f.write(f'---- MODULE {name} ----\nEXTENDS MC_Rounding\n'
                    f'TPhases == {{"C"}}\nTJs == {{{j}}}\n'
                    f'TGridOffsets == {{{", ".join(map(str, offs))}}}\n====\n')
        with open(os.path.join(d, name + '.cfg'), 'w') as f:
            f.write(big.replace('MCPhases', 'TPhases').replace('MCJs', 'TJs')
                    .replace('BigGridOffsets', 'TGridOffsets')
                    .replace('Sigs <- MCSigs', 'Sigs <- DecSigs').replace('SigDen = 4', 'SigDen = 20'))
        jobs.append((f'Rounding_big[C decimal significances,j={j}]', name))
    pool = ThreadPoolExecutor(max_workers=5)
    futs = {pool.submit(tlc.run, name, os.path.join(d, name + '.cfg'),
                        spec_dir=d, workers=3, coverage=True, timeout=1500,
                        library=tlc.SPEC, heap='3g'): label
            for label, name in jobs}
    # significances in thousandths (0.07, 0.57, 8.3 ...): the committed configuration
    futs[pool.submit(tlc.run, 'MC_Rounding', 'Rounding_mil.cfg', workers=3, coverage=True,
                     timeout=1500)] = 'Rounding_mil'
    for fut in as_completed(futs):
        yield futs[fut], fut.result
    pool.shutdown()


# ------------------------------------------------------------------- vectors
class Driver:
    def __init__(self, v, judge, fns, rnd, quota):
        self.v, self.J, self.F, self.rnd = v, judge, fns, rnd
        self.one_arg_seen = set()
        self.cls_count = {}
        self.quota = quota            # formula rows per (phase, class)
        self.reservoir = {}           # (phase, class) -> [n seen, [vectors]]

    # reservoir sampling: a class-stratified sample for the formula path
    def keep(self, vec):
        key = (vec['ph'], vec['cls'])
        q = self.quota.get(key, self.quota.get((vec['ph'], '*'), 0))
        slot = self.reservoir.setdefault(key, [0, []])
        slot[0] += 1
        if len(slot[1]) < q:
            slot[1].append(vec)
        else:
            i = self.rnd.randrange(slot[0])
            if i < q:
                slot[1][i] = vec

    def numbers(self, k, j):
        """Python forms of x = k/10^j for the library path; one vector in
        four also as the numpy scalar a computing function hands on"""
        xs = number(k, j)
        if self.rnd.random() < 0.25:
            xs = xs + [computed(xs[-1])]
        return xs

    def operand(self):
        return self.rnd.choice(OPERANDS)

    def vector(self, vec):
        key = (vec['ph'], vec['cls'])
        self.cls_count[key] = self.cls_count.get(key, 0) + 1
        self.keep(vec)
        getattr(self, 'lib_' + vec['ph'])(vec)

    # -- ROUND / ROUNDUP / ROUNDDOWN / TRUNC (+ INT / EVEN / ODD) ----------
    def expected_R(self, vec):
        return (('ROUND', dec_value(vec['round'])), ('ROUNDUP', dec_value(vec['up'])),
                ('ROUNDDOWN', dec_value(vec['down'])), ('TRUNC', dec_value(vec['down'])))

    def lib_R(self, vec):
        k, j, d, cls = vec['k'], vec['j'], vec['d'], vec['cls']
        exp = self.expected_R(vec)
        for x in self.numbers(k, j):
            for fn, want in exp:
                self.J.exact(fn, lib_path(x), (x, d), call(self.F[fn], x, d), want, cls)
            if d == 0:      # num_digits omitted
                self.J.exact('ROUND', lib_path(x), (x,), call(self.F['ROUND'], x), exp[0][1], cls)
                self.J.exact('TRUNC', lib_path(x), (x,), call(self.F['TRUNC'], x), exp[3][1], cls)
        if (k, j) not in self.one_arg_seen:
            self.one_arg_seen.add((k, j))
            for x in self.numbers(k, j):
                for fn in ('INT', 'EVEN', 'ODD'):
                    self.J.exact(fn, lib_path(x), (x,), call(self.F[fn], x),
                                 vec[fn.lower()], cls)

    def formulas_R(self, vecs):
        fs = ['ROUND({x},{b})', 'ROUNDUP({x},{b})', 'ROUNDDOWN({x},{b})',
              'TRUNC({x},{b})', 'INT({x})', 'EVEN({x})', 'ODD({x})']
        rows, ops = [], []
        for v in vecs:
            ops.append(self.operand())
            rows.append((number(v['k'], v['j'])[-1] if self.rnd.random() < 0.5
                         else number(v['k'], v['j'])[0], v['d'],
                         [f.replace('{x}', ops[-1]) for f in fs]))
        for vec, op, (x, d, _), res in zip(vecs, ops, rows, eval_formulas(rows)):
            exp = self.expected_R(vec)
            path = formula_path(op)
            for (fn, want), got in zip(exp, res):
                self.J.exact(fn, path, (x, d), got, want, vec['cls'])
            for fn, got in zip(('INT', 'EVEN', 'ODD'), res[4:]):
                self.J.exact(fn, path, (x,), got, vec[fn.lower()], vec['cls'])

    # -- MOD ----------------------------------------------------------------
    @staticmethod
    def pairs(vec, strict):
        """the allowed (INT(n/m), MOD(n, m)) pairs; binary-exact operands have
        an exact quotient: only the exact pair"""
        exact = [vec['q'], vec['mod']]
        return [pr for pr in vec['pairs'] if not strict or list(pr) == exact]

    def lib_M(self, vec):
        k, j, p, cls = vec['k'], vec['j'], vec['m'], vec['cls']
        strict = binary_exact(k, j) and binary_exact(p, j)
        want = Fraction(vec['mod'], P10[j])
        for n in self.numbers(k, j):
            for m in number(p, j):
                r = call(self.F['MOD'], n, m)
                self.J.mod(lib_path(n), (n, m), r, want, strict, cls)
                # the quotient as the formula INT(n/m) computes it
                self.J.identity(lib_path(n), (n, m), call(self.F['INT'], n / m), r,
                                self.pairs(vec, strict), j, cls)

    def formulas_M(self, vecs):
        rows, ops = [], []
        for v in vecs:
            strict = binary_exact(v['k'], v['j']) and binary_exact(v['m'], v['j'])
            op = self.operand()
            ops.append(op)
            # MOD, the identity n = m*INT(n/m) + MOD(n, m), and INT(n/m)
            fs = ['MOD({x},{b})', '{b}*INT({x}/{b})+MOD({x},{b})', 'INT({x}/{b})']
            rows.append((number(v['k'], v['j'])[0], number(v['m'], v['j'])[0],
                         [f.replace('{x}', op) for f in fs], strict))
        results = eval_formulas([r[:3] for r in rows])
        for vec, op, (n, m, fs, strict), res in zip(vecs, ops, rows, results):
            self.J.mod(formula_path(op), (n, m), res[0],
                       Fraction(vec['mod'], P10[vec['j']]), strict, vec['cls'])
            self.J.identity(formula_path(op), (n, m), res[2], res[0],
                            self.pairs(vec, strict), vec['j'], vec['cls'], total=res[1])
            if strict:
                self.J.exact('m*INT(n/m)+MOD(n,m)', 'formula', (n, m), res[1],
                             Fraction(vec['k'], P10[vec['j']]), vec['cls'])
                self.J.exact('INT(n/m)', 'formula', (n, m), res[2], vec['q'], vec['cls'])

    # -- CEILING / FLOOR family ------------------------------------------------
    def lib_C(self, vec):
        k, j, s4, cls = vec['k'], vec['j'], vec['s4'], vec['cls']
        den = vec.get('den', 4)
        sig = s4 // den if s4 % den == 0 else s4 / den
        for x in self.numbers(k, j):
            for i, (name, attr, xname, extra) in enumerate(VARIANTS):
                got = call(self.F[xname], x, sig, *extra)
                self.J.member(name, lib_path(x), (x, sig) + extra, got,
                              vec['allow'][i], vec['err'][i], cls, den)
                self.doc_check(vec, i, got)
                if sig == 1 and not extra and name not in ('CEILING', 'FLOOR'):
                    # significance omitted
                    self.J.member(name, lib_path(x), (x,), call(self.F[xname], x),
                                  vec['allow'][i], vec['err'][i], cls, den)

    def doc_check(self, vec, i, got):
        tag, val = vec['doc'][i]
        same = (got == val) if tag == 'E' else near(got, Fraction(val, vec.get('den', 4)))
        if not same:
            self.J.doc_mismatch += 1
            if self.J.doc_mismatch <= 3:
                self.v.note(f'{VARIANTS[i][0]} x={vec["k"]}/10^{vec["j"]} sig={vec["s4"]}/{vec.get("den", 4)}: '
                            f'{show(got)} differs from Excel\'s documented '
                            f'{val if tag == "E" else float(Fraction(val, vec.get("den", 4)))!r} '
                            '(allowed by the statement-level relation, not judged)')

    def formulas_C(self, vecs):
        rows, ops = [], []
        for v in vecs:
            s4, den = v['s4'], v.get('den', 4)
            op = self.operand()
            ops.append(op)
            fs = [f'{xname}({op},{{b}}{"".join("," + str(e) for e in extra)})'
                  for name, attr, xname, extra in VARIANTS]
            rows.append((number(v['k'], v['j'])[0],
                         s4 // den if s4 % den == 0 else s4 / den, fs))
        for vec, op, (x, sig, _), res in zip(vecs, ops, rows, eval_formulas(rows)):
            for i, got in enumerate(res):
                self.J.member(VARIANTS[i][0], formula_path(op), (x, sig) + VARIANTS[i][3],
                              got, vec['allow'][i], vec['err'][i], vec['cls'], vec.get('den', 4))
                self.doc_check(vec, i, got)

    def formulas(self):
        n = 0
        for ph in 'RMC':
            vecs = [vec for (p, c), (_, lst) in sorted(self.reservoir.items())
                    if p == ph for vec in lst]
            getattr(self, 'formulas_' + ph)(vecs)
            n += len(vecs)
        return n


# ------------------------------------------------------- sampled binary floats
def float_samples(rnd, n):
    for i in range(n):
        kind = i % 8
        if kind == 0:
            yield rnd.uniform(-1e6, 1e6)
        elif kind == 1:      # decimal * power of ten: 0.29 * 100 = 28.999999999999996
            yield rnd.randrange(-99999, 99999) / P10[rnd.randrange(1, 6)] * P10[rnd.randrange(1, 4)]
        elif kind == 2:      # sums of decimals: 0.1 + 0.2
            yield (rnd.randrange(-9999, 9999) / P10[rnd.randrange(1, 5)]
                   + rnd.randrange(-9999, 9999) / P10[rnd.randrange(1, 5)])
        elif kind == 3:      # random mantissa, magnitudes 2^-20 .. 2^30
            yield math.ldexp(rnd.random() * rnd.choice((-1, 1)), rnd.randrange(-20, 31))
        elif kind == 4:      # thirds, sevenths
            yield rnd.randrange(-10 ** 6, 10 ** 6) / rnd.choice((3, 7, 9, 11))
        elif kind == 5:      # one ulp around a tie or a multiple
            base = (2 * rnd.randrange(-5000, 5000) + rnd.choice((0, 1))) / 2 / P10[rnd.randrange(0, 4)]
            yield math.nextafter(base, rnd.choice((-math.inf, math.inf)))
        elif kind == 6:      # the whole range of a double: random mantissa, 2^-996 .. 2^996
            yield math.ldexp(rnd.uniform(0.5, 1) * rnd.choice((-1, 1)), rnd.randrange(-995, 997))
        else:                # few significant digits at any magnitude: 1E+22, -2.5E-40, 123E+200
            yield float(f'{rnd.randrange(-999, 1000)}E{rnd.randrange(-300, 298)}')


def float_laws(J, F, rnd, n):
    """Magnitude laws only, judged against the shortest decimal rendering."""
    for x in float_samples(rnd, n):
        if not 1e-300 <= abs(x) <= 1e300:     # no subnormals, no overflow of a result
            continue
        d = rnd.randrange(-6, 7)
        D = Fraction(decimal.Decimal(repr(x)))        # the shortest decimal rendering, exact
        unit = Fraction(10) ** -d
        is_mult = (D / unit).denominator == 1
        r, up, dn, tr = (call(F[fn], x, d) for fn in ('ROUND', 'ROUNDUP', 'ROUNDDOWN', 'TRUNC'))
        args = (x, d)
        if not J.law('ROUND*', 'lib', args, all(map(is_num, (r, up, dn, tr))),
                     f'not all numbers: {show(r)}, {show(up)}, {show(dn)}, {show(tr)}'):
            continue
        u = float(unit)
        slack = TOL * max(abs(x), u)
        for fn, g in (('ROUND', r), ('ROUNDUP', up), ('ROUNDDOWN', dn)):
            q = Fraction(decimal.Decimal(repr(float(g)))) / unit
            off = abs(q - round(q))
            J.law(fn, 'lib', args, off <= Fraction(TOL) * max(1, abs(q)),
                  f'{g!r} is not a multiple of 10^{-d}')
        J.law('TRUNC', 'lib', args, tr == dn, f'TRUNC {tr!r} differs from ROUNDDOWN {dn!r}')
        J.law('ROUNDDOWN', 'lib', args, abs(dn) <= abs(x) + slack and (dn == 0 or (dn > 0) == (x > 0)),
              f'|ROUNDDOWN| = |{dn!r}| exceeds |x| or has the wrong sign')
        J.law('ROUNDUP', 'lib', args, abs(up) >= abs(x) - slack and (up > 0) == (x > 0),
              f'|ROUNDUP| = |{up!r}| is below |x| or has the wrong sign')
        J.law('ROUNDUP', 'lib', args, abs(up) - abs(dn) <= u + 2 * slack,
              f'ROUNDUP {up!r} and ROUNDDOWN {dn!r} are not adjacent multiples')
        J.law('ROUND', 'lib', args, abs(r - dn) <= slack or abs(r - up) <= slack,
              f'ROUND {r!r} is neither ROUNDDOWN {dn!r} nor ROUNDUP {up!r}')
        if is_mult:
            J.law('ROUND*', 'lib', args, all(abs(g - x) <= slack for g in (r, up, dn)),
                  f'exact multiple not fixed: {r!r}, {up!r}, {dn!r}')
        # INT is floor; EVEN/ODD parity and side.  Beyond 2^53 every double is
        # an even integer ("the next odd integer" is not a double), and a tiny
        # x halves to a subnormal (EVEN(5e-324): x/2 = 0): 1e-9 .. 1e9 only
        if not 1e-9 <= abs(x) <= 1e9:
            continue
        X = Fraction(x)
        i, ev, od = (call(F[fn], x) for fn in ('INT', 'EVEN', 'ODD'))
        J.law('INT', 'lib', (x,), is_num(i) and i == math.floor(X), f'{show(i)} is not floor')
        J.law('EVEN', 'lib', (x,), is_num(ev) and ev == int(ev) and int(ev) % 2 == 0
              and abs(ev) >= abs(X) > abs(ev) - 2 and (ev > 0) == (x > 0),
              f'{show(ev)} is not the next even integer away from zero')
        J.law('ODD', 'lib', (x,), is_num(od) and od == int(od) and int(od) % 2 == 1
              and abs(od) >= abs(X) and (abs(od) == 1 or abs(X) > abs(od) - 2)
              and (od > 0) == (x > 0),
              f'{show(od)} is not the next odd integer away from zero')


# ----------------------------------------------------------------------- run
def run(tier, seed):
    v = Verdict(PID, tier, seed)
    rnd = random.Random(seed)
    F = load_functions()
    J = Judge(v)
    quick = tier == 'quick'
    quota = {('R', c): (80 if quick else 700) for c in CLASSES_R}
    quota.update({('R', 'tie'): 160 if quick else 1400,
                  ('M', '*'): 70 if quick else 600,
                  ('C', '*'): 50 if quick else 400})
    drv = Driver(v, J, F, rnd, quota)

    coverage = {a: 0 for a in ACTIONS}
    nvec = 0
    for label, result in tlc_runs(tier, rnd):
        res = result()
        if not res.ok:
            raise tlc.MachineryFailure(
                f'Rounding model ({label}) violates {res.violated}:\n' + res.stdout[-2000:])
        v.add_tlc(res, label)
        if len(res.json) < res.distinct:
            raise tlc.MachineryFailure(
                f'export incomplete ({label}): {len(res.json)} vectors for '
                f'{res.distinct} states')
        for a in ACTIONS:
            coverage[a] += res.coverage.get(a, (0, 0))[1]
        for vec in res.json:
            if len(v.samples) < 6 and vec['cls'] in ('tie', 'neartie', 'nearmult') \
                    and rnd.random() < 0.02:
                v.sample(vec)
            drv.vector(vec)
        nvec += len(res.json)
        res.json, res.stdout = [], ''
    never = [a for a, n in coverage.items() if n == 0]
    if never:
        raise tlc.MachineryFailure(f'vacuous: actions never taken: {never}')
    need = [('R', c) for c in CLASSES_R] + [('M', 'mult'), ('M', 'nearmult'),
                                             ('C', 'mult'), ('C', 'nearmult')]
    missing = [c for c in need if not drv.cls_count.get(c)]
    if missing:
        raise tlc.MachineryFailure(f'vacuous: no vector of class {missing}')

    nform = drv.formulas()
    nfloat = 3000 if quick else 60000
    float_laws(J, F, rnd, nfloat)

    by_fn = J.flush()
    v.traces = nvec
    v.extra.update(
        exhaustive=False,
        bounds=dict(Kmax=10 ** 6, j='0..6', digits='-6..6',
                    significances=[-5, -2, -1, -0.5, -0.25, 0.25, 0.5, 1, 2, 5],
                    config='Rounding_mc.cfg' if quick else
                    'Rounding_big.cfg partitioned by (phase, j), seed-dependent grid offsets'),
        vectors=nvec, vectors_by_class={f'{p}:{c}': n for (p, c), n in sorted(drv.cls_count.items())},
        formula_rows=nform, sampled_floats=nfloat, float_magnitudes='ROUND family 1e-300..1e300, INT/EVEN/ODD 1e-9..1e9',
        operand_forms=list(OPERANDS) + ['library path: int, float, numpy scalar (1 vector in 4)'],
        coverage_actions=coverage,
        discrepancies_by_function=by_fn,
        mod_float_wraps_accepted=J.mod_wraps,
        ceiling_floor_documented_convention_mismatches=J.doc_mismatch,
        rule='one case = (function, path, arguments); vectors are the states of the '
             'TLC enumerator (small k, grid, exact multiples, exact ties, +-1 '
             'neighbours, mirror images) for every (j, digits) / divisor / '
             'significance; results compared with the exact rational within 1e-12 '
             'relative; (INT(n/m), MOD(n, m)) judged as a pair bound by '
             'n = m*INT(n/m) + MOD(n, m); CEILING/FLOOR with a negative argument: '
             'either neighbour; floats: magnitude laws only')
    v.assumptions = ['TLC evaluates Rounding.tla definitions correctly',
                     'float(k/10^j) has the shortest repr k/10^j for |k| <= 10^6, j <= 6',
                     'CEILING/FLOOR sign conventions for negative arguments are not '
                     'fixed by the statement (not judged)']
    return v.finish()


def replay(path):
    """Re-execute one recorded discrepancy (library call and formula)."""
    with open(path) as f:
        rec = json.load(f)
    case = rec['case']
    F = load_functions()
    fn, args = case['fn'], case['args']
    base = {'CEILING.MATH1': 'CEILING.MATH', 'FLOOR.MATH1': 'FLOOR.MATH'}.get(fn, fn)
    print(rec['desc'])
    if case.get('judge') == 'identity':
        n, m = args
        scale = max(abs(n), abs(m))
        ok = True
        for how, (q, r) in (
                ('library', (call(F['INT'], n / m), call(F['MOD'], n, m))),
                ('formula', tuple(call(xl.evalf, f, dict(A1=n, B1=m))
                                  for f in ('=INT(A1/B1)', '=MOD(A1,B1)')))):
            print(f'  now ({how}): INT(n/m) = {show(q)}, MOD(n, m) = {show(r)}')
            ok &= is_num(q) and is_num(r) and near(m * q + r, n, scale=scale) and any(
                q == pq and near(r, Fraction(pr, P10[case['j']]), scale=scale)
                for pq, pr in case['pairs'])
        if ok:
            print(f'{PID}: replay passes now')
            return 0
        print(f'VIOLATION property={PID} replay={path}')
        return 1
    if base not in F:
        print('  (composite formula or law; see the description)')
        return 1
    path = case.get('path', '')
    lib = call(F[base], *([computed(args[0])] + args[1:] if 'numpy' in path else args))
    cells = {f'{c}1': a for c, a in zip('ABC', args)}
    cells.setdefault('B1', 1)
    first = path[len('formula '):].replace('{a}', 'A1').replace('{b}', 'B1') \
        if path.startswith('formula ') else 'A1'
    form = call(xl.evalf, f'={base}({",".join([first] + [c + "1" for c, _ in zip("BC", args[1:])])})', cells)
    print(f'  now: library {show(lib)}, formula {show(form)}')
    ok = True
    for got in (lib, form):
        if case['judge'] == 'exact':
            ok &= near(got, Fraction(*case['want']))
        elif case['judge'] == 'member':
            ok &= (case['err_ok'] and got == '#NUM!') or any(
                near(got, Fraction(q, case.get('den', 4))) for q in case['quarters'])
        elif case['judge'] == 'mod':
            want = Fraction(*case['want'])
            scale = max(abs(args[0]), abs(args[1]))
            ok &= near(got, want, scale=None if case['strict'] else scale) or (
                not case['strict'] and want == 0 and near(got, args[1], scale=scale))
        else:
            ok = False
    if ok:
        print(f'{PID}: replay passes now')
        return 0
    print(f'VIOLATION property={PID} replay={path}')
    return 1
