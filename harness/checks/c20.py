"""C20 -- text functions: slicing partitions, search is first-match, TEXT is
decimal-exact.

Spec: spec/Text.tla.  Texts are sequences of symbol codes built by AppendChar
(typed text) or are the Excel rendering of a number k/10^j; TEXT() formats are
built by AppendFmt along the grammar  #*0* [one ',' between placeholders]
[. 0* #*] [%].  TLC checks the laws of the statement on the definitions
(SplitLaw, RightLaw, MidLaw, ReplaceLaw, FindLaw, SubstLaw, ConcatLaw, TrimLaw,
IdemLaw, ExactLaw, RenderLaw, TextRoundLaw, TextShapeLaw) and exports one
vector per state with the definitions' results for every position / count in
-1..10.

Binding: every exported result is compared with the real function of
pycel.lib.text, called (a) as the wrapped library function (the same
apply_meta() wrapping the formula loader applies) and (b) through compiled
formulas in a workbook (=LEFT(A1,B1)&MID(A1,B1+1,LEN(A1)), =REPLACE(..) next to
=LEFT(..)&D1&MID(..), =CONCATENATE(A1,D1) next to =A1&D1, ...).  A vector whose
spec value is <<"U">> (statement silent: MID/FIND start < 1, SUBSTITUTE with an
empty or self-overlapping old text or an instance < 1, TEXT of a negative
number that rounds to zero, separators inside zero padding) is executed but
not judged.
"""
import concurrent.futures
import json
import os
import random
from fractions import Fraction

from harness import tlc, xl
from harness.evidence import Verdict

PID = 'C20'

# symbol codes of spec/Text.tla
CH = {1: 'a', 2: 'b', 3: ' ', 4: 'A', 5: 'é', 6: 'B', 7: 'É',
      8: '日', 20: '.', 21: '-', 22: ',', 23: '%', 24: '#'}
CH.update({10 + d: str(d) for d in range(10)})

UNJUDGED = object()

LAWS = ['SplitLaw', 'RightLaw', 'MidLaw', 'ReplaceLaw', 'FindLaw', 'SubstLaw',
        'ConcatLaw', 'TrimLaw', 'IdemLaw', 'ExactLaw', 'RenderLaw',
        'TextRoundLaw', 'TextShapeLaw']


# --------------------------------------------------------------------------
# decoding of exported values

def seq(x):
    """a TLA+ sequence as exported by ToJson: list, or {} / {"1": ..}"""
    if isinstance(x, dict):
        return [x[str(i)] for i in range(1, len(x) + 1)]
    return x


def txt(codes):
    return ''.join(CH[c] for c in seq(codes))


def val(v):
    """tagged spec value -> the Python value pycel must return"""
    v = seq(v)
    tag = v[0]
    if tag == 'S':
        return txt(v[1])
    if tag == 'N':
        return int(v[1])
    if tag == 'B':
        return bool(v[1])
    if tag == 'E':
        return v[1]
    if tag == 'U':
        return UNJUDGED
    raise tlc.MachineryFailure(f'unknown value tag in export: {v!r}')


def shown(x):
    return '<unjudged>' if x is UNJUDGED else x


class _Count:
    """stand-in for Verdict.distinct: every judged call of a run is a distinct
    (function, arguments) pair by construction (distinct states x distinct
    argument tuples), so only the number is kept."""

    def __init__(self):
        self.n = 0

    def add(self, _key):
        self.n += 1

    def __len__(self):
        return self.n


# --------------------------------------------------------------------------
# TLC jobs

def _tla_seq(codes):
    return '<<' + ', '.join(str(c) for c in codes) + '>>'


def _tla_set(items):
    return '{' + ', '.join(items) + '}'


def job_module(name, *, seeds, maxlen, nums, fmtmax):
    """A wrapper module over MC_Text with the constants of one TLC job."""
    d = tlc.new_scratch('text')
    with open(os.path.join(d, name + '.tla'), 'w') as f:
        f.write(f'''---- MODULE {name} ----
EXTENDS MC_Text
TSeeds  == {_tla_set(_tla_seq(s) for s in seeds)}
TMaxLen == {maxlen}
TNums   == {_tla_set(f'<<{k}, {j}>>' for k, j in nums)}
TFmtMax == {fmtmax}
====
''')
    return name, d


def run_job(label, module, spec_dir, cfg, workers, timeout=1500):
    if spec_dir == tlc.SPEC:
        res = tlc.run(module, cfg, spec_dir=spec_dir, workers=workers,
                      timeout=timeout)
    else:
        res = tlc.run(module, cfg, spec_dir=spec_dir, workers=workers,
                      timeout=timeout, library=tlc.SPEC)
    if not res.ok:
        raise tlc.MachineryFailure(
            f'Text model ({label}) violates {res.violated}:\n' + res.stdout[-3000:])
    vectors = res.json
    res.stdout = ''
    res.json = []
    if len(vectors) < res.distinct:
        raise tlc.MachineryFailure(
            f'export incomplete ({label}): {len(vectors)} vectors for '
            f'{res.distinct} states')
    return label, res, vectors


def tie_numbers(rnd, n):
    """numbers k/10^j around rounding ties: last digit 5 (and its neighbours)"""
    out = set()
    while len(out) < n:
        j = rnd.randrange(0, 6)
        head = rnd.randrange(0, 10 ** rnd.randrange(1, 5))
        k = head * 10 + rnd.choice((5, 5, 5, 4, 6, 0, 9))
        if k % 10 == 0 and j > 0:
            continue                       # keep k/10^j in lowest terms
        if k == 0:
            continue
        out.add((k * rnd.choice((1, 1, -1)), j))
    return sorted(out)


# --------------------------------------------------------------------------

class Driver:
    """drives the real functions with the exported vectors"""

    FUNCS = ('left right mid replace find substitute trim upper lower exact '
             'concatenate concat len_ text').split()

    def __init__(self, v, rnd, tier):
        from pycel.lib import text as T
        from pycel.lib.function_helpers import apply_meta
        self.v, self.rnd, self.tier = v, rnd, tier
        self.W = {n: apply_meta(getattr(T, n), name_space={})[0]
                  for n in self.FUNCS}
        self.unjudged = 0
        self.unjudged_raised = 0
        self.len_whole_float = 0
        self.per_fn = {}
        self.rows = []          # pending formula rows
        self.text_rows = []
        self.formula_cells = 0
        self.seen_last_char = set()
        self.seen_last_fmt = set()
        self.slice_states = 0
        self.text_states = 0
        self.prefix_states = 0
        self.text_unjudged = 0
        self.text_samples = 0
        self.maxlen_seen = 0

    # -- one library call ---------------------------------------------------
    def lib(self, fn, args, want):
        try:
            got = self.W[fn](*args)
        except Exception as exc:            # noqa
            got = exc
        self.judge(fn, got, want, lambda: dict(
            via='library', fn=fn, args=list(args), want=shown(want)))

    def judge(self, fn, got, want, case):
        v = self.v
        if want is UNJUDGED or (isinstance(want, list) and UNJUDGED in want):
            self.unjudged += 1
            if isinstance(got, Exception):
                self.unjudged_raised += 1
            return
        v.evaluations += 1
        v.distinct.n += 1
        self.per_fn[fn] = self.per_fn.get(fn, 0) + 1
        if type(got) is type(want) and got == want:
            ok = True                       # same Python type, same value
        elif isinstance(want, list):        # a set of allowed answers
            ok = not isinstance(got, Exception) and any(
                xl.same_value(got, w) for w in want)
        else:
            ok = not isinstance(got, Exception) and xl.same_value(got, want)
        if not ok:
            c = case()
            if isinstance(want, list):
                c['want'] = list(want)
            c['got'] = repr(got)
            v.violation(f"{fn.upper().rstrip('_')}{tuple(c.get('args', ()))!r}"
                        f" via {c['via']}"
                        + (f" {c['formula']}" if 'formula' in c else '')
                        + f": expected {c['want']!r}, got {got!r}", c)

    # -- slicing vectors ----------------------------------------------------
    @staticmethod
    def inputs(vec):
        """Python values standing for the text under test"""
        st = txt(vec['s'])
        src = seq(vec['src'])
        if src[0] == 'T':
            return st, [st]
        k, j = int(src[1]), int(src[2])
        if j == 0:
            return st, [k, float(k)]
        x = float(Fraction(k, 10 ** j))
        return st, [x]

    def slice_vector(self, vec):
        rnd = self.rnd
        st, xs = self.inputs(vec)
        self.slice_states += 1
        src = seq(vec['src'])
        if src[0] == 'T':
            self.maxlen_seen = max(self.maxlen_seen, len(st))
            if st:
                self.seen_last_char.add(st[-1])
        if len(st) >= 3 and self.rnd.random() < 0.2:
            self.v.sample(dict(s=st, src=src, left_2=shown(val(vec['left']['2'])),
                               right_2=shown(val(vec['right']['2'])),
                               trim=shown(val(vec['trim']))), limit=4)
        left = {int(n): val(r) for n, r in vec['left'].items()}
        right = {int(n): val(r) for n, r in vec['right'].items()}
        mid = {(int(p), int(c)): val(r) for p, row in vec['mid'].items()
               for c, r in row.items()}
        repl = {}
        for rec in vec['replace']:
            t = txt(rec['t'])
            for n, row in rec['r'].items():
                for k, r in row.items():
                    repl[(t, int(n), int(k))] = val(r)
        find = {}
        for rec in vec['find']:
            f = txt(rec['f'])
            for s0, allowed in rec['r'].items():
                find[(f, int(s0))] = [val(a) for a in allowed]
        subst = [(txt(r['o']), txt(r['t']), val(r['all']),
                  {int(i): val(x) for i, x in r['nth'].items()})
                 for r in vec['subst']]
        concat = [(txt(r['t']), val(r['r']), val(r['r3'])) for r in vec['concat']]
        exact = [(txt(r['t']), val(r['r'])) for r in vec['exact']]
        want_len = val(vec['len'])
        trim, upper, lower = val(vec['trim']), val(vec['upper']), val(vec['lower'])

        for x in xs:
            whole_float = isinstance(x, float) and x.is_integer()
            if whole_float:
                # LEN(3.0) = 3 is pinned by the repository's own test table
                # (tests/lib/test_text.py test_len_); not judged.
                self.len_whole_float += 1
            else:
                self.lib('len_', (x,), want_len)
            for n, w in left.items():
                self.lib('left', (x, n), w)
            for n, w in right.items():
                self.lib('right', (x, n), w)
            self.lib('left', (x,), left[1])        # num_chars defaults to 1
            self.lib('right', (x,), right[1])
            for (p, c), w in mid.items():
                self.lib('mid', (x, p, c), w)
            for (t, n, k), w in repl.items():
                self.lib('replace', (x, n, k, t), w)
                if t == '3' and 1 <= n <= 2 and 0 <= k <= 1:
                    self.lib('replace', (x, n, k, 3.0), w)
            for (f, s0), w in find.items():
                self.lib('find', (f, x, s0), w)
                if s0 == 1:
                    self.lib('find', (f, x), w)    # start defaults to 1
            for o, t, w_all, nth in subst:
                self.lib('substitute', (x, o, t), w_all)
                for i, w in nth.items():
                    self.lib('substitute', (x, o, t, i), w)
                if t == '3':
                    self.lib('substitute', (x, o, 3.0), w_all)
            for t, w, w3 in concat:
                self.lib('concatenate', (x, t), w)
                self.lib('concat', (x, t), w)
                self.lib('concatenate', (x, t, x), w3)
                if t == '3':
                    self.lib('concatenate', (x, 3.0), w)
                    self.lib('concatenate', (x, 3), w)
            for t, w in exact:
                self.lib('exact', (x, t), w)
                self.lib('exact', (t, x), w)
            self.lib('trim', (x,), trim)
            self.lib('upper', (x,), upper)
            self.lib('lower', (x,), lower)
            # idempotence on the real code
            for fn, w in (('trim', trim), ('upper', upper), ('lower', lower)):
                self.lib(fn, (w,), w)

        # rows for the workbook run
        p_row = self.row_prob
        poss = sorted(left)
        for x in xs:
            if rnd.random() >= p_row:
                continue
            n = rnd.choice(poss)
            k = rnd.choice(poss)
            t = rnd.choice(sorted({t for t, _, _ in repl}))
            fkeys = sorted({f for f, _ in find})
            # prefer a search text that occurs
            occurring = [f for f in fkeys if f and f in st]
            f = rnd.choice(occurring) if occurring and rnd.random() < 0.7 \
                else rnd.choice(fkeys)
            cands = [(o, t2, w_all, nth) for o, t2, w_all, nth in subst
                     if o == f and t2 == t]
            o, t2, w_all, nth = cands[0]
            i = rnd.choice(sorted(nth))
            self.rows.append(dict(
                st=st, x=x, n=n, k=k, t=t, f=f, i=i,
                want=dict(
                    split=(st if n >= 0 else '#VALUE!'),
                    left=left[n], right=right[k], mid=mid[(n, k)],
                    replace=repl[(t, n, k)],
                    find1=find[(f, 1)], findn=find[(f, n)],
                    sub_all=w_all, sub_nth=nth[i],
                    trim=trim, upper=upper, lower=lower,
                    exact=dict(exact)[t],
                    concat=[w for t3, w, _ in concat if t3 == t][0],
                    len=(UNJUDGED if isinstance(x, float) and x.is_integer()
                         else want_len))))
        if len(self.rows) >= 120:
            self.flush_rows()

    # -- formulas -----------------------------------------------------------
    COLS = [
        # (column, formula template, key of the expected value, function name)
        ('G', '=LEFT(A{r},B{r})&MID(A{r},B{r}+1,LEN(A{r}))', 'split', 'left'),
        ('H', '=RIGHT(A{r},C{r})', 'right', 'right'),
        ('I', '=REPLACE(A{r},B{r},C{r},D{r})', 'replace', 'replace'),
        ('J', '=LEFT(A{r},B{r}-1)&D{r}&MID(A{r},B{r}+C{r},LEN(A{r}))', 'ident', 'replace'),
        ('K', '=FIND(E{r},A{r})', 'find1', 'find'),
        ('L', '=FIND(E{r},A{r},B{r})', 'findn', 'find'),
        ('M', '=SUBSTITUTE(A{r},E{r},D{r})', 'sub_all', 'substitute'),
        ('N', '=SUBSTITUTE(A{r},E{r},D{r},F{r})', 'sub_nth', 'substitute'),
        ('O', '=TRIM(A{r})', 'trim', 'trim'),
        ('P', '=UPPER(A{r})', 'upper', 'upper'),
        ('Q', '=LOWER(A{r})', 'lower', 'lower'),
        ('R', '=EXACT(A{r},D{r})', 'exact', 'exact'),
        ('S', '=CONCATENATE(A{r},D{r})', 'concat', 'concatenate'),
        ('T', '=A{r}&D{r}', 'concat', 'concatenate'),
        ('U', '=CONCAT(A{r},D{r})', 'concat', 'concat'),
        ('V', '=LEN(A{r})', 'len', 'len_'),
        ('W', '=MID(A{r},B{r},C{r})', 'mid', 'mid'),
        ('X', '=LEFT(A{r},B{r})', 'left', 'left'),
        ('Y', '=TRIM(TRIM(A{r}))&UPPER(UPPER(A{r}))&LOWER(LOWER(A{r}))', 'idem', 'trim'),
    ]

    def flush_rows(self):
        rows, self.rows = self.rows, []
        if not rows:
            return
        cells = {}
        plan = []
        for r, row in enumerate(rows, start=1):
            cells[f'A{r}'] = row['x']
            cells[f'B{r}'] = row['n']
            cells[f'C{r}'] = row['k']
            cells[f'D{r}'] = row['t']
            cells[f'E{r}'] = row['f']
            cells[f'F{r}'] = row['i']
            w = row['want']
            # REPLACE = LEFT & t & MID (ReplaceLaw) is stated for counts >= 0
            w['ident'] = w['replace'] if row['k'] >= 0 else None
            # the split identity needs MID(s, n+1, ..) with n+1 >= 1
            if row['n'] < 0:
                w['split'] = None
            if all(x is not UNJUDGED for x in (w['trim'], w['upper'], w['lower'])):
                w['idem'] = w['trim'] + w['upper'] + w['lower']
            else:
                w['idem'] = None
            for col, tpl, key, fn in self.COLS:
                if w[key] is None:
                    continue
                f = tpl.format(r=r)
                if col == 'X' and isinstance(row['x'], str) and r % 3 == 0:
                    # the same with the text as a literal in the formula
                    f = f'=LEFT("{row["st"]}",B{r})'
                cells[f'{col}{r}'] = f
                plan.append((f'{col}{r}', f, w[key], fn, row))
        try:
            model = xl.compile_wb(cells)
        except Exception as exc:            # noqa
            raise tlc.MachineryFailure(f'workbook of formula rows does not compile: {exc!r}')
        for addr, f, want, fn, row in plan:
            try:
                got = model.evaluate('S!' + addr)
            except Exception as exc:        # noqa
                got = exc
            self.formula_cells += 1
            self.judge(fn, got, want, lambda: dict(
                via='formula', formula=f, fn=fn,
                cells=dict(A=row['x'], B=row['n'], C=row['k'], D=row['t'],
                           E=row['f'], F=row['i']),
                want=shown(want)))

    # -- TEXT vectors -------------------------------------------------------
    def text_vector(self, vec):
        self.text_states += 1
        f = txt(vec['fmt'])
        self.seen_last_fmt.add(f[-1])
        for rec in vec['r']:
            want = val(rec['r'])
            k, j = int(rec['k']), int(rec['j'])
            if want is UNJUDGED:
                self.text_unjudged += 1
            xs = [k, float(k)] if j == 0 else [float(Fraction(k, 10 ** j))]
            if self.text_samples < 3 and self.rnd.random() < 0.002:
                self.text_samples += 1
                self.v.sample(dict(text_of=f'{k}/10^{j}', fmt=f, want=shown(want)),
                              limit=9)
            for x in xs:
                self.lib('text', (x, f), want)
                if self.rnd.random() < self.text_row_prob:
                    self.text_rows.append((x, f, want))
        if len(self.text_rows) >= 300:
            self.flush_text_rows()

    def flush_text_rows(self):
        rows, self.text_rows = self.text_rows, []
        if not rows:
            return
        cells, plan = {}, []
        for r, (x, f, want) in enumerate(rows, start=1):
            cells[f'A{r}'] = x
            cells[f'B{r}'] = f
            formula = f'=TEXT(A{r},B{r})' if r % 2 else f'=TEXT(A{r},"{f}")'
            cells[f'C{r}'] = formula
            plan.append((f'C{r}', formula, want, x, f))
        model = xl.compile_wb(cells)
        for addr, formula, want, x, f in plan:
            try:
                got = model.evaluate('S!' + addr)
            except Exception as exc:        # noqa
                got = exc
            self.formula_cells += 1
            self.judge('text', got, want, lambda: dict(
                via='formula', formula=formula, fn='text',
                cells=dict(A=x, B=f), want=shown(want)))

    def vectors(self, vectors):
        for vec in vectors:
            kind = vec['kind']
            if kind == 'slice':
                self.slice_vector(vec)
            elif kind == 'text':
                self.text_vector(vec)
            elif kind == 'prefix':
                self.prefix_states += 1
                if vec['fmt']:
                    self.seen_last_fmt.add(txt(vec['fmt'])[-1])
            else:
                raise tlc.MachineryFailure(f'unknown vector kind {kind!r}')


# --------------------------------------------------------------------------

def coverage_run():
    """TLC's -coverage cannot be switched on for the law-checking runs: its
    cost model inlines every operator at every call site and exhausts the heap
    on this module before the first state.  Action coverage is therefore taken
    from a run of the same machine and constants with only TypeOK
    (Text_cov.cfg); the law-checking runs prove their own non-vacuity through
    the exported vectors (every AppendChar / AppendFmt outcome must appear)."""
    res = tlc.run('MC_Text', 'Text_cov.cfg', workers=4, coverage=True,
                  timeout=600)
    if not res.ok:
        raise tlc.MachineryFailure(
            f'Text model (coverage run) violates {res.violated}:\n'
            + res.stdout[-2000:])
    for act in ('AppendChar', 'AppendFmt'):
        if res.coverage.get(act, (0, 0))[1] == 0:
            raise tlc.MachineryFailure(f'vacuous: action {act} never taken')
    res.stdout = ''
    return res


def run(tier, seed):
    v = Verdict(PID, tier, seed)
    v.distinct = _Count()
    rnd = random.Random(seed)
    drv = Driver(v, rnd, tier)
    big_cfg = os.path.join(tlc.SPEC, 'Text_big.cfg')

    jobs = []   # (label, module, spec_dir, cfg, workers)
    if tier == 'quick':
        drv.row_prob, drv.text_row_prob = 0.4, 0.05
        jobs.append(('Text_mc', 'MC_Text', tlc.SPEC, 'Text_mc.cfg', 16))
        maxlen, parallel = 4, 1
    else:
        drv.row_prob, drv.text_row_prob = 0.12, 0.02
        maxlen, parallel = 6, 3
        alphabet = (1, 2, 3, 4, 5)
        from_mc = [(0, 0), (3, 0), (12, 0), (120, 0), (-7, 0), (1234567, 0),
                   (5, 1), (25, 1), (-25, 1), (125, 3), (5, 3), (1005, 3),
                   (145, 3), (9995, 3), (9995, 1), (999999, 3), (123456, 2),
                   (5, 4), (15, 4), (-5, 4), (45, 2), (2675, 3)]
        nums = sorted(set(from_mc) | set(tie_numbers(rnd, 70)))
        m, d = job_module('MC_TextN', seeds=[()], maxlen=1, nums=nums, fmtmax=8)
        jobs.append(('Text_big numbers', m, d, big_cfg, 5))
        for a in alphabet:
            for b in alphabet:
                m, d = job_module(f'MC_TextP{a}{b}', seeds=[(a, b)],
                                  maxlen=maxlen, nums=[], fmtmax=0)
                jobs.append((f'Text_big prefix {a}{b}', m, d, big_cfg, 5))
        # longer texts: random 6-character seeds extended to 8
        seeds = sorted({tuple(rnd.choice(alphabet) for _ in range(6))
                        for _ in range(40)})
        m, d = job_module('MC_TextL', seeds=seeds, maxlen=8, nums=[], fmtmax=0)
        jobs.append(('Text_big long', m, d, big_cfg, 5))

    with concurrent.futures.ThreadPoolExecutor(max_workers=parallel + 1) as pool:
        cov_fut = pool.submit(coverage_run)
        futs = [pool.submit(run_job, *job) for job in jobs]
        try:
            for fut in futs:
                label, res, vectors = fut.result()
                v.add_tlc(res, label)
                v.traces += len(vectors)
                drv.vectors(vectors)
                del vectors
            cov_res = cov_fut.result()
            v.add_tlc(cov_res, 'Text_cov')
            cov = {k: list(c) for k, c in cov_res.coverage.items()}
        except BaseException:
            for fut in futs:
                fut.cancel()
            raise
    drv.flush_rows()
    drv.flush_text_rows()

    # non-vacuity of the big runs, from what they exported
    want_chars = {CH[c] for c in (1, 2, 3, 4, 5)}
    if drv.seen_last_char != want_chars:
        raise tlc.MachineryFailure(
            f'vacuous: AppendChar outcomes seen {sorted(drv.seen_last_char)}')
    if drv.seen_last_fmt != set('0#,.%'):
        raise tlc.MachineryFailure(
            f'vacuous: AppendFmt outcomes seen {sorted(drv.seen_last_fmt)}')
    if drv.slice_states == 0 or drv.text_states == 0 or drv.formula_cells == 0:
        raise tlc.MachineryFailure('vacuous: no slicing / TEXT / formula vectors')
    if drv.unjudged_raised:
        v.note(f'{drv.unjudged_raised} unjudged call(s) raised an exception '
               '(inputs the statement does not fix; not a verdict)')
    if drv.len_whole_float:
        v.note(f'LEN of a whole float not judged ({drv.len_whole_float} inputs): '
               'LEN(3.0) = 3 is pinned by tests/lib/test_text.py::test_len_ '
               'although Excel has no 3.0')

    v.extra.update(
        exhaustive=True,
        bounds=dict(alphabet=[CH[c] for c in (1, 2, 3, 4, 5)],
                    typed_text_max_len=maxlen,
                    longest_text_seen=drv.maxlen_seen,
                    positions='-1..10',
                    new_texts=['', 'b', CH[8] + 'a', '3 (also as 3 and 3.0)'],
                    search_texts='all texts of length <= 2 over the alphabet '
                                 '+ pieces of the text itself',
                    text_format_max_len=6 if tier == 'quick' else 8),
        laws_checked_by_tlc=LAWS,
        coverage_actions=cov,
        slicing_states=drv.slice_states,
        text_states=drv.text_states,
        format_prefix_states=drv.prefix_states,
        formula_cells_evaluated=drv.formula_cells,
        judged_calls_per_function=dict(sorted(drv.per_fn.items())),
        unjudged_calls=drv.unjudged,
        unjudged_text_vectors=drv.text_unjudged,
        len_of_whole_float_not_judged=drv.len_whole_float,
        rule='one case = one call (function, arguments) of the wrapped '
             'library function or one formula cell; all cases of a run are '
             'distinct inputs by construction (distinct TLC states x distinct '
             'argument tuples); typed texts exhaustive up to the bound, every '
             'n, k in -1..10',
        unjudged_classes=[
            'MID / FIND with start < 1 (statement only fixes negative counts)',
            'FIND of the empty text from start = LEN+1 (start or #VALUE! allowed)',
            'SUBSTITUTE with empty or self-overlapping old text, instance < 1',
            'TEXT of a negative number that rounds to zero (-0.00 vs 0.00)',
            'TEXT with a thousands separator and more than 3 forced integer digits',
            'LEN of a whole float (pinned by the repository tests)'])
    v.assumptions = [
        'TLC evaluates the definitions of Text.tla correctly',
        'float(Fraction(k, 10**j)) has the shortest repr k/10^j (|k| < 10^7, j <= 5)',
        'action coverage measured on a small instance of the same module; '
        'the large runs are checked for non-vacuity through their vectors']
    return v.finish()


def replay(path):
    """re-execute one recorded violation"""
    with open(path) as f:
        rec = json.load(f)
    case = rec['case']
    from pycel.lib import text as T
    from pycel.lib.function_helpers import apply_meta
    if case.get('via') == 'library':
        fn = apply_meta(getattr(T, case['fn']), name_space={})[0]
        try:
            got = fn(*case['args'])
        except Exception as exc:            # noqa
            got = exc
    else:
        cells = {f'{c}1': x for c, x in case['cells'].items()}
        formula = case['formula']
        import re
        formula = re.sub(r'([A-F])\d+', r'\g<1>1', formula)
        try:
            got = xl.evalf(formula, cells)
        except Exception as exc:            # noqa
            got = exc
    want = case['want']
    wants = want if isinstance(want, list) else [want]
    ok = not isinstance(got, Exception) and any(
        w == '<unjudged>' or xl.same_value(got, w) for w in wants)
    print(f"{rec['desc']}\n  now: {got!r}  expected: {want!r}")
    if ok:
        print(f'{PID}: replay OK (no longer reproduces)')
        return 0
    print(f'VIOLATION property={PID} replay={path}')
    return 1
