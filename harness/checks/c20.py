"""C20 -- text functions: slicing partitions, search is first-match, TEXT is
decimal-exact.

Spec: spec/Text.tla.  Texts are sequences of symbol codes built by AppendChar
(typed text) or are the Excel rendering of a number k/10^j (Text!General: 15
significant digits, positional "0.00001" or scientific "1E+21"; the Scale
action moves the decimal point through every magnitude from 10^-25 to 10^22 or
more, the magnitudes where Excel's choice of notation is not beyond doubt are
exported as "number" vectors and only checked for the agreement of the
functions with each other); TEXT() formats are
built by AppendFmt along the grammar  #*0* [one ',' between placeholders]
[. 0* #*] [%].  TLC checks the laws of the statement on the definitions
(SplitLaw, RightLaw, MidLaw, TruncLaw, ReplaceLaw, FindLaw, SubstLaw,
SubstEmptyLaw, ConcatLaw, TrimLaw, IdemLaw, ExactLaw, RenderLaw, TextRoundLaw,
TextShapeLaw) and exports one vector per state with the definitions' results
for every position / count in -1..10; a position or count n >= 0 is also
passed with a fraction (n.5, n.9: Excel cuts it off, Text!Whole).

Binding: every exported result is compared with the real function of
pycel.lib.text, called (a) as the wrapped library function (the same
apply_meta() wrapping the formula loader applies) and (b) through compiled
formulas in a workbook (=LEFT(A1,B1)&MID(A1,B1+1,LEN(A1)), =REPLACE(..) next to
=LEFT(..)&D1&MID(..), =CONCATENATE(A1,D1) next to =A1&D1, ...).  A vector whose
spec value is <<"U">> (statement silent: MID/FIND start < 1, SUBSTITUTE with an
instance < 1, TEXT of a negative number that rounds to zero) is executed but
not judged.  The & operator is also called as the function the formula
evaluator uses (build_operator_operand_fixup) with every CONCATENATE vector.
For every number (as int, whole float, double; also as a literal in the
formula) the functions are moreover compared with each other
(Driver.agreement): CONCATENATE(x) = x&"" = what LEFT / RIGHT / MID / REPLACE /
LEN / FIND / ... see, and that text is a numeral of at most 15 significant
digits that reads back as x -- whatever notation the code chooses.
"""
import concurrent.futures
import itertools
import json
import multiprocessing
import os
import random
import re
from fractions import Fraction

from harness import tlc, xl
from harness.evidence import Verdict

PID = 'C20'

# symbol codes of spec/Text.tla
CH = {1: 'a', 2: 'b', 3: ' ', 4: 'A', 5: 'é', 6: 'B', 7: 'É',
      8: '日', 20: '.', 21: '-', 22: ',', 23: '%', 24: '#',
      25: 'E', 26: '+', 27: 'e'}
CH.update({10 + d: str(d) for d in range(10)})


class _Unjudged:
    def __repr__(self):
        return '<unjudged>'


UNJUDGED = _Unjudged()

LAWS = ['SplitLaw', 'RightLaw', 'MidLaw', 'TruncLaw', 'ReplaceLaw', 'FindLaw', 'SubstLaw',
        'SubstOverlapLaw', 'SubstEmptyLaw', 'ConcatLaw', 'TrimLaw', 'IdemLaw', 'ExactLaw', 'RenderLaw',
        'TextRoundLaw', 'TextShapeLaw']
VALUE_ERROR = '#VALUE!'
MAX_KEPT = 60          # violations kept per TLC job (all are counted)
MAX_KEPT_FN = 4        # ... and per function and way of calling it


# --------------------------------------------------------------------------
# decoding of exported values (see the Export section of Text.tla)

def seq(x):
    """a TLA+ sequence as printed by ToJson: a list ({} when empty)"""
    if isinstance(x, dict):
        return [x[str(i)] for i in range(1, len(x) + 1)]
    return x


def txt(codes):
    return ''.join(CH[c] for c in seq(codes))


def tval(codes):
    """text-valued result: codes, <<0>> = #VALUE!, <<-1>> = unjudged"""
    codes = seq(codes)
    if codes == [0]:
        return VALUE_ERROR
    if codes == [-1]:
        return UNJUDGED
    return ''.join(CH[c] for c in codes)


def nval(n):
    """number-valued result: 0 = #VALUE!, -1 = unjudged"""
    if n == 0:
        return VALUE_ERROR
    if n == -1:
        return UNJUDGED
    return int(n)


def shown(x):
    return '<unjudged>' if x is UNJUDGED else x


class _Count:
    """stand-in for Verdict.distinct: every judged call of a run is a distinct
    (function, arguments) pair by construction (distinct states x distinct
    argument tuples), so only the number is kept."""

    def __init__(self):
        self.n = 0

    def add(self, _key):
        self.n += 1

    def __len__(self):
        return self.n


# --------------------------------------------------------------------------
# TLC jobs

def _tla_seq(codes):
    return '<<' + ', '.join(str(c) for c in codes) + '>>'


def _tla_set(items):
    return '{' + ', '.join(items) + '}'


def job_module(name, *, seeds, maxlen, nums, fmtmax, scaled=()):
    """A wrapper module over MC_Text with the constants of one TLC job
    (nums / scaled / fmtmax may name a definition of MC_Text)."""
    d = tlc.new_scratch('text')
    if not isinstance(nums, str):
        nums = _tla_set(f'<<{k}, {j}>>' for k, j in nums)
    if not isinstance(scaled, str):
        scaled = _tla_set(f'<<{k}, {j}>>' for k, j in scaled)
    with open(os.path.join(d, name + '.tla'), 'w') as f:
        f.write(f"""---- MODULE {name} ----
EXTENDS MC_Text
TSeeds  == {_tla_set(_tla_seq(s) for s in seeds)}
TMaxLen == {maxlen}
TNums   == {nums}
TScaled == {scaled}
TFmtMax == {fmtmax}
====
""")
    return name, d


def tie_numbers(rnd, n):
    """numbers k/10^j around rounding ties: last digit 5 (and its neighbours)"""
    out = set()
    while len(out) < n:
        j = rnd.randrange(0, 5)           # k/10^j >= 0.0001: no exponent form
        head = rnd.randrange(0, 10 ** rnd.randrange(1, 5))
        k = head * 10 + rnd.choice((5, 5, 5, 4, 6, 0, 9))
        if k == 0 or (k % 10 == 0 and j > 0):
            continue                       # keep k/10^j in lowest terms
        out.add((k * rnd.choice((1, 1, -1)), j))
    return sorted(out)


def job_worker(job):
    """One TLC job and the conformance run over its vectors (child process)."""
    label, module, spec_dir, cfg = job['label'], job['module'], job['dir'], job['cfg']
    res = tlc.run(module, cfg, spec_dir=spec_dir, workers=job['workers'],
                  timeout=1500, library=tlc.SPEC, heap=job['heap'], env=job['env'])
    if not res.ok:
        raise tlc.MachineryFailure(
            f'Text model ({label}) violates {res.violated}:\n' + res.stdout[-3000:])
    vectors = res.json
    if len(vectors) < res.distinct:
        raise tlc.MachineryFailure(
            f'export incomplete ({label}): {len(vectors)} vectors for '
            f'{res.distinct} states')
    drv = Driver(random.Random(job['seed']), job['row_prob'], job['text_row_prob'])

    # every other vector is bound from a thread which did not import the
    # library (a worker thread of an application): same answers there
    import threading
    box = []

    def body():
        try:
            drv.vectors(vectors[1::2])
        except BaseException as exc:     # noqa  re-raised below
            box.append(exc)
    drv.vectors(vectors[0::2])
    t = threading.Thread(target=body)
    t.start()
    t.join()
    if box:
        raise box[0]
    drv.flush_rows()
    drv.flush_num_rows()
    drv.flush_text_rows()
    out = drv.result()
    out.update(label=label, vectors=len(vectors),
               tlc=dict(distinct=res.distinct, generated=res.generated,
                        depth=res.depth, wall=res.wall))
    return out


class _Res:
    """what Verdict.add_tlc reads"""

    def __init__(self, d):
        self.distinct, self.generated = d['distinct'], d['generated']
        self.depth, self.wall = d['depth'], d['wall']


def number_inputs(k, j):
    """Python values standing for the number k/10^j: the int and the float
    holding it when it is whole (3 and 3.0 are both "3", 10**21 and 1e21 both
    "1E+21"), else the nearest double"""
    if j <= 0:
        n = k * 10 ** -j
        return [n, float(n)]
    return [float(Fraction(k, 10 ** j))]


def amp_operator():
    """the & operator of a formula as a function of its two operands"""
    from pycel.excelutil import build_operator_operand_fixup
    fix = build_operator_operand_fixup(lambda *a: None)
    return lambda a, b: fix(a, 'BitAnd', b)


# what a number looks like as text, in either notation of the General format
NUMERAL = re.compile(r'-?[0-9]+(\.[0-9]+)?(E[+-][0-9]{2,3})?')


# --------------------------------------------------------------------------

class Driver:
    """drives the real functions with the exported vectors of one job"""

    FUNCS = ('left right mid replace find substitute trim upper lower exact '
             'concatenate concat len_ text').split()
    COUNTERS = ('judged unjudged unjudged_raised len_whole_float formula_cells fractional '
                'slice_states text_states prefix_states text_unjudged '
                'number_states scientific_states tiny_states agreement_inputs '
                'nviolations').split()

    def __init__(self, rnd, row_prob, text_row_prob):
        from pycel.lib import text as T
        from pycel.lib.function_helpers import apply_meta
        self.rnd = rnd
        self.row_prob, self.text_row_prob = row_prob, text_row_prob
        self.W = {n: apply_meta(getattr(T, n), name_space={})[0]
                  for n in self.FUNCS}
        self.W['amp'] = amp_operator()       # a & b as the formula evaluates it
        for c in self.COUNTERS:
            setattr(self, c, 0)
        self.per_fn = {}
        self.violations = []
        self.kept_by = {}
        self.samples = []
        self.text_samples = []
        self.rows = []          # pending formula rows
        self.num_rows = []      # numbers for the workbook of agreement formulas
        self.text_rows = []
        self.seen_last_char = set()
        self.seen_last_fmt = set()
        self.maxlen_seen = 0

    def result(self):
        out = {c: getattr(self, c) for c in self.COUNTERS}
        out.update(per_fn=self.per_fn, violations=self.violations,
                   samples=self.samples, text_samples=self.text_samples,
                   seen_last_char=sorted(self.seen_last_char),
                   seen_last_fmt=sorted(self.seen_last_fmt),
                   maxlen_seen=self.maxlen_seen)
        return out

    # -- one library call ---------------------------------------------------
    def lib(self, fn, args, want):
        try:
            got = self.W[fn](*args)
        except Exception as exc:            # noqa
            got = exc
        if type(got) is type(want) and got == want:
            self.judged += 1                # same Python type, same value
            self.per_fn[fn] = self.per_fn.get(fn, 0) + 1
            return
        self.judge(fn, got, want, lambda: dict(
            via='library', fn=fn, args=list(args)))

    def judge(self, fn, got, want, case):
        if want is UNJUDGED or (isinstance(want, list) and UNJUDGED in want):
            self.unjudged += 1
            if isinstance(got, Exception):
                self.unjudged_raised += 1
            return
        self.judged += 1
        self.per_fn[fn] = self.per_fn.get(fn, 0) + 1
        wants = want if isinstance(want, list) else [want]   # allowed answers
        if not isinstance(got, Exception) and any(
                xl.same_value(got, w) for w in wants):
            return
        self.nviolations += 1
        c = case()
        group = (fn, c['via'])
        self.kept_by[group] = self.kept_by.get(group, 0) + 1
        if len(self.violations) >= MAX_KEPT or self.kept_by[group] > MAX_KEPT_FN:
            return
        c['want'] = want
        c['got'] = repr(got)
        name = fn.upper().rstrip('_')
        what = (f"{c['args'][0]!r} & {c['args'][1]!r}" if fn == 'amp' and c['via'] == 'library'
                else f"{name}{tuple(c['args'])!r}" if c['via'] == 'library'
                else f"{c['formula']} with {c['cells']!r}")
        self.violations.append(dict(
            desc=f"{what} via {c['via']}: expected "
                 f"{' or '.join(repr(w) for w in wants)}, got {got!r}"
                 + (f" ({c['note']})" if c.get('note') else ''),
            case=c))

    # -- slicing vectors ----------------------------------------------------
    @staticmethod
    def inputs(vec):
        """Python values standing for the text under test"""
        st = txt(vec['s'])
        src = seq(vec['src'])
        if src[0] == 'T':
            return st, [st]
        return st, number_inputs(int(src[1]), int(src[2]))

    def slice_vector(self, vec):
        rnd = self.rnd
        st, xs = self.inputs(vec)
        self.slice_states += 1
        src = seq(vec['src'])
        if src[0] == 'T':
            self.maxlen_seen = max(self.maxlen_seen, len(st))
            if st:
                self.seen_last_char.add(st[-1])
        if src[0] == 'N':
            self.number_states += 1
            self.scientific_states += 'E' in st
            self.tiny_states += st.lstrip('-').startswith('0.0000')
            for x in xs:
                self.agreement(x)
        lo, hi = vec['pos']
        poss = list(range(lo, hi + 1))
        tenths = sorted(vec['tenths'])       # n >= 0 is also passed as n + f/10

        def frac(n):
            """the position / count n with a fraction that Excel cuts off"""
            return n + rnd.choice(tenths) / 10 if n >= 0 and tenths else n
        left = dict(zip(poss, map(tval, seq(vec['left']))))
        right = dict(zip(poss, map(tval, seq(vec['right']))))
        mid = {(p, c): tval(r) for p, row in zip(poss, seq(vec['mid']))
               for c, r in zip(poss, seq(row))}
        repl = {}
        for rec in vec['replace']:
            t = txt(rec['t'])
            for n, row in zip(poss, seq(rec['r'])):
                for k, r in zip(poss, seq(row)):
                    repl[(t, n, k)] = tval(r)
        find = {}
        for rec in vec['find']:
            f = txt(rec['f'])
            for s0, allowed in zip(poss, seq(rec['r'])):
                allowed = [nval(a) for a in allowed]
                find[(f, s0)] = allowed[0] if len(allowed) == 1 else allowed
        # nth[i] is instance i (instance 0 first)
        subst = [(txt(r['o']), txt(r['t']), tval(r['all']),
                  dict(enumerate(map(tval, seq(r['nth'])))))
                 for r in vec['subst']]
        concat = [(txt(r['t']), tval(r['r']), tval(r['r3'])) for r in vec['concat']]
        exact = [(txt(r['t']), bool(r['r'])) for r in vec['exact']]
        want_len = int(vec['len'])
        trim, upper, lower = txt(vec['trim']), txt(vec['upper']), txt(vec['lower'])
        if len(st) >= 3 and len(self.samples) < 2 and rnd.random() < 0.2:
            self.samples.append(dict(s=st, src=src, left_2=shown(left[2]),
                                     right_2=shown(right[2]), trim=trim,
                                     replace_2_1_b=shown(repl.get(('b', 2, 1)))))

        lib = self.lib
        for x in xs:
            whole_float = isinstance(x, float) and x.is_integer()
            if whole_float:
                # LEN(3.0) = 3 is pinned by the repository's own test table
                # (tests/lib/test_text.py test_len_); not judged.
                self.len_whole_float += 1
            else:
                lib('len_', (x,), want_len)
            for n, w in left.items():
                lib('left', (x, n), w)
            for n, w in right.items():
                lib('right', (x, n), w)
            # positions and counts with a fraction: every n >= 0 for LEFT and
            # RIGHT, a random choice of argument tuples for the others
            for n in poss:
                for f in tenths if n >= 0 else ():
                    lib('left', (x, n + f / 10), left[n])
                    lib('right', (x, n + f / 10), right[n])
                    self.fractional += 2
            for (p, c), w in rnd.sample(sorted(mid.items(), key=lambda kv: kv[0]), 12):
                p2, c2 = rnd.choice(((frac(p), c), (p, frac(c)), (frac(p), frac(c))))
                if (p2, c2) != (p, c):
                    lib('mid', (x, p2, c2), w)
                    self.fractional += 1
            for (t, n, k), w in rnd.sample(sorted(repl.items(), key=lambda kv: kv[0]), 12):
                n2, k2 = rnd.choice(((frac(n), k), (n, frac(k)), (frac(n), frac(k))))
                if (n2, k2) != (n, k):
                    lib('replace', (x, n2, k2, t), w)
                    self.fractional += 1
            for (f, s0), w in rnd.sample(sorted(find.items(), key=lambda kv: kv[0]),
                                         min(8, len(find))):
                if s0 >= 1 and tenths:
                    lib('find', (f, x, frac(s0)), w)
                    self.fractional += 1
            lib('left', (x,), left[1])        # num_chars defaults to 1
            lib('right', (x,), right[1])
            for (p, c), w in mid.items():
                lib('mid', (x, p, c), w)
            for (t, n, k), w in repl.items():
                lib('replace', (x, n, k, t), w)
                if t == '3' and 1 <= n <= 2 and 0 <= k <= 1:
                    lib('replace', (x, n, k, 3.0), w)
            for (f, s0), w in find.items():
                lib('find', (f, x, s0), w)
                if s0 == 1:
                    lib('find', (f, x), w)    # start defaults to 1
            for o, t, w_all, nth in subst:
                lib('substitute', (x, o, t), w_all)
                for i, w in nth.items():
                    lib('substitute', (x, o, t, i), w)
                if t == '3':
                    lib('substitute', (x, o, 3.0), w_all)
            for t, w, w3 in concat:
                lib('concatenate', (x, t), w)
                lib('concat', (x, t), w)
                lib('concatenate', (x, t, x), w3)
                lib('amp', (x, t), w)           # CONCATENATE and & agree
                lib('amp', (w, x), w3)
                if t == '3':
                    lib('concatenate', (x, 3.0), w)
                    lib('concatenate', (x, 3), w)
                    lib('amp', (x, 3.0), w)
            for t, w in exact:
                lib('exact', (x, t), w)
                lib('exact', (t, x), w)
            lib('trim', (x,), trim)
            lib('upper', (x,), upper)
            lib('lower', (x,), lower)
            # idempotence on the real code
            for fn, w in (('trim', trim), ('upper', upper), ('lower', lower)):
                lib(fn, (w,), w)

        # rows for the workbook run (every number, a share of the typed texts)
        for x in xs:
            if rnd.random() >= (1.0 if src[0] == 'N' else self.row_prob):
                continue
            n = rnd.choice(poss)
            k = rnd.choice(poss)
            t = rnd.choice(sorted({t for t, _, _ in repl}))
            fkeys = sorted({f for f, _ in find})
            occurring = [f for f in fkeys if f and f in st]
            f = rnd.choice(occurring) if occurring and rnd.random() < 0.7 \
                else rnd.choice(fkeys)            # prefer a text that occurs
            w_all, nth = [(a, b) for o, t2, a, b in subst if o == f and t2 == t][0]
            i = rnd.choice(sorted(nth))
            # one row in four has its position and count with a fraction
            fractional = bool(tenths) and rnd.random() < 0.25
            self.rows.append(dict(
                st=st, x=x, n=n, k=k, t=t, f=f, i=i,
                nq=frac(n) if fractional else n, kq=frac(k) if fractional else k,
                want=dict(
                    split=st, left=left[n], right=right[k], mid=mid[(n, k)],
                    replace=repl[(t, n, k)],
                    find1=find[(f, 1)], findn=find[(f, n)],
                    sub_all=w_all, sub_nth=nth[i],
                    trim=trim, upper=upper, lower=lower,
                    idem=trim + upper + lower,
                    exact=dict(exact)[t],
                    concat=[w for t3, w, _ in concat if t3 == t][0],
                    len=(UNJUDGED if isinstance(x, float) and x.is_integer()
                         else want_len))))
        if len(self.rows) >= 120:
            self.flush_rows()

    # -- numbers in the functions' own words --------------------------------
    def agreement(self, x):
        """Whatever notation the code chooses for the number x, CONCATENATE, &
        and the slicing functions must see the same text ("CONCATENATE and &
        agree", LEFT & MID = s, RIGHT is the tail), and that text is a numeral
        of at most 15 significant digits that reads back as x.  Judged for
        every number, also where the notation Excel chooses is not (vectors
        of kind "number")."""
        self.agreement_inputs += 1
        W = self.W

        def call(fn, *args):
            try:
                return W[fn](*args)
            except Exception as exc:        # noqa
                return exc

        def same(fn, args, want, note):
            got = call(fn, *args)
            if type(got) is type(want) and got == want:
                self.judged += 1
                self.per_fn[fn] = self.per_fn.get(fn, 0) + 1
                return
            self.judge(fn, got, want, lambda: dict(
                via='library', fn=fn, args=list(args), law='agreement', x=x,
                note=note))

        r = call('concatenate', x)
        ok = isinstance(r, str) and NUMERAL.fullmatch(r) is not None
        if ok:
            digits = re.sub(r'E.*|[-.]', '', r).strip('0')
            ok = len(digits) <= 15 and \
                abs(Fraction(r.replace('E', 'e')) - Fraction(x)) <= abs(Fraction(x)) / 10 ** 14
        if not ok:
            self.judge('concatenate', r, 'a numeral ([-]digits[.digits][E+dd]) of at most '
                       f'15 significant digits for {x!r}', lambda: dict(
                           via='library', fn='concatenate', args=[x], law='agreement', x=x,
                           note='in neither notation of the General format'))
        else:
            self.judged += 1
            self.per_fn['concatenate'] = self.per_fn.get('concatenate', 0) + 1
        if not isinstance(r, str):
            return
        note = f'CONCATENATE({x!r}) is {r!r}'
        same('amp', (x, ''), r, note)
        same('amp', ('', x), r, note)
        same('concat', (x,), r, note)
        for t in ('b', 3.0, x):
            both = call('concatenate', x, t)
            if isinstance(both, str):
                same('amp', (x, t), both, f'CONCATENATE({x!r}, {t!r}) is {both!r}')
        n = len(r)
        if not (isinstance(x, float) and x.is_integer()):
            same('len_', (x,), n, note)       # (LEN of a whole float: pinned)
        for i in sorted({0, 1, 2, 3, n - 1, n, n + 1}):
            if i < 0:
                continue
            same('left', (x, i), r[:i], note)
            same('right', (x, i), r[n - i:] if i <= n else r, note)
            same('mid', (x, i + 1, n), r[i:], note)
            same('replace', (x, i + 1, 1, 'b'), r[:i] + 'b' + r[i + 1:], note)
        same('exact', (x, r), True, note)
        same('trim', (x,), r, note)
        same('upper', (x,), r.upper(), note)
        same('lower', (x,), r.lower(), note)
        same('find', (r[-1], x), r.index(r[-1]) + 1, note)
        same('substitute', (x, r[0], 'b'), r.replace(r[0], 'b'), note)
        self.num_rows.append(x)
        if len(self.num_rows) >= 150:
            self.flush_num_rows()

    NUM_COLS = [
        # formula, expected value from r = the value of =CONCATENATE(A{r}),
        # function, judged for a whole float (LEN(3.0) is pinned)
        ('C', '=A{r}&""', lambda r: r, 'amp', True),
        ('D', '=""&A{r}', lambda r: r, 'amp', True),
        ('E', '=LEFT(A{r},3)&MID(A{r},4,LEN(A{r}))', lambda r: r, 'left', False),
        ('F', '=LEN(A{r})', len, 'len_', False),
        ('G', '=RIGHT(A{r},2)', lambda r: r[-2:], 'right', True),
        ('H', '=LEFT(A{r},4)', lambda r: r[:4], 'left', True),
        ('I', '=EXACT(CONCATENATE(A{r},"b",A{r}),A{r}&"b"&A{r})', lambda r: True,
         'concatenate', True),
    ]

    def flush_num_rows(self):
        xs, self.num_rows = self.num_rows, []
        if not xs:
            return
        cells = {}
        for r, x in enumerate(xs, start=1):
            cells[f'A{r}'] = x
            cells[f'B{r}'] = f'=CONCATENATE(A{r})'
            for col, tpl, _, _, _ in self.NUM_COLS:
                cells[f'{col}{r}'] = tpl.format(r=r)
        try:
            model = xl.compile_wb(cells)
        except Exception as exc:            # noqa
            raise tlc.MachineryFailure(
                f'workbook of number rows does not compile: {exc!r}')
        for r, x in enumerate(xs, start=1):
            try:
                text = model.evaluate(f'S!B{r}')
            except Exception as exc:        # noqa
                text = exc
            if not isinstance(text, str):
                continue                    # reported by the library run
            for col, tpl, want, fn, whole_ok in self.NUM_COLS:
                if not whole_ok and isinstance(x, float) and x.is_integer():
                    continue
                f = tpl.format(r=r)
                try:
                    got = model.evaluate(f'S!{col}{r}')
                except Exception as exc:    # noqa
                    got = exc
                self.formula_cells += 1
                self.judge(fn, got, want(text), lambda: dict(
                    via='formula', formula=f, fn=fn, cells=dict(A=x),
                    law='agreement', x=x,
                    note=f'=CONCATENATE(A{r}) is {text!r}'))

    def number_vector(self, vec):
        """a number at a magnitude where Excel's notation is not judged"""
        src = seq(vec['src'])
        self.number_states += 1
        for x in number_inputs(int(src[1]), int(src[2])):
            self.agreement(x)

    # -- formulas -----------------------------------------------------------
    COLS = [
        # (column, formula, key of the expected value, function)
        ('G', '=LEFT(A{r},B{r})&MID(A{r},B{r}+1,LEN(A{r}))', 'split', 'left'),
        ('H', '=RIGHT(A{r},C{r})', 'right', 'right'),
        ('I', '=REPLACE(A{r},B{r},C{r},D{r})', 'replace', 'replace'),
        ('J', '=LEFT(A{r},B{r}-1)&D{r}&MID(A{r},B{r}+C{r},LEN(A{r}))', 'ident', 'replace'),
        ('K', '=FIND(E{r},A{r})', 'find1', 'find'),
        ('L', '=FIND(E{r},A{r},B{r})', 'findn', 'find'),
        ('M', '=SUBSTITUTE(A{r},E{r},D{r})', 'sub_all', 'substitute'),
        ('N', '=SUBSTITUTE(A{r},E{r},D{r},F{r})', 'sub_nth', 'substitute'),
        ('O', '=TRIM(A{r})', 'trim', 'trim'),
        ('P', '=UPPER(A{r})', 'upper', 'upper'),
        ('Q', '=LOWER(A{r})', 'lower', 'lower'),
        ('R', '=EXACT(A{r},D{r})', 'exact', 'exact'),
        ('S', '=CONCATENATE(A{r},D{r})', 'concat', 'concatenate'),
        ('T', '=A{r}&D{r}', 'concat', 'concatenate'),
        ('U', '=CONCAT(A{r},D{r})', 'concat', 'concat'),
        ('V', '=LEN(A{r})', 'len', 'len_'),
        ('W', '=MID(A{r},B{r},C{r})', 'mid', 'mid'),
        ('X', '=LEFT(A{r},B{r})', 'left', 'left'),
        ('Y', '=TRIM(TRIM(A{r}))&UPPER(UPPER(A{r}))&LOWER(LOWER(A{r}))', 'idem', 'trim'),
    ]

    def flush_rows(self):
        rows, self.rows = self.rows, []
        if not rows:
            return
        cells = {}
        plan = []
        for r, row in enumerate(rows, start=1):
            for col, key in zip('ABCDEF', ('x', 'nq', 'kq', 't', 'f', 'i')):
                cells[f'{col}{r}'] = row[key]
            w = row['want']
            # REPLACE = LEFT & t & MID (ReplaceLaw; #VALUE! on both sides for
            # n < 1) is stated for counts k >= 0 (and for whole n, k: the
            # fractions of n and k add up in MID(.., n + k, ..))
            w['ident'] = w['replace'] if row['k'] >= 0 and \
                (row['nq'], row['kq']) == (row['n'], row['k']) else None
            # the split identity (SplitLaw) is stated for n >= 0
            if row['n'] < 0:
                w['split'] = None
            for col, tpl, key, fn in self.COLS:
                if w[key] is None:
                    continue
                f = tpl.format(r=r)
                if col == 'X' and isinstance(row['x'], str) and r % 3 == 0:
                    f = f'=LEFT("{row["st"]}",B{r})'   # the text as a literal
                elif col == 'X' and not isinstance(row['x'], str) and r % 2 == 0:
                    # the number as a literal, spelled as Excel shows it
                    f = f'=LEFT({row["st"]},B{r})'
                cells[f'{col}{r}'] = f
                plan.append((f'{col}{r}', f, w[key], fn, row))
        try:
            model = xl.compile_wb(cells)
        except Exception as exc:            # noqa
            raise tlc.MachineryFailure(
                f'workbook of formula rows does not compile: {exc!r}')
        for addr, f, want, fn, row in plan:
            try:
                got = model.evaluate('S!' + addr)
            except Exception as exc:        # noqa
                got = exc
            self.formula_cells += 1
            self.judge(fn, got, want, lambda: dict(
                via='formula', formula=f, fn=fn,
                cells=dict(A=row['x'], B=row['nq'], C=row['kq'], D=row['t'],
                           E=row['f'], F=row['i'])))

    # -- TEXT vectors -------------------------------------------------------
    def text_vector(self, vec):
        self.text_states += 1
        f = txt(vec['fmt'])
        self.seen_last_fmt.add(f[-1])
        for rec in vec['r']:
            want = tval(rec['r'])
            k, j = int(rec['k']), int(rec['j'])
            if want is UNJUDGED:
                self.text_unjudged += 1
            xs = [k, float(k)] if j == 0 else [float(Fraction(k, 10 ** j))]
            if len(self.text_samples) < 2 and self.rnd.random() < 0.002:
                self.text_samples.append(
                    dict(text_of=f'{k}/10^{j}', fmt=f, want=shown(want)))
            for x in xs:
                self.lib('text', (x, f), want)
                if self.rnd.random() < self.text_row_prob:
                    self.text_rows.append((x, f, want))
        if len(self.text_rows) >= 300:
            self.flush_text_rows()

    def flush_text_rows(self):
        rows, self.text_rows = self.text_rows, []
        if not rows:
            return
        cells, plan = {}, []
        for r, (x, f, want) in enumerate(rows, start=1):
            cells[f'A{r}'] = x
            cells[f'B{r}'] = f
            formula = f'=TEXT(A{r},B{r})' if r % 2 else f'=TEXT(A{r},"{f}")'
            cells[f'C{r}'] = formula
            plan.append((f'C{r}', formula, want, x, f))
        model = xl.compile_wb(cells)
        for addr, formula, want, x, f in plan:
            try:
                got = model.evaluate('S!' + addr)
            except Exception as exc:        # noqa
                got = exc
            self.formula_cells += 1
            self.judge('text', got, want, lambda: dict(
                via='formula', formula=formula, fn='text', cells=dict(A=x, B=f)))

    def vectors(self, vectors):
        for vec in vectors:
            kind = vec['kind']
            if kind == 'slice':
                self.slice_vector(vec)
            elif kind == 'text':
                self.text_vector(vec)
            elif kind == 'number':
                self.number_vector(vec)
            elif kind == 'prefix':
                self.prefix_states += 1
                if vec['fmt']:
                    self.seen_last_fmt.add(txt(vec['fmt'])[-1])
            else:
                raise tlc.MachineryFailure(f'unknown vector kind {kind!r}')


# --------------------------------------------------------------------------

def coverage_run():
    """TLC's -coverage cannot be switched on for the law-checking runs: its
    cost model inlines every operator at every call site and exhausts the heap
    on this module before the first state.  Action coverage is therefore taken
    from a run of the same machine with the constants of MC_Text and only
    TypeOK (Text_cov.cfg); the law-checking runs prove their own non-vacuity
    through the exported vectors (every AppendChar / AppendFmt outcome must
    appear; Scale must have reached the exponent notation, the numbers below
    0.0001 and the magnitudes that are not judged)."""
    res = tlc.run('MC_Text', 'Text_cov.cfg', workers=2, coverage=True,
                  timeout=600, heap='1g', env={
                      'JDK_JAVA_OPTIONS': '-XX:ParallelGCThreads=2 -XX:TieredStopAtLevel=1'})
    if not res.ok:
        raise tlc.MachineryFailure(
            f'Text model (coverage run) violates {res.violated}:\n'
            + res.stdout[-2000:])
    for act in ('AppendChar', 'AppendFmt', 'Scale'):
        if res.coverage.get(act, (0, 0))[1] == 0:
            raise tlc.MachineryFailure(f'vacuous: action {act} never taken')
    return dict(coverage={k: list(c) for k, c in res.coverage.items()},
                tlc=dict(distinct=res.distinct, generated=res.generated,
                         depth=res.depth, wall=res.wall))


ALPHABET = (1, 2, 3, 4, 5)


def plan_jobs(tier, rnd):
    """The TLC jobs of a tier.  quick: the state space of Text_mc.cfg, cut by
    the first character so that the jobs run side by side.  thorough: typed
    texts up to 5 characters exhaustively, random texts of 6..8 characters,
    more numbers (random ties) and longer formats."""
    jobs = []

    def add(label, name, **consts):
        module, d = job_module(name, **consts)
        jobs.append(dict(label=label, module=module, dir=d))

    if tier == 'quick':
        maxlen, fmtmax = 4, 5
        add('numbers and formats', 'MC_TextN', seeds=[()], maxlen=0,
            nums='MCNums', fmtmax='MCFmtMax')
        add('magnitudes', 'MC_TextS', seeds=[()], maxlen=0, nums=[], fmtmax=0,
            scaled='MCScaled')
        for a in ALPHABET:
            add(f'texts {CH[a]!r}..', f'MC_TextP{a}', seeds=[(a,)],
                maxlen='MCMaxLen', nums=[], fmtmax=0)
        row_prob, text_row_prob, workers, procs = 0.35, 0.04, 3, 8
    else:
        maxlen, fmtmax = 5, 8
        ties = tie_numbers(rnd, 60)
        add('numbers and formats', 'MC_TextN', seeds=[()], maxlen=0,
            nums='MCNums \\cup ' + _tla_set(f'<<{k}, {j}>>' for k, j in ties),
            fmtmax=fmtmax)
        # the decimal point of 1, -2.5, 1203 and of random numbers of up to
        # nine digits is moved through every magnitude of MCScaleJ
        for i in range(2):
            ks = {1203} if i == 0 else set()
            while len(ks) < 3:
                k = rnd.randrange(1, 10 ** rnd.randrange(1, 10)) * rnd.choice((1, 1, -1))
                if k % 10:
                    ks.add(k)
            scaled = _tla_set(f'<<{k}, 0>>' for k in sorted(ks))
            add(f'magnitudes ({i})', f'MC_TextS{i}', seeds=[()], maxlen=0, nums=[],
                fmtmax=0, scaled=('MCScaled \\cup ' if i == 0 else '') + scaled)
        for a in ALPHABET:
            add(f'texts {CH[a]!r}..', f'MC_TextP{a}', seeds=[(a,)],
                maxlen=maxlen, nums=[], fmtmax=0)
        # beyond the exhaustive bound: random texts of 6, 7 (and so 8)
        # characters, each extended by every character once more
        for i, n in enumerate((6, 6, 6, 6, 7, 7, 7, 7)):
            seeds = sorted({tuple(rnd.choice(ALPHABET) for _ in range(n))
                            for _ in range(60)})
            add(f'random texts of {n}..{n + 1} characters ({i})', f'MC_TextL{i}',
                seeds=seeds, maxlen=n + 1, nums=[], fmtmax=0)
        row_prob, text_row_prob, workers, procs = 0.3, 0.01, 3, 7
    # several small JVMs run side by side: few GC threads each; the short
    # jobs of the quick tier finish before the optimising JIT pays off
    jvm = '-XX:ParallelGCThreads=2' + (
        ' -XX:TieredStopAtLevel=1' if tier == 'quick' else '')
    for job in jobs:
        job.update(cfg=os.path.join(tlc.SPEC, 'Text_big.cfg'), workers=workers,
                   env={'JDK_JAVA_OPTIONS': jvm},
                   heap='1g' if tier == 'quick' else '2g',
                   seed=rnd.randrange(2 ** 31), row_prob=row_prob,
                   text_row_prob=text_row_prob)
    return jobs, procs, maxlen, fmtmax


def run(tier, seed):
    v = Verdict(PID, tier, seed)
    v.distinct = _Count()
    rnd = random.Random(seed)
    import pycel.lib.text            # noqa  (imported before the fork)
    tlc.scratch_dir()                # one scratch directory, owned by the parent
    jobs, procs, maxlen, fmtmax = plan_jobs(tier, rnd)

    total = dict.fromkeys(Driver.COUNTERS, 0)
    per_fn, seen_char, seen_fmt = {}, set(), set()
    samples, text_samples, longest = [], [], 0
    ctx = multiprocessing.get_context('fork')
    # (no threads in this process: the workers are forked)
    with concurrent.futures.ProcessPoolExecutor(procs, mp_context=ctx) as pool:
        cov_fut = pool.submit(coverage_run)
        futs = [pool.submit(job_worker, job) for job in jobs]
        try:
            for fut in futs:
                out = fut.result()
                v.add_tlc(_Res(out['tlc']), out['label'])
                v.traces += out['vectors']
                for c in Driver.COUNTERS:
                    total[c] += out[c]
                for fn, n in out['per_fn'].items():
                    per_fn[fn] = per_fn.get(fn, 0) + n
                v.violations.extend(out['violations'])
                seen_char.update(out['seen_last_char'])
                seen_fmt.update(out['seen_last_fmt'])
                samples += out['samples']
                text_samples += out['text_samples']
                longest = max(longest, out['maxlen_seen'])
            cov = cov_fut.result()
        except BaseException:
            for fut in futs:
                fut.cancel()
            raise
    v.add_tlc(_Res(cov['tlc']), 'Text_cov (TypeOK only, -coverage)')
    # the first replay files should show every failing function, not only
    # the first job's: interleave the kept discrepancies by function
    by_fn = {}
    for viol in v.violations:
        by_fn.setdefault((viol['case']['fn'], viol['case']['via']), []).append(viol)
    v.violations = [x for group in itertools.zip_longest(*by_fn.values())
                    for x in group if x is not None]
    v.evaluations = total['judged']
    v.distinct.n = total['judged']
    for smp in samples[:4] + text_samples[:3]:
        v.sample(smp, limit=7)

    # non-vacuity of the law-checking runs, from what they exported
    if seen_char != {CH[c] for c in ALPHABET}:
        raise tlc.MachineryFailure(
            f'vacuous: AppendChar outcomes seen {sorted(seen_char)}')
    if seen_fmt != set('0#,.%'):
        raise tlc.MachineryFailure(
            f'vacuous: AppendFmt outcomes seen {sorted(seen_fmt)}')
    if not (total['slice_states'] and total['text_states'] and total['formula_cells']):
        raise tlc.MachineryFailure('vacuous: no slicing / TEXT / formula vectors')
    if not (total['scientific_states'] and total['tiny_states']
            and total['number_states'] > total['scientific_states'] + total['tiny_states']
            and total['agreement_inputs'] > total['number_states']):
        raise tlc.MachineryFailure(
            'vacuous: Scale did not reach the exponent notation / the numbers '
            'below 0.0001 / the magnitudes that are not judged')
    if longest != (maxlen if tier == 'quick' else 8):
        raise tlc.MachineryFailure(f'vacuous: longest typed text seen {longest}')
    if total['unjudged_raised']:
        v.note(f"{total['unjudged_raised']} unjudged call(s) raised an exception "
               '(inputs the statement does not fix; not a verdict)')
    if total['len_whole_float']:
        v.note(f"LEN of a whole float not judged ({total['len_whole_float']} "
               'inputs): LEN(3.0) = 3 is pinned by tests/lib/test_text.py::'
               'test_len_ although Excel has no 3.0')
    if total['nviolations'] > len(v.violations):
        v.note(f"{total['nviolations']} discrepancies in all, "
               f'{len(v.violations)} kept')

    v.extra.update(
        exhaustive=True,      # typed texts up to the bound; longer ones sampled
        sampled_beyond_bound=(tier != 'quick'),
        bounds=dict(alphabet=[CH[c] for c in ALPHABET],
                    typed_text_exhaustive_up_to=maxlen,
                    longest_text=longest,
                    positions='-1..10, and n + 0.5, n + 0.9 for n in 0..10',
                    new_texts=['', 'b', CH[8] + 'a', '3 (also passed as 3 and 3.0)'],
                    numbers='k/10^j of MCNums; 1, -2.5 (thorough: also 1203 and random '
                            'numbers of up to 9 digits) at every magnitude '
                            '10^-25..10^22, as int / whole float / double',
                    search_texts='all texts of length <= 2 over the alphabet '
                                 '+ the pieces of the text itself',
                    text_format_max_len=fmtmax),
        laws_checked_by_tlc=LAWS,
        coverage_actions=cov['coverage'],
        tlc_jobs=len(jobs),
        slicing_states=total['slice_states'],
        number_states=total['number_states'],
        number_states_in_exponent_notation=total['scientific_states'],
        number_states_below_1e_4=total['tiny_states'],
        numbers_checked_for_agreement=total['agreement_inputs'],
        text_states=total['text_states'],
        format_prefix_states=total['prefix_states'],
        formula_cells_evaluated=total['formula_cells'],
        judged_calls_per_function=dict(sorted(per_fn.items())),
        unjudged_calls=total['unjudged'],
        unjudged_text_vectors=total['text_unjudged'],
        len_of_whole_float_not_judged=total['len_whole_float'],
        calls_with_fractional_position_or_count=total['fractional'],
        discrepancies_total=total['nviolations'],
        rule='one case = one call (function, arguments) of the wrapped '
             'library function or one formula cell; all cases of a run are '
             'distinct inputs by construction (distinct TLC states x distinct '
             'argument tuples); typed texts exhaustive up to the bound, every '
             'n, k in -1..10',
        unjudged_classes=[
            'MID / FIND with start < 1 (statement only fixes negative counts)',
            'FIND of the empty text from start = LEN+1 (start or #VALUE! allowed)',
            'SUBSTITUTE with an instance < 1',
            'a negative position / count with a fraction (-0.5)',
            'TEXT of a negative number that rounds to zero (-0.00 vs 0.00)',
            'LEN of a whole float (pinned by the repository tests)',
            'the notation (positional or exponent) of a number in '
            '[1E15, 1E20) and of a number below 1E-9 whose positional notation '
            'fits 20 characters: only CONCATENATE = & = what LEFT / MID / RIGHT / '
            'LEN see, and that it is a numeral for the number, are judged',
            'numbers of more than 15 significant digits (0.1+0.2): not enumerated'])
    v.assumptions = [
        'TLC evaluates the definitions of Text.tla correctly',
        'the double nearest k/10^j (|k| < 10^10) is the number k/10^j for Excel: '
        'its 15 significant digits are those of k',
        "Excel's General notation is taken as certain only for 1E-9 <= |x| < 1E15 "
        '(positional), |x| >= 1E20 and |x| < 1E-9 needing more than 20 characters '
        '(exponent)',
        'action coverage measured with TypeOK only (Text_cov.cfg); the '
        'law-checking runs are checked for non-vacuity through their vectors']
    return v.finish()


def replay(path):
    """re-execute one recorded violation"""
    import re
    with open(path) as f:
        rec = json.load(f)
    case = rec['case']
    from pycel.lib import text as T
    from pycel.lib.function_helpers import apply_meta
    if case.get('law') == 'agreement':
        # the expected value was what CONCATENATE made of the number: run the
        # agreement checks for this number again
        drv = Driver(random.Random(0), 0, 0)
        drv.agreement(case['x'])
        drv.flush_num_rows()
        print(rec['desc'])
        for viol in drv.violations[:5]:
            print('  now:', viol['desc'])
        if not drv.violations:
            print(f'{PID}: replay OK (no longer reproduces)')
            return 0
        print(f'VIOLATION property={PID} replay={path}')
        return 1
    try:
        if case.get('via') == 'library' and case['fn'] == 'amp':
            got = amp_operator()(*case['args'])
        elif case.get('via') == 'library':
            got = apply_meta(getattr(T, case['fn']), name_space={})[0](*case['args'])
        else:
            cells = {f'{c}1': x for c, x in case['cells'].items()}
            got = xl.evalf(re.sub(r'\b([A-F])\d+', r'\g<1>1', case['formula']), cells)
    except Exception as exc:            # noqa
        got = exc
    want = case['want']
    wants = want if isinstance(want, list) else [want]
    ok = not isinstance(got, Exception) and any(
        xl.same_value(got, w) for w in wants)
    print(f"{rec['desc']}\n  now: {got!r}  expected: {want!r}")
    if ok:
        print(f'{PID}: replay OK (no longer reproduces)')
        return 0
    print(f'VIOLATION property={PID} replay={path}')
    return 1
