"""X01 -- logical and information functions (extra coverage module).

  AND OR XOR NOT IF IFERROR IFNA IFS SWITCH CHOOSE ISBLANK ISERR ISERROR ISNA
  ISLOGICAL ISNUMBER ISTEXT ISNONTEXT ISEVEN ISODD N NA

Spec: spec/Logical.tla (every function as the set of results Excel's
documented behaviour allows, on the value universe of spec/ExcelValues.tla; an
enumerator that builds argument lists one argument at a time from small mixed
pools; the laws De Morgan, parity, fold, commutation, first error, NOT NOT,
IFERROR/IFNA, IF picks one branch, the omitted branch, ISERR, the type
partition, IFS = chain of IFs, SWITCH default / hit / miss, CHOOSE i-th,
even/odd, N -- checked by TLC on the definitions).
Binding: every state visited by TLC is exported (function, arguments, allowed
results) and executed on the real code three ways where applicable:
  library   the function of pycel.lib.logical / information / lookup, with
            its metadata applied the way the test-suite loads it;
  cells     a compiled formula with every scalar argument in a cell of its own
            and every range argument a real range of cells;
  literal   a compiled formula with the arguments written into it.
The result must be one of the allowed values, type-exact (TRUE is not 1).  An
exception escaping a worksheet function is a discrepancy.
"""
import json
import os
import random
from fractions import Fraction

from openpyxl.utils import get_column_letter

from harness import tlc, xl
from harness.checks.c10 import (JVM, brief, cell_content, is_universe_number, literal,
                                mismatch, py_variants, show, tla_value)
from harness.evidence import Verdict

PID = 'X01'
ERRORS = ['#NULL!', '#DIV/0!', '#VALUE!', '#REF!', '#NAME?', '#NUM!', '#N/A']
JUNCTIONS = ('AND', 'OR', 'XOR')
# Excel name -> (module of pycel.lib, python name)
TABLE = {
    'AND': ('logical', 'and_'), 'OR': ('logical', 'or_'), 'XOR': ('logical', 'xor_'),
    'NOT': ('logical', 'not_'), 'IF': ('logical', 'if_'), 'IFERROR': ('logical', 'iferror'),
    'IFNA': ('logical', 'ifna'), 'IFS': ('logical', 'ifs'), 'SWITCH': ('logical', 'switch'),
    'CHOOSE': ('lookup', 'choose'),
    'ISBLANK': ('information', 'isblank'), 'ISERR': ('information', 'iserr'),
    'ISERROR': ('information', 'iserror'), 'ISNA': ('information', 'isna'),
    'ISLOGICAL': ('information', 'islogical'), 'ISNUMBER': ('information', 'isnumber'),
    'ISTEXT': ('information', 'istext'), 'ISNONTEXT': ('information', 'isnontext'),
    'ISEVEN': ('information', 'iseven'), 'ISODD': ('information', 'isodd'),
    'N': ('information', 'n'), 'NA': ('information', 'na'),
}
CHUNK = 300          # vectors per workbook
BLOCK_ROWS = 4       # rows per vector (the longest range has 4 cells)
BLOCK_COLS = 4       # columns per argument
COL_CELLS = get_column_letter(60)
COL_LIT = get_column_letter(61)
WORKERS = 4
SAMPLED_ROUNDS = 3


def load_library():
    """the worksheet functions with their metadata applied, as
    pycel.lib.function_helpers.load_to_test_module does for the test-suite"""
    import importlib
    from pycel.lib.function_helpers import apply_meta
    out = {}
    for name, (mod, py) in TABLE.items():
        module = importlib.import_module('pycel.lib.' + mod)
        out[name] = apply_meta(getattr(module, py), name_space={})[0]
    return out


# ---------------------------------------------------------------------------
# judging

def conforms(got, allow):
    """None if got is one of the allowed results, else a short reason"""
    if isinstance(got, BaseException):
        return f'raised {type(got).__name__}: {str(got)[:120]}'
    why = []
    for want in allow:
        if want[0] == 'Z':
            # the blank cell handed back: shows as 0
            if got is None or (is_universe_number(got) and got == 0):
                return None
            why.append(f'{brief(got, 60)} ({type(got).__name__}) is not blank/0')
        elif want[0] == 'U' and got is None:
            return None          # not modelled: any value, also the blank handed back
        else:
            w = mismatch(got, want)
            if w is None:
                return None
            why.append(w)
    return '; '.join(why)


def show_arg(f, a):
    if f in JUNCTIONS:
        kind, val = a
        if kind == 'lit':
            return show(val)
        if kind == 'ref':
            return f'cell[{show(val)}]'
        return 'range[' + ', '.join(show(x) for x in val) + ']'
    return show(a)


def show_call(vec):
    return f"{vec['f']}(" + ', '.join(show_arg(vec['f'], a) for a in vec['args']) + ')'


# ---------------------------------------------------------------------------
# the three ways to execute a vector

def library_args(vec, variant, orient):
    """python arguments of the library call, None if the call cannot be expressed
    (text given directly to AND/OR/XOR: the function cannot tell it from a cell)"""
    out = []
    for p, a in enumerate(vec['args']):
        if vec['f'] in JUNCTIONS:
            kind, val = a
            if kind == 'rng':
                vals = [pick(x, variant) for x in val]
                out.append(tuple((x,) for x in vals) if orient[p] == 'col' else (tuple(vals),))
                continue
            if kind == 'lit' and val[0] == 'S':
                return None
            out.append(pick(val, variant))
        else:
            out.append(pick(a, variant))
    return out


def pick(val, variant):
    vs = py_variants(val)
    return vs[min(variant, len(vs) - 1)]


def has_integral(vec):
    def vals():
        for a in vec['args']:
            if vec['f'] in JUNCTIONS:
                if a[0] == 'rng':
                    yield from a[1]
                else:
                    yield a[1]
            else:
                yield a
    return any(v[0] == 'N' and v[2] == 1 for v in vals())


def cells_formula(vec, row0, orient, cells):
    """write the arguments into cells (block of rows from row0), return the formula"""
    refs = []
    for p, a in enumerate(vec['args']):
        col0 = 1 + p * BLOCK_COLS
        if vec['f'] in JUNCTIONS:
            kind, val = a
        else:
            kind, val = 'ref', a
        if kind == 'lit':
            refs.append(literal(val))
        elif kind == 'ref':
            addr = f'{get_column_letter(col0)}{row0}'
            cc = cell_content(val)
            if cc is not None:
                cells[addr] = cc
            refs.append(addr)
        else:
            addrs = []
            for i, x in enumerate(val):
                addr = f'{get_column_letter(col0)}{row0 + i}' if orient[p] == 'col' \
                    else f'{get_column_letter(col0 + i)}{row0}'
                cc = cell_content(x)
                if cc is not None:
                    cells[addr] = cc
                addrs.append(addr)
            refs.append(f'{addrs[0]}:{addrs[-1]}')
    return f"={vec['f']}(" + ','.join(refs) + ')'


def literal_formula(vec):
    """the call with every argument written into the formula; None if some
    argument has no literal spelling (blank, a cell, a range)"""
    lits = []
    for a in vec['args']:
        if vec['f'] in JUNCTIONS:
            if a[0] != 'lit':
                return None
            a = a[1]
        s = literal(a)
        if s is None:
            return None
        lits.append(s)
    return f"={vec['f']}(" + ','.join(lits) + ')'


def has_cell_args(vec):
    if not vec['args']:
        return False
    if vec['f'] in JUNCTIONS:
        return any(a[0] != 'lit' for a in vec['args'])
    return True


def evaluate_cells(cells, targets):
    model = xl.compile_wb(cells)
    out = {}
    for addr in targets:
        try:
            out[addr] = model.evaluate('S!' + addr)
        except Exception as exc:   # noqa
            out[addr] = exc
    return out


def orientations(vec, rnd):
    return [rnd.choice(('col', 'row')) for _ in vec['args']]


def run_formulas(job):
    """worker: one chunk of vectors through compiled formulas
    -> list of (index in chunk, mode, formula, result or exception text)"""
    chunk, orients = job
    cells, plan = {}, []
    for r, (vec, orient) in enumerate(zip(chunk, orients)):
        row0 = 1 + r * BLOCK_ROWS
        if has_cell_args(vec):
            f = cells_formula(vec, row0, orient, cells)
            cells[f'{COL_CELLS}{row0}'] = f
            plan.append((r, 'cells', f, f'{COL_CELLS}{row0}'))
        f = literal_formula(vec)
        if f is not None:
            cells[f'{COL_LIT}{row0}'] = f
            plan.append((r, 'literal', f, f'{COL_LIT}{row0}'))
    got = evaluate_cells(cells, [p[3] for p in plan])
    out = []
    for r, mode, f, addr in plan:
        g = got[addr]
        if isinstance(g, BaseException):
            g = ('EXC', type(g).__name__, str(g)[:200])
        out.append((r, mode, f, g))
    return out


class Raised(Exception):
    pass


def revive(g):
    """results cross the process boundary; exceptions travel as tuples"""
    if isinstance(g, tuple) and len(g) == 3 and g[0] == 'EXC':
        exc = Raised(g[2])
        exc.__class__ = type(g[1], (Raised,), {})
        return exc
    return g


# ---------------------------------------------------------------------------
# TLC

def run_tlc(v, module, cfg, spec_dir, label, library=None):
    res = tlc.run(module, cfg, spec_dir=spec_dir, workers=WORKERS, timeout=800,
                  library=library, heap='4g', env=JVM)
    if not res.ok:
        raise tlc.MachineryFailure(
            f'Logical model ({label}) violates {res.violated}:\n' + res.stdout[-2500:])
    vectors = res.json
    if len(vectors) != res.distinct:
        # interleaved PrintT lines: repeat single-threaded
        res = tlc.run(module, cfg, spec_dir=spec_dir, workers=1, timeout=800,
                      library=library, heap='4g', env=JVM)
        vectors = res.json
        if not res.ok or len(vectors) != res.distinct:
            raise tlc.MachineryFailure(
                f'export incomplete ({label}): {len(vectors)} vectors for '
                f'{res.distinct} states')
    v.add_tlc(res, label)
    return res, vectors


def check_export(vectors, label):
    """completeness and non-vacuity, from the export itself (-coverage does not
    terminate on the deeply nested definitions of ExcelValues)"""
    pool_size = {}
    sigs = {}
    for x in vectors:
        sigs[x['at'][0]] = (x['f'], tuple(x['sig']))
        for p, idx in enumerate(x['at'][1:]):
            name = x['sig'][p]
            pool_size[name] = max(pool_size.get(name, 0), idx)
    seen = {}
    for x in vectors:
        key = (x['at'][0], len(x['at']) - 1)
        seen.setdefault(key, set()).add(tuple(x['at']))
    total = 0
    for fi, (f, sig) in sigs.items():
        expect = 1
        for n in range(len(sig) + 1):
            if n:
                expect *= pool_size[sig[n - 1]]
            have = len(seen.get((fi, n), ()))
            if have != expect:
                raise tlc.MachineryFailure(
                    f'{label}: {f} with {n} argument(s): {have} vectors, expected {expect}')
            total += expect
    if total != len(vectors):
        raise tlc.MachineryFailure(f'{label}: {len(vectors)} vectors, expected {total}')
    missing = set(TABLE) - {f for f, _ in sigs.values()}
    if missing:
        raise tlc.MachineryFailure(f'{label}: functions never enumerated: {sorted(missing)}')
    taken = dict(
        Init=sum(1 for x in vectors if len(x['at']) == 1),
        AppendValue=sum(1 for x in vectors if len(x['at']) > 1
                        and x['sig'][len(x['at']) - 2] not in ('I', 'J')),
        AppendItem=sum(1 for x in vectors if len(x['at']) > 1
                       and x['sig'][len(x['at']) - 2] in ('I', 'J')))
    for act, cnt in taken.items():
        if not cnt:
            raise tlc.MachineryFailure(f'vacuous: action {act} never taken ({label})')
    ante = {}
    for x in vectors:
        for k, b in x['ante'].items():
            ante[k] = ante.get(k, 0) + b
    for k, c in ante.items():
        if c == 0:
            raise tlc.MachineryFailure(f'vacuous: antecedent of law {k} never held ({label})')
    for x in vectors:
        if bool(x['ok']) != bool(x['allow']):
            raise tlc.MachineryFailure(f'{label}: call without allowed result: {x}')
    return pool_size, taken, ante


# ---------------------------------------------------------------------------
# binding

class Binder:
    def __init__(self, v, rnd):
        self.v, self.rnd = v, rnd
        self.lib = load_library()
        self.by_mode = {'library': 0, 'cells': 0, 'literal': 0}
        self.by_function = {}
        self.unmodelled = 0
        self.relations = 0
        self.no_library_form = 0
        self.allow_of = {}

    def judge(self, mode, vec, got, extra):
        v = self.v
        v.case((mode, vec['f'], json.dumps(vec['args']), extra.get('variant', ''),
                extra.get('orient', '')))
        self.by_mode[mode] += 1
        self.by_function[vec['f']] = self.by_function.get(vec['f'], 0) + 1
        why = conforms(got, vec['allow'])
        if why and vec['f'] in JUNCTIONS and any(
                k == 'lit' and x[0] == 'S' for k, x in vec['args']):
            # known finding D64: text written directly into AND/OR/XOR is ignored
            # like text in a cell.  Attributed only when the result is exactly
            # what the call without those arguments gives (or #VALUE! when
            # nothing is left)
            rest = [a for a in vec['args'] if not (a[0] == 'lit' and a[1][0] == 'S')]
            pred = self.allow_of.get((vec['f'], json.dumps(rest))) if rest else [['E', '#VALUE!']]
            if pred is not None and conforms(got, pred) is None:
                v.known_finding('D64', f"[{mode}] {show_call(vec)}: {why}", dict(
                    mode=mode, f=vec['f'], args=vec['args'], got=brief(got, 200), **extra))
                return
        if why:
            allowed = ' or '.join(show(w) if w[0] != 'Z' else 'blank(0)' for w in vec['allow'])
            v.violation(
                f"[{mode}] {show_call(vec)}: allowed {allowed}; {why}"
                + (f" ({extra['formula']})" if 'formula' in extra else ''),
                dict(mode=mode, f=vec['f'], args=vec['args'], allow=vec['allow'],
                     got=brief(got, 200), **extra))

    def library(self, vec, orient):
        variants = (0, 1) if has_integral(vec) else (0,)
        for variant in variants:
            pa = library_args(vec, variant, orient)
            if pa is None:
                self.no_library_form += 1
                return
            try:
                got = self.lib[vec['f']](*pa)
            except Exception as exc:   # noqa  an escaping exception is a discrepancy
                got = exc
            self.judge('library', vec, got, dict(
                variant='int' if variant == 0 else 'float', orient=''.join(o[0] for o in orient),
                call=brief(pa, 200)))

    def vectors(self, vectors, label, parallel=False):
        v = self.v
        calls = [x for x in vectors if x['ok']]
        for x in calls:
            if x['f'] in JUNCTIONS:
                self.allow_of[(x['f'], json.dumps(x['args']))] = x['allow']
        orients = [orientations(x, self.rnd) for x in calls]
        for vec, orient in zip(calls, orients):
            if any(w[0] == 'U' for w in vec['allow']):
                self.unmodelled += 1
            elif len(vec['allow']) > 1:
                self.relations += 1
            v.sample(dict(call=show_call(vec), allowed=[show(w) for w in vec['allow']]), limit=8)
            self.library(vec, orient)
        jobs = [(calls[s:s + CHUNK], orients[s:s + CHUNK]) for s in range(0, len(calls), CHUNK)]
        if parallel and len(jobs) > 1:
            from harness.parallel import run_jobs
            results = run_jobs(run_formulas, jobs, workers=WORKERS)
        else:
            results = [run_formulas(j) for j in jobs]
        for (chunk, ors), out in zip(jobs, results):
            for r, mode, f, g in out:
                self.judge(mode, chunk[r], revive(g), dict(
                    formula=f, orient=''.join(o[0] for o in ors[r])))
        return len(calls)


# ---------------------------------------------------------------------------
# sampled pools (thorough tier)

def S(s):
    return ['S', [ord(ch) for ch in s]]


def sampled_pools(rnd):
    """random numbers (small and large, negative, finite decimals), words in
    random case, the words TRUE/FALSE in random case, numerals as text,
    logicals, blank, two random errors; the items of AND/OR/XOR drawn from them"""
    pool, seen = [], set()

    def add(val):
        k = json.dumps(val)
        if k not in seen:
            seen.add(k)
            pool.append(val)
            return True
        return False

    def num():
        kind = rnd.randrange(4)
        if kind == 0:
            n, d = rnd.randint(-9, 9), 1
        elif kind == 1:
            n, d = rnd.randint(-99999, 99999), 1
        else:
            n, d = rnd.randint(-9999, 9999), rnd.choice((2, 4, 5, 8, 10, 100, 1000))
        fr = Fraction(n, d)
        return ['N', fr.numerator, fr.denominator]

    def recase(w):
        return ''.join(ch.upper() if rnd.random() < 0.5 else ch.lower() for ch in w)

    def word():
        return S(recase(''.join(rnd.choice('abcxyzq') for _ in range(rnd.randint(1, 4)))))

    def numeral():
        s = rnd.choice(['', '-', '+', ''])
        ip = str(rnd.randint(0, 99))
        fp = ('.' + str(rnd.randint(0, 99))) if rnd.random() < 0.4 else ''
        return S(s + ip + fp)

    add(['N', 0, 1])
    d = rnd.choice((1, 2, 4, 10))              # a number CHOOSE can use: in [1, 4)
    fr = Fraction(rnd.randint(1, 3) * d + rnd.randrange(d), d)
    add(['N', fr.numerator, fr.denominator])
    for gen, cnt in ((num, 7), (word, 3), (numeral, 2)):
        have = 0
        for _ in range(200):
            if have >= cnt:
                break
            have += add(gen())
    add(S(recase('true')))
    add(S(recase('false')))
    add(S(''))
    add(['B', 1])
    add(['B', 0])
    add(['Z'])
    for e in rnd.sample(ERRORS, 2):
        add(['E', e])
    items = [['lit', x] for x in pool if x[0] != 'Z']
    for x in rnd.sample(pool, 8):
        items.append(['ref', x])
    for _ in range(8):
        items.append(['rng', [rnd.choice(pool) for _ in range(rnd.randint(1, 4))]])
    return pool, items


def tla_item(item):
    kind, val = item
    if kind == 'lit':
        return f'Lit({tla_value(val)})'
    if kind == 'ref':
        return f'Ref({tla_value(val)})'
    return 'Rng(<<' + ', '.join(tla_value(x) for x in val) + '>>)'


def write_sampled_module(pool, items):
    d = tlc.new_scratch('logical')
    with open(os.path.join(d, 'MC_LogicalT.tla'), 'w') as f:
        f.write('---- MODULE MC_LogicalT ----\nEXTENDS MC_Logical\nTPoolP == <<\n  '
                + ',\n  '.join(tla_value(x) for x in pool) + ' >>\nTPoolI == <<\n  '
                + ',\n  '.join(tla_item(x) for x in items) + ' >>\n'
                + 'TPools == [P |-> TPoolP, M |-> PoolM, W |-> PoolW, R |-> PoolR, '
                  'I |-> TPoolI, J |-> PoolJ]\n====\n')
    with open(os.path.join(d, 'T.cfg'), 'w') as f:
        f.write(open(os.path.join(tlc.SPEC, 'Logical_mc.cfg')).read()
                .replace('Pools <- MCPools', 'Pools <- TPools'))
    return d


# ---------------------------------------------------------------------------

def run(tier, seed):
    v = Verdict(PID, tier, seed)
    rnd = random.Random(seed)
    binder = Binder(v, rnd)

    cfg = 'Logical_mc.cfg' if tier == 'quick' else 'Logical_big.cfg'
    res, vectors = run_tlc(v, 'MC_Logical', cfg, tlc.SPEC, cfg[:-4])
    pool_size, taken, ante = check_export(vectors, cfg[:-4])
    calls = binder.vectors(vectors, cfg[:-4], parallel=(tier == 'thorough'))
    v.traces += calls
    extra = dict(exhaustive=True, functions=sorted(TABLE), pool_sizes=pool_size,
                 vectors=len(vectors), calls=calls, actions_taken=taken,
                 law_antecedents=ante)

    if tier == 'thorough':
        # same machine, same laws, random pools
        sampled = []
        for round_ in range(SAMPLED_ROUNDS):
            pool, items = sampled_pools(rnd)
            d = write_sampled_module(pool, items)
            label = f'Logical_sampled{round_ + 1}'
            res_s, vec_s = run_tlc(v, 'MC_LogicalT', os.path.join(d, 'T.cfg'), d, label,
                                   library=tlc.SPEC)
            check_export(vec_s, label)
            calls_s = binder.vectors(vec_s, label, parallel=True)
            v.traces += calls_s
            sampled.append(dict(pool=[show(x) for x in pool], calls=calls_s,
                                items=[show_arg('AND', x) for x in items[len(pool) - 1:]]))
        extra.update(sampled=sampled)

    extra.update(
        evaluations_by_mode=binder.by_mode,
        evaluations_by_function=binder.by_function,
        calls_with_unmodelled_result=binder.unmodelled,
        calls_with_more_than_one_allowed_result=binder.relations,
        calls_without_library_form=binder.no_library_form,
        rule='one case = (mode, function, arguments, concrete number types, range '
             'orientation); modes: library call, formula over cells/ranges, formula '
             'with literal arguments; a result must be one of the allowed values of '
             'spec/Logical.tla, type-exact; a blank handed back may show as 0',
        relations=['IFERROR/IFNA handing back a blank cell: blank(0) or ""',
                   'SWITCH: blank against 0, "", FALSE matches or not',
                   'SWITCH with an error among values/results/default: lazy (error value '
                   'ends the search or is skipped) or the first error in argument order',
                   'AND/OR/XOR with both directly given non-logical text and an error: '
                   '#VALUE! or the first error',
                   'ISEVEN/ISODD of numeric text: parity or #VALUE!',
                   'N(blank): 0 or the blank itself'],
        not_judged=['CHOOSE with the text TRUE/FALSE as index (text-to-number conversion '
                    'left open by ExcelValues)',
                    'empty arguments (IF(c,a,) AND(TRUE,)), array constants, ranges as '
                    'arguments of the scalar functions, two-dimensional ranges',
                    'AND/OR/XOR on text given directly through the library call (the '
                    'function cannot tell it from a cell): formulas only'])
    v.extra.update(extra)
    if v.violations:
        # one representative of every (function, mode) first: only the first 20 are
        # written out as replays
        groups = {}
        for viol in v.violations:
            groups.setdefault((viol['case']['f'], viol['case']['mode']), []).append(viol)
        v.note('discrepancies by function and mode: ' + ', '.join(
            f'{f}/{m}: {len(g)}' for (f, m), g in sorted(groups.items())))
        depth = max(len(g) for g in groups.values())
        v.violations = [g[i] for i in range(depth) for _, g in sorted(groups.items())
                        if i < len(g)]
    v.assumptions = ['TLC evaluates the definitions of Logical/ExcelValues correctly',
                     'a reference to a single cell and a value are the same thing for '
                     'the library call; text given directly to AND/OR/XOR exists in '
                     'formulas only',
                     'text restricted to printable ASCII']
    return v.finish()


def replay(path):
    """re-run one recorded discrepancy"""
    with open(path) as f:
        rec = json.load(f)
    case = rec['case']
    vec = dict(f=case['f'], args=case['args'], allow=case['allow'])
    orient = ['col' if ch == 'c' else 'row' for ch in case.get('orient', '')] \
        or ['col'] * len(vec['args'])
    mode = case['mode']
    if mode == 'library':
        pa = library_args(vec, 0 if case.get('variant') == 'int' else 1, orient)
        try:
            got = load_library()[vec['f']](*pa)
        except Exception as exc:   # noqa
            got = exc
    else:
        cells = {}
        f = cells_formula(vec, 1, orient, cells) if mode == 'cells' else literal_formula(vec)
        cells['BZ1'] = f
        got = evaluate_cells(cells, ['BZ1'])['BZ1']
    why = conforms(got, vec['allow'])
    print(f"replay {rec['desc']}\n  now: {brief(got, 200)}")
    if why:
        print(f'VIOLATION property={PID} replay={path}\n  {why}')
        return 1
    print(f'{PID}: replayed case now conforms')
    return 0
