"""X02 -- functions that compute references (OFFSET, INDIRECT) and the
functions that consume them (extra coverage module).

Claim: a computed reference denotes a rectangle of cells; any worksheet
function applied to it gives exactly what it gives for the same rectangle
written out as an ordinary reference; OFFSET / INDIRECT compute the rectangle
Excel documents.

Spec: spec/RefCompute.tla.  OffsetRect (default height / width, #REF! off the
sheet and for a height or width of 0), Indirect (the reading of A1 text: cells
and ranges, sheet prefix plain or quoted, "$" ignored, lower case accepted,
anything else #REF!; readings Excel may accept but the statement does not
cover are "open"), ROW / COLUMN / ROWS / COLUMNS of a rectangle, the written
reference of a rectangle.  TLC checks the laws (OffsetIdentity, OffsetCells,
OffsetShape, OffsetCompose, OffsetStep, OffsetTranslate, IndirectRoundTrip,
WrittenRoundTrip, TextLaws) on three enumerator machines and exports one
vector per state: the arguments, the rectangle (or #REF!), its written A1
reference.

Binding: the verdict is differential and needs no Excel oracle.  For every
vector a workbook is built whose grid A1:F8 (and the far corner of the sheet,
and a second sheet) holds distinguishable values -- powers of two, one text,
one logical, one blank, two formula cells; in a second environment also an
error value and a formula giving an error -- and for every consumer F of the
catalogue  =F(OFFSET(..)) / =F(INDIRECT(".."))  is compared with
=F(<the written reference>) evaluated in the same compiled workbook (every
formula once, on a fresh model, no set_value).  The computed form is written
with literal arguments and with the arguments in cells of their own.  Where
the rectangle is #REF! the written form is the literal #REF!.  Besides, the
bare formula must give the top left cell of the rectangle (evaluate() of its
address in the same model), ROW / COLUMN the exported origin, a #REF! result
the error value #REF!.  A consumer is skipped for a vector (and counted) when
the written form itself raises or is not supported by pycel.

Every vector runs the core catalogue (literal arguments: bare, SUM, ROW,
COLUMN, INDEX of the last cell; arguments in cells: SUM; a height / width of 0
and text that is no reference: the bare formula); a seeded sample stratified
by (function, shape of the result, which optional arguments are given, and in
the thorough tier sheet prefix, window, style of the text) runs the full
catalogue in both environments.
"""
import json
import os
import random
import time

from openpyxl.utils import get_column_letter as LET

from harness import tlc, xl
from harness.evidence import Verdict

PID = 'X02'
JVM = {'JAVA_TOOL_OPTIONS': '-XX:ParallelGCThreads=2 -XX:CICompilerCount=2'}
MAX_COL, MAX_ROW = 16384, 1048576
GRID_COLS, GRID_ROWS = 6, 8
ERRORS = ('#NULL!', '#DIV/0!', '#VALUE!', '#REF!', '#NAME?', '#NUM!', '#N/A')
REF = '#REF!'
TLC_WORKERS = 4
# formula area: far from every rectangle a vector can name
AREA_COL0, AREA_COLS, AREA_ROW0 = 20, 100, 40
CHUNK = 1500               # formula cells per workbook
BUDGET = {'quick': dict(workers=4, coarse=True, offset_per_stratum=2, indirect_per_stratum=2,
                        open_texts=300),
          'thorough': dict(workers=8, coarse=False, offset_per_stratum=4,
                           indirect_per_stratum=2, open_texts=3000)}


def T(codes):
    return ''.join(map(chr, codes))


# ---------------------------------------------------------------------------
# the catalogue of consumers.  {R} the reference (computed or written), {W} a
# written range of the same shape, {nr} {nc} rows / columns of the result,
# {nr1} = nr + 1, {vm} {vv} {vh} values to look up

ANY = 'any'
ONE = '1x1'
VECTOR = '1-dim'
TWOCOL = '2 columns'
TWOROW = '2 rows'
CATALOGUE = [
    # name, template, shape, core
    ('bare', '{R}', ANY, True),
    ('SUM', 'SUM({R})', ANY, True),
    ('ROW', 'ROW({R})', ANY, True),
    ('COLUMN', 'COLUMN({R})', ANY, True),
    ('INDEX last', 'INDEX({R},{nr},{nc})', ANY, True),
    ('AVERAGE', 'AVERAGE({R})', ANY, False),
    ('MIN', 'MIN({R})', ANY, False),
    ('MAX', 'MAX({R})', ANY, False),
    ('COUNT', 'COUNT({R})', ANY, False),
    ('COUNTA', 'COUNTA({R})', ANY, False),
    ('SUMPRODUCT', 'SUMPRODUCT({R},{W})', ANY, False),
    ('SUMPRODUCT 2nd', 'SUMPRODUCT({W},{R})', ANY, False),
    ('SUMIF', 'SUMIF({R},">1")', ANY, False),
    ('SUMIF sum_range', 'SUMIF({W},">1",{R})', ANY, False),
    ('COUNTIF', 'COUNTIF({R},">1")', ANY, False),
    ('AVERAGEIF', 'AVERAGEIF({R},">1")', ANY, False),
    ('SUMIFS', 'SUMIFS({R},{W},">1")', ANY, False),
    ('COUNTIFS', 'COUNTIFS({R},">1")', ANY, False),
    ('MAXIFS', 'MAXIFS({R},{W},">1")', ANY, False),
    ('MINIFS', 'MINIFS({W},{R},">1")', ANY, False),
    ('AND', 'AND({R})', ANY, False),
    ('OR', 'OR({R})', ANY, False),
    ('CONCAT', 'CONCAT({R})', ANY, False),
    ('LARGE', 'LARGE({R},1)', ANY, False),
    ('SMALL', 'SMALL({R},1)', ANY, False),
    ('INDEX first', 'INDEX({R},1,1)', ANY, False),
    ('INDEX beyond', 'INDEX({R},{nr1},1)', ANY, False),
    ('MATCH', 'MATCH({vm},{R},0)', VECTOR, False),
    ('VLOOKUP', 'VLOOKUP({vv},{R},2,FALSE)', TWOCOL, False),
    ('HLOOKUP', 'HLOOKUP({vh},{R},2,FALSE)', TWOROW, False),
    ('ROWS', 'ROWS({R})', ANY, False),
    ('COLUMNS', 'COLUMNS({R})', ANY, False),
    ('ISNUMBER', 'ISNUMBER({R})', ONE, False),
    ('ISBLANK', 'ISBLANK({R})', ONE, False),
    ('ISTEXT', 'ISTEXT({R})', ONE, False),
    ('ISERROR', 'ISERROR({R})', ONE, False),
    ('N', 'N({R})', ONE, False),
    ('IFERROR', 'IFERROR({R},"e")', ONE, False),
    ('+', '{R}+1', ONE, False),
    ('+ left', '1+{R}', ONE, False),
    ('&', '{R}&"z"', ONE, False),
    ('& left', '"z"&{R}', ONE, False),
    ('unary -', '-{R}', ONE, False),
    ('=', '{R}={W}', ONE, False),
    ('>', '{R}>1', ONE, False),
    ('* range', 'SUM({R}*2)', ANY, False),
    ('CELL contents', 'CELL("contents",{R})', ONE, False),
    ('IF', 'IF(TRUE,{R})', ANY, False),
    ('OFFSET of', 'SUM(OFFSET({R},1,0))', ANY, False),
    ('ROW of OFFSET of', 'ROW(OFFSET({R},1,1))', ANY, False),
]
# with the arguments in cells every vector runs SUM only
CORE_CELL = ('SUM',)
# a result that is #REF!: the written form is the literal #REF!
ERR_CORE = ('bare', 'SUM')
ERR_FULL = ('bare', 'SUM', 'ROW', 'COLUMN', 'AVERAGE', 'COUNT', 'INDEX first', 'SUMPRODUCT 2nd',
            'MATCH', 'ISERROR', 'ISBLANK', 'ISNUMBER', 'IFERROR', '+', '&', 'CELL contents',
            'OFFSET of')
# the pending repair that concerns a consumer (a hint for the reader of a report)
HINT = {}
for _n in ('SUM', 'AVERAGE', 'MIN', 'MAX', 'COUNT', 'SUMPRODUCT', 'SUMPRODUCT 2nd', 'SUMIF',
           'SUMIF sum_range', 'COUNTIF', 'AVERAGEIF', 'SUMIFS', 'COUNTIFS', 'MAXIFS', 'MINIFS',
           'AND', 'OR', 'CONCAT', 'IFERROR'):
    HINT[_n] = 'X02_1'
for _n in ('+', '+ left', '&', '& left', 'unary -', '=', '>', '* range'):
    HINT[_n] = 'X02_2'
for _n in ('OFFSET of', 'ROW of OFFSET of'):
    HINT[_n] = 'X02_4'


def applies(shape, nr, nc):
    return (shape == ANY or (shape == ONE and nr == nc == 1)
            or (shape == VECTOR and (nr == 1 or nc == 1))
            or (shape == TWOCOL and nc == 2) or (shape == TWOROW and nr == 2))


# ---------------------------------------------------------------------------
# environments: the values of the grid

def make_layout(rnd):
    """which cells of A1:C4 hold the text, the logical, the blank, the formulas
    and (second environment) the errors"""
    spots = [(c, r) for c in range(1, 4) for r in range(1, 5)]
    pick = rnd.sample(spots, 7)
    return dict(text=pick[0], logical=pick[1], blank=pick[2], formula=pick[3],
                formula2=pick[4], error=pick[5], error_formula=pick[6])


def grid_values(layout, env):
    """{(sheet, col, row): cell content}; what a cell shows is known for
    plain values only (formula cells: ('f', text))"""
    cells = {}
    for sheet, mul in (('S', 1), ('T', 3)):
        k = 0
        for r in range(1, GRID_ROWS + 1):
            for c in range(1, GRID_COLS + 1):
                cells[(sheet, c, r)] = mul * 2 ** k
                k += 1
        cells[(sheet, GRID_COLS, GRID_ROWS)] = -3 * mul
        cells[(sheet, GRID_COLS - 1, GRID_ROWS)] = 0.5 * mul
        if env == 'O':
            # the workbook of the "open" texts (whole rows / columns among them)
            # has nothing in the far corner: the used range stays small
            continue
        for i, (c, r) in enumerate(((MAX_COL - 1, MAX_ROW - 1), (MAX_COL, MAX_ROW - 1),
                                    (MAX_COL - 1, MAX_ROW), (MAX_COL, MAX_ROW))):
            cells[(sheet, c, r)] = mul * 2 ** (48 + i)
    lay = {k: tuple(v) for k, v in layout.items()}
    cells[('S',) + lay['text']] = 'x'
    cells[('S',) + lay['logical']] = True
    del cells[('S',) + lay['blank']]
    c, r = lay['formula']
    cells[('S', c, r)] = ('f', f'=2^{(r - 1) * GRID_COLS + c - 1}')
    c, r = lay['formula2']
    cells[('S', c, r)] = ('f', f'={LET(GRID_COLS)}{GRID_ROWS - 1}*1')
    cells[('T',) + lay['text']] = ('f', '="y"&"y"')
    if env == 'E':
        cells[('S',) + lay['error']] = '#DIV/0!'
        cells[('S',) + lay['error_formula']] = ('f', '=NA()')
        cells[('T',) + lay['error']] = '#NUM!'
    return cells


def literal_of(val):
    """a value to look up, written into a formula"""
    if isinstance(val, bool) or val is None or isinstance(val, tuple):
        return '2'
    if isinstance(val, str):
        return '2' if val in ERRORS else '"' + val + '"'
    return repr(val)


# ---------------------------------------------------------------------------
# vectors

class Vec:
    """one exported state"""

    def __init__(self, j):
        self.m = j['m']
        self.home = T(j['home'])
        self.rect = tuple(j['rect']) if j['rect'] else None
        self.written = T(j['written'])
        self.row, self.column = j['row'], j['column']
        self.nr, self.nc = j['nrows'], j['ncolumns']
        if self.m == 'offset':
            self.kind = 'ref' if self.rect else 'junk'
            self.base = tuple(j['base'])
            self.base_text = T(j['base_text'])
            self.sheet = T(j['sheet'])
            self.rows, self.cols = j['rows'], j['cols']
            self.h = j['h'][0] if j['h'] else None
            self.w = j['w'][0] if j['w'] else None
            self.key = ('OFFSET', self.base_text, self.rows, self.cols, self.h, self.w)
        else:
            self.kind = j['kind']
            self.text = T(j['text'])
            self.sheet = T(j['sheet'])
            self.key = ('INDIRECT', self.text, self.home, self.m)

    @property
    def fn(self):
        return 'OFFSET' if self.m == 'offset' else 'INDIRECT'

    def result_sheet(self):
        return self.sheet or self.home

    def args(self):
        """the numeric arguments of OFFSET in order, None = omitted"""
        return [self.rows, self.cols, self.h, self.w]

    def expr(self, style, params=None):
        """the computed reference as formula text; params: addresses of the
        cells that hold the arguments (style 'cell')"""
        if self.m == 'offset':
            if style == 'cell':
                a = [p for p in params]
            else:
                a = [None if x is None else str(x) for x in self.args()]
            tail = ''
            if a[2] is not None and a[3] is not None:
                tail = f',{a[2]},{a[3]}'
            elif a[2] is not None:
                tail = f',{a[2]}'
            elif a[3] is not None:
                tail = f',,{a[3]}'           # the height left empty
            return f'OFFSET({self.base_text},{a[0]},{a[1]}{tail})'
        if style == 'cell':
            return f'INDIRECT({params[0]})'
        if style == 'true':
            return f'INDIRECT("{self.text}",TRUE)'
        return f'INDIRECT("{self.text}")'

    def param_values(self):
        if self.m == 'offset':
            return self.args()
        return [self.text]

    def show(self, style='lit'):
        if style == 'cell':
            vals = self.param_values()
            names = ['P%d' % (i + 1) for i in range(len(vals))]
            params = [n if v is not None else None for n, v in zip(names, vals)]
            return '=' + self.expr('cell', params) + ' with ' + ', '.join(
                f'{n}={v!r}' for n, v in zip(names, vals) if v is not None)
        return '=' + self.expr(style)

    def stratum(self, coarse):
        """the class of vectors from which the full catalogue draws its sample"""
        if self.m == 'offset':
            if self.rect:
                shape = f'{min(self.nr, 3)}x{min(self.nc, 3)}'
            else:
                shape = 'zero' if 0 in (self.h, self.w) else 'off sheet'
            key = ('OFFSET', shape, self.h is not None, self.w is not None)
            return key if coarse else key + (self.sheet, self.base[0] > 100)
        shape = f'{min(self.nr, 3)}x{min(self.nc, 3)}' if self.rect else self.kind
        key = (self.m, shape, self.sheet, self.home)
        return key if coarse else key + (
            bool(self.rect) and self.rect[0] > 100, '$' in self.text,
            self.text != self.text.upper(), "'" in self.text)


# ---------------------------------------------------------------------------
# planning: which formulas go into which workbook

class Allocator:
    """hands out the cells of the formula area of one sheet"""

    def __init__(self):
        self.n = {}

    def take(self, sheet):
        i = self.n.get(sheet, 0)
        self.n[sheet] = i + 1
        return f'{LET(AREA_COL0 + i % AREA_COLS)}{AREA_ROW0 + i // AREA_COLS}'

    def used(self):
        return sum(self.n.values())


def lookup_values(vec, values):
    """the values MATCH / VLOOKUP / HLOOKUP search for: the last cell of the
    result, of its first column, of its first row"""
    if not vec.rect:
        return dict(vm='2', vv='2', vh='2')
    sh = vec.result_sheet()
    c1, r1, c2, r2 = vec.rect
    return dict(vm=literal_of(values.get((sh, c2, r2))),
                vv=literal_of(values.get((sh, c1, r2))),
                vh=literal_of(values.get((sh, c2, r1))))


def consumers_of(vec, full, style):
    if vec.kind == 'open':
        return [c for c in CATALOGUE if c[0] == 'bare']
    if style == 'true':
        return [c for c in CATALOGUE if c[0] == 'bare']
    if not full and style == 'cell':
        return [c for c in CATALOGUE if c[0] in CORE_CELL]
    if vec.kind != 'ref':
        names = ERR_FULL if full else ERR_CORE
        if not full and (vec.m != 'offset' or 0 in (vec.h, vec.w)):
            # a height or width of 0, text that is no reference: one path of the code
            names = ('bare',)
        return [c for c in CATALOGUE if c[0] in names]
    return [c for c in CATALOGUE if (full or c[3]) and applies(c[2], vec.nr, vec.nc)
            and (full or c[0] != 'INDEX last' or vec.nr * vec.nc > 1)]


class Workbook:
    """the plan of one workbook: cells and the formulas to evaluate"""

    def __init__(self, env, layout):
        self.env, self.layout = env, layout
        self.values = grid_values(layout, env)
        self.alloc = Allocator()
        self.cells = {}              # 'S!A1' -> content
        self.computed = []           # (key, sheet, addr, formula)
        self.written = {}            # (home, formula) -> addr
        self.direct = {}             # (sheet, addr) of cells evaluated directly
        self.pairs = []              # (vid, consumer, style, computed key, written ref, top left)

    def size(self):
        return self.alloc.used()

    def place(self, sheet, content):
        addr = self.alloc.take(sheet)
        self.cells[f'{sheet}!{addr}'] = content
        return addr

    def add(self, vid, vec, full, styles):
        fills = dict(nr=max(vec.nr, 1), nc=max(vec.nc, 1), nr1=max(vec.nr, 1) + 1)
        fills.update(lookup_values(vec, self.values))
        wref = vec.written if vec.kind == 'ref' else REF
        home = vec.home
        exprs = {}
        for style in styles:
            if style == 'cell':
                vals = vec.param_values()
                if vals == ['']:
                    continue         # a cell cannot hold the empty text
                params = [None if x is None else self.place(home, x) for x in vals]
                exprs[style] = vec.expr('cell', params)
            else:
                exprs[style] = vec.expr(style)
        for style, expr in exprs.items():
            for name, template, _shape, _core in consumers_of(vec, full, style):
                wf = '=' + template.format(R=wref, W=wref, **fills)
                if (home, wf) not in self.written:
                    self.written[(home, wf)] = self.place(home, wf)
                top = None
                if name == 'bare' and vec.rect:
                    top = (vec.result_sheet(), f'{LET(vec.rect[0])}{vec.rect[1]}')
                    self.direct[top] = True
                cf = '=' + template.format(R=expr, W=wref, **fills)
                addr = self.place(home, cf)
                key = len(self.computed)
                self.computed.append((key, home, addr, cf, name == 'bare'))
                self.pairs.append((vid, name, style, key, (home, wf), top, cf))

    def job(self):
        cells = {}
        for (sheet, c, r), val in self.values.items():
            cells[f'{sheet}!{LET(c)}{r}'] = val[1] if isinstance(val, tuple) else val
        cells.update(self.cells)
        # bare computed references first: nothing has been evaluated before them
        order = sorted(self.computed, key=lambda x: (not x[4], x[0]))
        return dict(cells=cells,
                    computed=[(k, sh, a) for k, sh, a, _f, _b in order],
                    written=[(sh, a) for (sh, _f), a in self.written.items()],
                    direct=list(self.direct))


def plain(v):
    """a result that can cross the process boundary"""
    import numpy as np
    if isinstance(v, BaseException):
        text = str(v).strip().splitlines()
        return ('EXC', type(v).__name__, (text[-1] if text else '')[:160])
    if isinstance(v, np.generic):
        return v.item()
    if isinstance(v, np.ndarray):
        return plain(tuple(map(tuple, v.tolist())) if v.ndim == 2 else tuple(v.tolist()))
    if isinstance(v, (tuple, list)):
        return tuple(plain(x) for x in v)
    if v is None or isinstance(v, (bool, int, float, str)):
        return v
    return ('OBJ', type(v).__name__, repr(v)[:160])


def run_workbook(job):
    """worker: build the workbook, evaluate every formula once"""
    cells = {}
    for key, val in job['cells'].items():
        sheet, addr = key.split('!')
        cells[addr if sheet == 'S' else key] = val
    model = xl.compile_wb(cells)

    def ev(sheet, addr):
        try:
            return plain(model.evaluate(f'{sheet}!{addr}'))
        except Exception as exc:   # noqa  -- an observation
            return plain(exc)
    out = dict(computed={}, written={}, direct={})
    for key, sheet, addr in job['computed']:
        out['computed'][key] = ev(sheet, addr)
    for sheet, addr in job['written']:
        out['written'][(sheet, addr)] = ev(sheet, addr)
    for sheet, addr in job['direct']:
        out['direct'][(sheet, addr)] = ev(sheet, addr)
    return out


def is_exc(v):
    return isinstance(v, tuple) and len(v) == 3 and v[0] in ('EXC', 'OBJ')


def same(a, b):
    """equal values of equal type; a blank handed back shows as 0"""
    a = 0 if a is None else a
    b = 0 if b is None else b
    if is_exc(a) or is_exc(b):
        return False
    return xl.same_value(a, b)


def brief(v):
    if is_exc(v):
        return f'raises {v[1]}: {v[2]}' if v[0] == 'EXC' else f'the object {v[2]}'
    return repr(v)[:160]


# ---------------------------------------------------------------------------
# TLC

def run_tlc(v, cfg):
    res = tlc.run('MC_RefCompute', cfg, workers=TLC_WORKERS, timeout=800, heap='4g', env=JVM)
    if not res.ok:
        raise tlc.MachineryFailure(
            f'RefCompute model ({cfg}) violates {res.violated}:\n' + res.stdout[-2500:])
    vectors = res.json
    if len(vectors) != res.distinct:
        # interleaved PrintT lines: repeat single-threaded
        res = tlc.run('MC_RefCompute', cfg, workers=1, timeout=800, heap='4g', env=JVM)
        vectors = res.json
        if not res.ok or len(vectors) != res.distinct:
            raise tlc.MachineryFailure(
                f'export incomplete ({cfg}): {len(vectors)} vectors for {res.distinct} states')
    v.add_tlc(res, cfg[:-4])
    res.stdout = ''
    return res, [Vec(j) for j in vectors]


def check_export(vecs, label):
    """completeness and non-vacuity from the export itself (-coverage does not
    get past "Starting..." on this module: the cost model inlines every
    definition)"""
    off = [x for x in vecs if x.m == 'offset']
    ind = [x for x in vecs if x.m == 'indirect']
    txt = [x for x in vecs if x.m == 'text']
    if len({x.key for x in vecs}) != len(vecs):
        raise tlc.MachineryFailure(f'{label}: two states with the same arguments')
    dims = [len({f(x) for x in off}) for f in (
        lambda x: (x.base_text,), lambda x: x.rows, lambda x: x.cols,
        lambda x: x.h, lambda x: x.w)]
    expect = 1
    for d in dims:
        expect *= d
    if not off or len(off) != expect:
        raise tlc.MachineryFailure(
            f'{label}: {len(off)} OFFSET vectors, expected {expect} = product of {dims}')
    per_base = {}
    for x in ind:
        per_base.setdefault((x.rect, x.home), set()).add(x.text)
    if not ind or len({len(s) for s in per_base.values()}) != 1:
        raise tlc.MachineryFailure(f'{label}: INDIRECT texts per rectangle differ')
    taken = dict(
        WidenBase=sum(1 for x in off if x.base[2] > x.base[0]),
        HeightenBase=sum(1 for x in off if x.base[3] > x.base[1]),
        MoveRow=sum(1 for x in off if x.rows), MoveCol=sum(1 for x in off if x.cols),
        GrowHeight=sum(1 for x in off if x.h is not None),
        GrowWidth=sum(1 for x in off if x.w is not None),
        AppendChar=sum(1 for x in txt if x.text),
        WidenBase_indirect=sum(1 for x in ind if x.nc > 1),
        HeightenBase_indirect=sum(1 for x in ind if x.nr > 1))
    classes = dict(
        offset_defined=sum(1 for x in off if x.rect),
        offset_zero_size=sum(1 for x in off if 0 in (x.h, x.w)),
        offset_off_sheet=sum(1 for x in off if not x.rect and 0 not in (x.h, x.w)),
        offset_one_cell=sum(1 for x in off if x.rect and x.nr == x.nc == 1),
        offset_far_corner=sum(1 for x in off if x.rect and x.rect[2] == MAX_COL
                              and x.rect[3] == MAX_ROW),
        offset_other_sheet=sum(1 for x in off if x.sheet),
        indirect_quoted_sheet=sum(1 for x in ind if "'" in x.text),
        indirect_lower_case=sum(1 for x in ind if x.text != x.text.upper()),
        indirect_absolute=sum(1 for x in ind if '$' in x.text),
        indirect_home_T=sum(1 for x in ind if x.home == 'T' and not x.sheet),
        text_ref=sum(1 for x in txt if x.kind == 'ref'),
        text_junk=sum(1 for x in txt if x.kind == 'junk'),
        text_open=sum(1 for x in txt if x.kind == 'open'))
    for name, cnt in list(taken.items()) + list(classes.items()):
        if not cnt:
            raise tlc.MachineryFailure(f'vacuous ({label}): {name} never occurs')
    for x in vecs:
        if x.rect and (x.nr != x.rect[3] - x.rect[1] + 1 or x.nc != x.rect[2] - x.rect[0] + 1
                       or x.row != x.rect[1] or x.column != x.rect[0]):
            raise tlc.MachineryFailure(f'{label}: ROW/COLUMN/ROWS/COLUMNS of {x.key}')
        if x.rect:
            c1, r1, c2, r2 = x.rect
            a1 = f'{LET(c1)}{r1}' + ('' if (c1, r1) == (c2, r2) else f':{LET(c2)}{r2}')
            if x.written != (x.sheet + '!' if x.sheet else '') + a1:
                raise tlc.MachineryFailure(
                    f'{label}: written reference {x.written!r} of {x.rect}')
    return taken, classes, dict(offset=len(off), indirect=len(ind), text=len(txt))


# ---------------------------------------------------------------------------
# the run

class Binder:
    def __init__(self, v, tier, rnd):
        self.v, self.tier, self.rnd = v, tier, rnd
        self.budget = BUDGET[tier]
        self.layout = make_layout(rnd)
        self.executed = {}          # consumer -> pairs compared
        self.skipped = {}           # consumer -> {reason: count}
        self.failed = {}            # (fn, consumer, symptom) -> count
        self.open_obs = {}
        self.by_style = {}
        self.by_env = {}
        self.full_vectors = 0
        self.formulas = 0
        self.workbooks = 0

    def sample(self, vecs):
        """indices of the vectors that run the full catalogue"""
        strata = {}
        for i, x in enumerate(vecs):
            if x.kind == 'open':
                continue
            strata.setdefault(x.stratum(self.budget['coarse']), []).append(i)
        chosen = set()
        for key in sorted(strata, key=repr):
            k = self.budget['offset_per_stratum' if key[0] == 'OFFSET'
                            else 'indirect_per_stratum']
            if key[0] == 'text' and key[1] == 'junk':
                k = 6 * k
            members = strata[key]
            chosen.update(self.rnd.sample(members, min(k, len(members))))
        return chosen, len(strata)

    def plan(self, vecs):
        """the workbooks, one after the other (a generator: a plan is dropped
        as soon as its workbook has been judged)"""
        chosen, self.nstrata = self.sample(vecs)
        self.full_vectors = len(chosen)
        cur = {}
        opens = [i for i, x in enumerate(vecs) if x.kind == 'open']
        opens = set(self.rnd.sample(opens, min(len(opens), self.budget['open_texts'])))
        for i, x in enumerate(vecs):
            todo = []
            if x.kind == 'open':
                if i in opens:
                    todo.append(('O', False, ['lit']))
            else:
                full = i in chosen
                styles = ['lit', 'cell'] + (['true'] if x.m != 'offset' and full else [])
                if x.m == 'text' and not full:
                    styles = ['lit']
                todo.append(('V', full, styles))
                if full:
                    todo.append(('E', True, ['lit'] if self.budget['coarse'] else ['lit', 'cell']))
            for env, full, styles in todo:
                if env in cur and cur[env].size() > CHUNK:
                    yield cur.pop(env)
                if env not in cur:
                    cur[env] = Workbook(env, self.layout)
                cur[env].add(i, x, full, styles)
        for env in sorted(cur):
            yield cur[env]

    def fail(self, vec, name, style, env, symptom, desc, case):
        group = (vec.fn, name, symptom)
        self.failed[group] = self.failed.get(group, 0) + 1
        if self.failed[group] <= 2:
            hint = HINT.get(name)
            self.v.violation(desc + (f' [cf. pending_fixes/{hint}.diff]' if hint else ''),
                             dict(case() if callable(case) else case, symptom=symptom,
                                  nth=self.failed[group]))

    def skip(self, name, reason):
        d = self.skipped.setdefault(name, {})
        d[reason] = d.get(reason, 0) + 1

    def judge(self, vecs, book, out):
        v = self.v
        written_of = {key: out['written'][(key[0], addr)] for key, addr in book.written.items()}
        for vid, name, style, ckey, wkey, top, cf in book.pairs:
            vec = vecs[vid]
            got = out['computed'][ckey]
            want = written_of[wkey]

            def case(got=got, want=want, vec=vec, name=name, style=style, cf=cf, wkey=wkey):
                return dict(fn=vec.fn, vector=list(vec.key), consumer=name, style=style,
                            env=book.env, home=vec.home, computed=cf, written=wkey[1],
                            layout=self.layout, got=brief(got), written_gives=brief(want),
                            cells={k: c for k, c in book.cells.items()
                                   if not str(c).startswith('=')
                                   and k.split('!')[1] in cf})
            if vec.kind == 'open':
                # not judged: what the code does is recorded
                cls = 'raises ' + got[1] if is_exc(got) else \
                    REF if got == REF else 'a value'
                self.open_obs[cls] = self.open_obs.get(cls, 0) + 1
                if len(self.open_obs.setdefault('examples', {})) < 12 and \
                        cls not in self.open_obs['examples'].values():
                    self.open_obs['examples'][vec.text] = cls
                continue
            where = f'{cf} ({style} arguments, environment {book.env}, on sheet {vec.home})'
            # absolute expectations
            if vec.kind == 'junk' and name in ('bare', 'SUM'):
                v.case((vec.key, name, style, book.env, 'is #REF!'))
                if got != REF:
                    self.fail(vec, name, style, book.env, 'not #REF!',
                              f'{where}: the reference is not on the sheet / not a '
                              f'reference, expected #REF!, got {brief(got)}',
                              dict(case(), expect=REF))
                    continue
            if vec.kind == 'ref' and name in ('ROW', 'COLUMN'):
                v.case((vec.key, name, style, book.env, 'origin'))
                origin = vec.row if name == 'ROW' else vec.column
                if not same(got, origin):
                    self.fail(vec, name, style, book.env, 'origin',
                              f'{where}: expected {origin} (the rectangle is {vec.written}), '
                              f'got {brief(got)}', dict(case(), expect=origin))
                    continue
            if top is not None:
                v.case((vec.key, name, style, book.env, 'top left'))
                direct = out['direct'][top]
                if not is_exc(direct) and not same(got, direct):
                    self.fail(vec, name, style, book.env, 'top left',
                              f'{where}: evaluate({top[0]}!{top[1]}) of the same model gives '
                              f'{brief(direct)}, the formula {brief(got)}', dict(case(), top=top))
                    continue
            # differential: the written reference in the same model
            if is_exc(want):
                self.skip(name, 'written form ' + (
                    'not supported (UnknownFunction)' if want[1] == 'UnknownFunction'
                    else f'raises {want[1]}'))
                continue
            v.case((vec.key, name, style, book.env))
            self.executed[name] = self.executed.get(name, 0) + 1
            self.by_style[style] = self.by_style.get(style, 0) + 1
            self.by_env[book.env] = self.by_env.get(book.env, 0) + 1
            if not same(got, want):
                symptom = 'raises ' + got[1] if is_exc(got) else 'differs'
                self.fail(vec, name, style, book.env, symptom,
                          f'{where}: {brief(got)}, but {wkey[1]} gives {brief(want)}', case)

    def run(self, vecs, pool):
        pending = []

        def settle():
            book, fut = pending.pop(0)
            try:
                out = fut.result()
            except Exception as exc:   # noqa
                raise tlc.MachineryFailure(f'a workbook job failed: {exc!r}')
            self.judge(vecs, book, out)
        for book in self.plan(vecs):
            job = book.job()
            self.workbooks += 1
            self.formulas += len(job['computed']) + len(job['written'])
            pending.append((book, pool.submit(run_workbook, job)))
            if len(pending) >= 3 * self.budget['workers']:
                settle()
        while pending:
            settle()
        return self.nstrata


def _warm(_):
    time.sleep(0.3)
    return os.getpid()


def start_pool(workers):
    """the worker processes are forked before the parent grows"""
    import concurrent.futures as cf
    pool = cf.ProcessPoolExecutor(max_workers=workers)
    list(pool.map(_warm, range(workers)))
    return pool


def observations():
    """inputs outside the statement's quantifier: what the code does with them
    is recorded in the evidence file and never part of the verdict"""
    cells = {'A1': 1, 'A2': 2, 'A3': 3, 'B1': 10, 'B2': 20, 'J3': '2', 'J5': 1.9, 'J9': 7}
    probes = {
        'OFFSET, negative height (Excel documents "must be positive")': '=SUM(OFFSET(A3,0,0,-2,1))',
        'OFFSET, fractional rows': '=OFFSET(A1,J5,0)',
        'OFFSET, height as text in a cell': '=SUM(OFFSET(A1,0,0,J3,1))',
        'OFFSET, height = a blank cell': '=SUM(OFFSET(A1,0,0,J4,1))',
        'INDIRECT of a blank cell': '=INDIRECT(J4)',
        'INDIRECT of a number': '=INDIRECT(J9)',
        'INDIRECT, R1C1 text with a1 omitted (pinned by the suite)': '=INDIRECT("R2C1")',
        'INDIRECT, a1 = FALSE': '=INDIRECT("R2C1",FALSE)',
        'INDIRECT, corners in the wrong order': '=SUM(INDIRECT("B2:A1"))',
        'INDIRECT, whole column': '=SUM(INDIRECT("A:A"))',
        'INDIRECT, a sheet that does not exist': '=INDIRECT("U!A1")',
        'INDIRECT, unquoted sheet on both corners': '=SUM(INDIRECT("S!A1:S!B2"))',
        'intersection with a computed reference': '=SUM(OFFSET(A1,0,0,2,1) A2:B2)',
        'range operator with a computed reference': '=SUM(A1:OFFSET(A1,1,0))',
        'CELL("row") of a computed reference': '=CELL("row",OFFSET(A1,1,0))',
    }
    out = {}
    for i, (name, f) in enumerate(probes.items()):
        cells[f'M{i + 1}'] = f
    try:
        model = xl.compile_wb(cells)
    except Exception as exc:   # noqa
        return {'(workbook)': f'raises {type(exc).__name__}'}
    for i, (name, f) in enumerate(probes.items()):
        try:
            out[f'{name}: {f}'] = repr(model.evaluate(f'S!M{i + 1}'))[:100]
        except Exception as exc:   # noqa
            out[f'{name}: {f}'] = f'raises {type(exc).__name__}'
    return out


def run(tier, seed):
    v = Verdict(PID, tier, seed)
    rnd = random.Random(seed)
    cfg = 'RefCompute_mc.cfg' if tier == 'quick' else 'RefCompute_big.cfg'
    pool = start_pool(BUDGET[tier]['workers'])
    try:
        return _run(v, tier, rnd, cfg, pool)
    finally:
        pool.shutdown(wait=False, cancel_futures=True)


def _run(v, tier, rnd, cfg, pool):
    t0 = time.time()
    res, vecs = run_tlc(v, cfg)
    taken, classes, counts = check_export(vecs, cfg[:-4])
    t_tlc = time.time() - t0
    for x in vecs[:1] + [y for y in vecs if y.m == 'offset' and y.rect][:3] + \
            [y for y in vecs if y.m == 'indirect'][:2]:
        v.sample(dict(call=x.show(), rectangle=x.written or REF))

    binder = Binder(v, tier, rnd)
    t1 = time.time()
    nstrata = binder.run(vecs, pool)
    v.traces = sum(1 for x in vecs if x.kind != 'open')

    if binder.failed:
        v.note('discrepancies by (function, consumer, symptom): ' + '; '.join(
            f'{fn} {name} {sym}: {n}' for (fn, name, sym), n in sorted(binder.failed.items())))
        # finish() writes out twenty: one of every kind of finding first, then
        # the first of every (function, consumer, symptom) group
        def kind(x):
            return HINT.get(x['case']['consumer']) or x['case']['symptom']
        seen = {}
        for x in v.violations:
            x['case']['turn'] = seen[kind(x)] = seen.get(kind(x), -1) + 1
        v.violations.sort(key=lambda x: (x['case']['turn'], x['case'].get('nth', 0)))
    v.extra.update(
        exhaustive=True,
        bounds=dict(
            config=cfg, sheet_limits=[MAX_COL, MAX_ROW],
            vectors=counts, vectors_executed=v.traces,
            vectors_with_full_catalogue=binder.full_vectors, strata=nstrata,
            grid=f'A1:{LET(GRID_COLS)}{GRID_ROWS} and XFC1048575:XFD1048576 on sheets S and T'),
        actions_taken=taken, classes=classes,
        layout={k: f'{LET(c)}{r}' for k, (c, r) in binder.layout.items()},
        catalogue=[c[0] + ': =' + c[1] for c in CATALOGUE],
        core_catalogue=[c[0] for c in CATALOGUE if c[3]],
        pairs_executed_by_consumer=binder.executed,
        pairs_executed=sum(binder.executed.values()),
        pairs_skipped_by_consumer=binder.skipped,
        pairs_skipped=sum(sum(d.values()) for d in binder.skipped.values()),
        pairs_by_argument_style=binder.by_style, pairs_by_environment=binder.by_env,
        formulas_evaluated=binder.formulas, workbooks=binder.workbooks,
        discrepancies_total=sum(binder.failed.values()),
        discrepancies_by_group={f'{fn} / {name} / {sym}': n
                                for (fn, name, sym), n in sorted(binder.failed.items())},
        tlc_wall_s=round(t_tlc, 1), binding_wall_s=round(time.time() - t1, 1),
        rule='one case = (arguments, consumer, argument style, environment); the computed '
             'form must give the value (and type) the written reference gives in the same '
             'compiled model; a raise where the written form gives a value is a discrepancy; '
             'a blank handed back (None) and 0 are the same',
        relations=['INDIRECT texts of kind "open" (whole rows / columns, corners in the wrong '
                   'order, leading zeros, several colons, unknown or unusual sheet prefixes): '
                   'executed, any outcome allowed: ' + json.dumps(binder.open_obs)],
        not_judged=observations(),
        not_judged_why=[
            'negative height / width: Excel documents "must be a positive number"',
            'fractional, text or logical offsets / sizes; a blank cell as height',
            'R1C1 texts (the pinned suite fixes INDIRECT("R1C1") = A1) and a1 = FALSE',
            'names, structured references, sheets that do not exist (the written form '
            'raises as well), reference operators applied to a computed reference',
            'staleness after set_value (documented limitation): every formula is '
            'evaluated once on a fresh model',
            'a multi-cell result in a single cell: judged against the written range in '
            'a single cell (top left cell), not against a spill'])
    v.assumptions = ['TLC evaluates the definitions of RefCompute correctly',
                     'the written reference evaluated by pycel is the reference value '
                     '(differential verdict)',
                     'sheet names are compared case-sensitively (as pycel does)']
    return v.finish()


def replay(path):
    """re-run one recorded discrepancy: the two formulas in a fresh workbook"""
    with open(path) as f:
        rec = json.load(f)
    case = rec['case']
    values = grid_values(case['layout'], case['env'])
    cells = {}
    for (sheet, c, r), val in values.items():
        key = f'{LET(c)}{r}' if sheet == 'S' else f'{sheet}!{LET(c)}{r}'
        cells[key] = val[1] if isinstance(val, tuple) else val
    for key, val in case.get('cells', {}).items():
        sheet, addr = key.split('!')
        cells[addr if sheet == 'S' else key] = val
    home = case['home']
    pre = '' if home == 'S' else home + '!'
    cells[pre + 'Z90'] = case['computed']
    cells[pre + 'Z91'] = case['written']
    model = xl.compile_wb(cells)
    out = []
    for addr in ('Z90', 'Z91'):
        try:
            out.append(plain(model.evaluate(f'{home}!{addr}')))
        except Exception as exc:   # noqa
            out.append(plain(exc))
    print(f"replay {rec['desc']}\n  now: {case['computed']} -> {brief(out[0])}; "
          f"{case['written']} -> {brief(out[1])}")
    ok = same(out[0], out[1]) or is_exc(out[1])
    if 'expect' in case:
        ok = same(out[0], case['expect'])
    if 'top' in case:
        try:
            direct = plain(model.evaluate('!'.join(case['top'])))
        except Exception as exc:   # noqa
            direct = plain(exc)
        ok = ok and (is_exc(direct) or same(out[0], direct))
    if not ok:
        print(f'VIOLATION property={PID} replay={path}')
        return 1
    print(f'{PID}: replayed case now conforms')
    return 0
