"""X03 -- conditional formats (extra coverage module).

  ExcelCompiler.eval_conditional_formats, ExcelOpxWrapper.conditional_format,
  excellib.conditional_format_ids

Spec: spec/CondFormat.tla (rule applicability, translation of a rule's formula
to a cell -- relative parts move, $ parts stay, a reference that leaves the
sheet --, ordering by priority with stop-if-true, the answer for a cell / a
rectangle / a list / an address without sheet; rule types expression, cellIs,
colour scale; rules on two sheets, references naming a sheet, a column of
formula cells; the laws Subsequence, StopEnds, WalkMeaning, AbsConst,
RelUniform, AtOrigin, Compose, FileOrder, NoStopAll and the action property
Locality checked by TLC on the definitions).

Binding: TLC prints every scenario (rule set) and every transition
SetValue(cell, v) / Query(address) of the machine.  For every scenario a real
workbook is written with openpyxl (conditional formatting rules with their own
differential styles, priorities, stopIfTrue; the order of the rectangles of a
range patched into the file), compiled with ExcelCompiler(filename=...), and
the state graph is walked edge by edge on the real object: set_value for
SetValue, eval_conditional_formats for Query (strings, Address objects, lists,
tuples, generators, addresses without sheet).  Every answer (format ids mapped
back to the rules' formats through ExcelCompiler.conditional_formats) must be
one of the answers the spec allows; an exception is a discrepancy.

Recorded, not judged: what a model saved with to_file and loaded again answers
(the docstring says conditional formats are not saved), and where the
implementation keeps its '.cf' cells.
"""
import json
import os
import random
import zipfile

from harness import tlc
from harness.evidence import Verdict

PID = 'X03'
JVM = {'JAVA_TOOL_OPTIONS': '-XX:ParallelGCThreads=2 -XX:CICompilerCount=2'}
WORKERS = 2
MAX_ROW, MAX_COL = 1048576, 16384
RANDOM_ROUNDS = 4
RANDOM_SCENARIOS = 14


# ---------------------------------------------------------------------------
# rendering the model's descriptors to Excel

def col_letter(c):
    from openpyxl.utils import get_column_letter
    return get_column_letter(c)


def a1(c, r):
    return f'{col_letter(c)}{r}'


def rect_a1(q):
    c1, r1, c2, r2 = q
    return a1(c1, r1) if (c1, r1) == (c2, r2) else f'{a1(c1, r1)}:{a1(c2, r2)}'


def ref_text(x):
    s = ('$' if x['ca'] else '') + col_letter(x['col']) + ('$' if x['ra'] else '') + str(x['row'])
    return (x['sh'] + '!' + s) if x['sh'] else s


def formula_text(f):
    a, b = ref_text(f['a']), ref_text(f['b'])
    k = f['k']
    if k == 'gt':
        return f"{a}>{f['m']}"
    if k == 'eq':
        return f'{a}={b}'
    if k == 'and':
        return f"AND({a}>{f['m']},{b}<{f['n']})"
    if k == 'blank':
        return f'ISBLANK({a})'
    if k == 'val':
        return a
    raise ValueError(k)


def rule_text(rule):
    rng = ' '.join(rect_a1(q) for q in rule['rng'])
    if rule['ty'] == 'scale':
        return f"{rng}: colour scale (priority {rule['prio']})"
    cond = f"cell value > {rule['f']['m']}" if rule['ty'] == 'cellIs' \
        else '=' + formula_text(rule['f'])
    return (f"{rng}: {cond} (priority {rule['prio']}"
            + (', stop if true' if rule['stop'] else '') + f", format {rule['fmt']})")


def pyval(v, as_float=False):
    t = v[0]
    if t == 'Z':
        return None
    if t == 'N':
        return float(v[1]) if as_float else v[1]
    if t == 'B':
        return bool(v[1])
    return v[1]


def show_val(v):
    return {'Z': 'blank', 'N': str(v[1]) if len(v) > 1 else '', 'B': 'TRUE' if len(v) > 1 and v[1] else 'FALSE',
            'E': v[1] if len(v) > 1 else '', 'S': repr(v[1]) if len(v) > 1 else ''}[v[0]]


def fmt_colour(fmt):
    return 'FF%06X' % (0x100000 + 0x101 * fmt)


def grid_key(grid):
    return json.dumps(grid)


def show_grid(grid, w):
    rows = [grid[i:i + w] for i in range(0, len(grid), w)]
    return '; '.join(' '.join(show_val(v) for v in row) for row in rows)


def build_workbook(scn, grid, w, h, path):
    """the scenario as an .xlsx: sheet T first, sheet S second and active"""
    from openpyxl import Workbook
    from openpyxl.formatting.rule import ColorScaleRule, Rule
    from openpyxl.styles import PatternFill
    from openpyxl.styles.differential import DifferentialStyle
    from openpyxl.worksheet.cell_range import MultiCellRange

    wb = Workbook()
    wt = wb.active
    wt.title = 'T'
    ws = wb.create_sheet('S')
    for r in range(1, h + 1):
        for c in range(1, w + 1):
            v = pyval(grid[(r - 1) * w + (c - 1)])
            if v is not None:
                ws.cell(row=r, column=c, value=v)
            wt.cell(row=r, column=c, value=(c + r) % 3)
        ws.cell(row=r, column=w + 1, value=f'=IF(ISBLANK(A{r}),0,A{r})')
    dxfs = {}
    patches = {}
    for sheet_no, (sheet, rules) in enumerate(((wt, scn['trules']), (ws, scn['rules'])), start=1):
        order = {}
        for rule in rules:
            sqref = ' '.join(rect_a1(q) for q in rule['rng'])
            key = frozenset(sqref.split())
            if order.setdefault(key, sqref) != sqref:
                raise tlc.MachineryFailure(
                    f"scenario {scn['name']}: one range written in two orders: {sqref}")
            if rule['ty'] == 'scale':
                orule = ColorScaleRule(start_type='min', start_color='FFFCFCFF',
                                       end_type='max', end_color='FF63BE7B')
                orule.priority = rule['prio']
            else:
                if rule['fmt'] not in dxfs:
                    dxfs[rule['fmt']] = DifferentialStyle(fill=PatternFill(
                        bgColor=fmt_colour(rule['fmt']), fill_type='solid'))
                if rule['ty'] == 'cellIs':
                    orule = Rule(type='cellIs', operator='greaterThan',
                                 formula=[str(rule['f']['m'])], dxf=dxfs[rule['fmt']],
                                 priority=rule['prio'], stopIfTrue=rule['stop'])
                else:
                    orule = Rule(type='expression', formula=[formula_text(rule['f'])],
                                 dxf=dxfs[rule['fmt']], priority=rule['prio'],
                                 stopIfTrue=rule['stop'])
            sheet.conditional_formatting.add(sqref, orule)
            written = str(MultiCellRange(sqref))       # openpyxl writes them sorted
            if written != sqref:
                patches.setdefault(sheet_no, {})[written] = sqref
    wb.active = 1
    if not patches:
        wb.save(path)
        return
    # the order of the rectangles in the file is the model's
    tmp = path + '.tmp'
    wb.save(tmp)
    with zipfile.ZipFile(tmp) as zin, zipfile.ZipFile(path, 'w', zipfile.ZIP_DEFLATED) as zout:
        for item in zin.infolist():
            data = zin.read(item.filename)
            for sheet_no, reps in patches.items():
                if item.filename == f'xl/worksheets/sheet{sheet_no}.xml':
                    text = data.decode('utf8')
                    for written, sqref in reps.items():
                        if f'sqref="{written}"' not in text:
                            raise tlc.MachineryFailure(f'sqref {written} not found in {item.filename}')
                        text = text.replace(f'sqref="{written}"', f'sqref="{sqref}"')
                    data = text.encode('utf8')
            zout.writestr(item, data)
    os.unlink(tmp)


# ---------------------------------------------------------------------------
# the real object

class Real:
    """one ExcelCompiler on the scenario's workbook + what was done to it"""

    def __init__(self, path, grid, w):
        from pycel import ExcelCompiler
        self.path, self.init, self.w = path, grid, w
        self.m = ExcelCompiler(filename=path)
        self.hist = []

    def set(self, c, r, v, form):
        from pycel.excelutil import AddressCell
        addr = f'S!{a1(c, r)}'
        if addr not in self.m.cell_map:
            # set_value wants the cell in the model: "evaluate the address ... to
            # place it in the cell map"
            self.m.evaluate(addr)
        self.hist.append(dict(k='set', c=c, r=r, v=v, form=form))
        self.m.set_value(AddressCell(addr) if form.get('obj') else addr,
                         pyval(v, form.get('float', False)))

    def address(self, q, form):
        from pycel.excelutil import AddressRange
        text = rect_a1(q['rect'])
        if q['sh']:
            text = f"{q['sh']}!{text}"
        return AddressRange.create(text) if form.get('obj') else text

    def argument(self, q, queries, form):
        if q['k'] != 'list':
            return self.address(q, form)
        items = [self.address(queries[i - 1], dict(obj=o))
                 for i, o in zip(q['items'], form['objs'])]
        if form['seq'] == 'tuple':
            return tuple(items)
        if form['seq'] == 'gen':
            return (x for x in items)
        return items

    def fmt_of(self, dxf_id):
        """format id of the file -> the format number of the model (by its colour)"""
        try:
            dxf = self.m.conditional_formats[dxf_id]
            rgb = dxf.fill.bgColor.rgb
            return (int(rgb[2:], 16) - 0x100000) // 0x101
        except Exception:      # noqa  an id the model does not know
            return f'?{dxf_id!r}'

    def query(self, q, queries, form):
        self.hist.append(dict(k='query', q=q, form=form))
        got = self.m.eval_conditional_formats(self.argument(q, queries, form))
        return got


def to_fmts(real, got, depth):
    """nested tuples of ids -> nested lists of format numbers; depth = nesting
    above the answer of one cell"""
    if depth == 0:
        if not isinstance(got, tuple):
            raise TypeError(f'answer of a cell is {type(got).__name__}, not tuple')
        return [real.fmt_of(i) for i in got]
    if not isinstance(got, (tuple, list)):
        raise TypeError(f'{type(got).__name__} where a sequence was expected')
    return [to_fmts(real, g, depth - 1) for g in got]


def compare_one(real, q, exp, got):
    """None or a reason; q a cell or rect query"""
    sheet = q['sh'] or 'S'
    if q['k'] == 'cell':
        ans = to_fmts(real, got, 0)
        if ans not in exp:
            return f"{sheet}!{rect_a1(q['rect'])}: got {ans}, allowed {show_allowed(exp)}"
        return None
    c1, r1, c2, r2 = q['rect']
    if not isinstance(got, tuple):
        return f'range answer is {type(got).__name__}, not tuple'
    ans = to_fmts(real, got, 2)
    if len(ans) != r2 - r1 + 1 or any(len(row) != c2 - c1 + 1 for row in ans):
        return f'shape of the answer {[len(r) for r in ans]} for {rect_a1(q["rect"])}'
    bad = []
    for i, row in enumerate(ans):
        for j, cell in enumerate(row):
            if cell not in exp[i][j]:
                bad.append(f'{sheet}!{a1(c1 + j, r1 + i)}: got {cell}, allowed {show_allowed(exp[i][j])}')
    return '; '.join(bad[:4]) + (f' (+{len(bad) - 4} more cells)' if len(bad) > 4 else '') if bad else None


def show_allowed(exp):
    return ' or '.join(str(a) for a in exp)


def compare(real, q, queries, exp, got, form):
    if q['k'] != 'list':
        return compare_one(real, q, exp, got)
    want_type = list if form['seq'] == 'list' else tuple
    if type(got) is not want_type:
        return f"a {form['seq']} of addresses answered with a {type(got).__name__}"
    if len(got) != len(q['items']):
        return f'{len(got)} answers for {len(q["items"])} addresses'
    whys = [compare_one(real, queries[i - 1], e, g) for i, e, g in zip(q['items'], exp, got)]
    whys = [w for w in whys if w]
    return '; '.join(whys) if whys else None


def query_text(q, queries):
    if q['k'] == 'list':
        return '[' + ', '.join(query_text(queries[i - 1], queries) for i in q['items']) + ']'
    return (q['sh'] + '!' if q['sh'] else '') + rect_a1(q['rect'])


# ---------------------------------------------------------------------------
# the exported graph

class Graph:
    def __init__(self, init_rec):
        self.rec = init_rec
        self.init = grid_key(init_rec['grid'])
        self.out = {}
        self.grids = {self.init: init_rec['grid']}
        self.tour_truncated = False

    @property
    def n_edges(self):
        return sum(len(v) for v in self.out.values())


def build_graphs(records, label):
    graphs = {}
    for rec in records:
        if rec['k'] == 'init':
            scn = rec['scenario']
            for key in ('rules', 'trules'):
                if not scn[key]:
                    scn[key] = []
            graphs[rec['sc']] = Graph(rec)
    for rec in records:
        if rec['k'] == 'init':
            continue
        g = graphs[rec['sc']]
        w = g.rec['w']
        kf = grid_key(rec['grid'])
        g.grids.setdefault(kf, rec['grid'])
        if rec['k'] == 'set':
            to = [list(v) for v in rec['grid']]
            i = (rec['r'] - 1) * w + (rec['c'] - 1)
            if to[i] != rec['old']:
                raise tlc.MachineryFailure(f'{label}: set edge with a wrong old value: {rec}')
            to[i] = rec['v']
            kt = grid_key(to)
            g.grids.setdefault(kt, to)
            g.out.setdefault(kf, []).append(
                (dict(k='set', c=rec['c'], r=rec['r'], v=rec['v']), None, kt))
        else:
            g.out.setdefault(kf, []).append((dict(k='query', q=rec['q']), rec['exp'], kf))
    return graphs


def check_complete(g, label):
    """every state has exactly the transitions the machine enables (recomputed
    here from the exported settable cells, pool and bound)"""
    rec = g.rec
    w, init = rec['w'], rec['grid']
    pool = [json.dumps(v) for v in rec['pool']]
    settable = [tuple(p) for p in rec['settable']]
    nq = len(rec['queries'])
    reach = {g.init}
    todo = [g.init]
    while todo:
        k = todo.pop()
        grid = g.grids[k]
        want = set()
        for (c, r) in settable:
            i = (r - 1) * w + (c - 1)
            for pv in pool:
                if pv == json.dumps(grid[i]):
                    continue
                to = list(grid)
                to[i] = json.loads(pv)
                if sum(1 for a, b in zip(to, init) if a != b) <= rec['maxchanged']:
                    want.add(('set', c, r, pv))
        want.update(('query', i) for i in range(1, nq + 1))
        have = []
        for act, _, kt in g.out.get(k, ()):
            have.append(('set', act['c'], act['r'], json.dumps(act['v'])) if act['k'] == 'set'
                        else ('query', act['q']))
            if kt not in reach:
                reach.add(kt)
                todo.append(kt)
        if sorted(have) != sorted(want):
            raise tlc.MachineryFailure(
                f"{label}: scenario {rec['scenario']['name']} #{rec['sc']}: transitions of a "
                f'state differ from the enabled ones: {len(have)} exported, {len(want)} enabled')
    if reach != set(g.grids):
        raise tlc.MachineryFailure(f'{label}: exported states that are not reachable')
    return len(reach)


def run_tlc(v, module, cfg, label, spec_dir=tlc.SPEC, library=None, timeout=800):
    res = None
    for workers in (WORKERS, 1):
        res = tlc.run(module, cfg, spec_dir=spec_dir, workers=workers, timeout=timeout,
                      library=library, heap='4g', env=JVM)
        if not res.ok:
            raise tlc.MachineryFailure(
                f'CondFormat model ({label}) violates {res.violated}:\n'
                + '\n'.join(l for l in res.stdout.splitlines() if not l.startswith('"'))[-2500:])
        # one line per initial state and per generated transition
        if len(res.json) == res.generated:
            break
    else:
        raise tlc.MachineryFailure(
            f'export incomplete ({label}): {len(res.json)} records for {res.generated} transitions')
    v.add_tlc(res, label)
    graphs = build_graphs(res.json, label)
    states = sum(check_complete(g, label) for g in graphs.values())
    if states != res.distinct:
        raise tlc.MachineryFailure(
            f'export incomplete ({label}): {states} states rebuilt, TLC found {res.distinct}')
    res.stdout = ''
    res.json = []
    return graphs


# ---------------------------------------------------------------------------
# walking one scenario on the real code

class Walker:
    def __init__(self, v, rnd):
        self.v, self.rnd = v, rnd
        self.steps = dict(set=0, query=0)
        self.cells_compared = 0
        self.relation_cells = 0
        self.models = 0
        self.forms = {}
        self.by_scenario = {}
        self.reload = dict(models=0, same=0, different=0, raised=0, examples=[])
        self.impl = dict(cf_cells=0, cf_cells_in_dep_graph=0, cf_cells_with_cached_value=0)
        self.groups = {}

    def form_for(self, act, rec):
        rnd = self.rnd
        if act['k'] == 'set':
            return dict(obj=rnd.random() < 0.3, float=rnd.random() < 0.3)
        q = rec['queries'][act['q'] - 1]
        if q['k'] == 'list':
            return dict(seq=rnd.choice(('list', 'tuple', 'gen')),
                        objs=[rnd.random() < 0.4 for _ in q['items']])
        return dict(obj=rnd.random() < 0.4)

    def violation(self, g, desc, case, kind):
        name = g.rec['scenario']['name']
        self.groups.setdefault((name, kind), []).append(dict(desc=desc, case=case))

    def walk(self, g, label):
        from harness.engine import tour
        rec = g.rec
        scn, w, h = rec['scenario'], rec['w'], rec['h']
        queries = rec['queries']
        d = tlc.new_scratch('cf')
        path = os.path.join(d, f"x03_{rec['sc']}.xlsx")
        build_workbook(scn, rec['grid'], w, h, path)
        holder = {}

        def make_model():
            self.models += 1
            holder['real'] = Real(path, rec['grid'], w)
            return holder

        def rebuild(grid):
            """a fresh object brought to the given values (after an exception)"""
            make_model()
            real = holder['real']
            for i, (a, b) in enumerate(zip(grid, rec['grid'])):
                if a != b:
                    real.set(i % w + 1, i // w + 1, a, dict(obj=False, float=False))

        def case_of(real, act, kf):
            return dict(label=label, scenario=scn, init=rec['grid'], w=w, h=h, queries=queries,
                        values=g.grids[kf], hist=list(real.hist))

        def on_step(model, kf, act, exp, kt, hist):
            real = holder['real']
            form = self.form_for(act, rec)
            self.forms[json.dumps(form, sort_keys=True)] = True
            self.v.case((label, rec['sc'], kf, json.dumps(act, sort_keys=True)))
            self.steps[act['k']] += 1
            if act['k'] == 'set':
                try:
                    real.set(act['c'], act['r'], act['v'], form)
                except Exception as exc:     # noqa
                    self.violation(g, f"[{scn['name']}] set_value(S!{a1(act['c'], act['r'])}, "
                                      f"{show_val(act['v'])}) raised {type(exc).__name__}: "
                                      f'{str(exc)[-200:]}', case_of(real, act, kf), 'set raised')
                    rebuild(g.grids[kt])
                return
            q = queries[act['q'] - 1]
            try:
                got = real.query(q, queries, form)
            except Exception as exc:       # noqa  an exception is a discrepancy
                why = f'raised {type(exc).__name__}: ' + (str(exc).strip().splitlines() or [''])[-1][:200]
                kind = 'raised ' + type(exc).__name__
                got = None
            else:
                kind = 'answer'
                try:
                    why = compare(real, q, queries, exp, got, form)
                except TypeError as exc:   # not the nested tuples of ids it should be
                    why = f'malformed answer {got!r}: {exc}'
            self.count(exp, q, queries)
            if why:
                rules = ' | '.join(rule_text(r) for r in scn['rules'])
                trules = ' | '.join(rule_text(r) for r in scn['trules'])
                self.violation(
                    g, f"[{scn['name']}] eval_conditional_formats({query_text(q, queries)}): {why}"
                       f"  -- S!A1:{a1(w, h)} = {show_grid(g.grids[kf], w)}; rules on S: {rules}"
                       + (f'; rules on T: {trules}' if trules else ''),
                    case_of(real, act, kf), kind)
                if got is None:
                    rebuild(g.grids[kt])

        steps, restarts, covered = tour(g, make_model, on_step, rnd=self.rnd)
        if g.tour_truncated or covered != g.n_edges:
            self.v.note(f"{label}: scenario {scn['name']}: {covered} of {g.n_edges} transitions walked")
        self.observe(holder['real'])
        self.save_load(holder['real'], g, queries)
        self.by_scenario[scn['name']] = self.by_scenario.get(scn['name'], 0) + covered
        return covered

    def count(self, exp, q, queries):
        for allowed in cell_sets(exp, q, queries):
            self.cells_compared += 1
            self.relation_cells += len(allowed) > 1

    # -- recorded, not judged ------------------------------------------------
    def observe(self, real):
        """where the implementation keeps the compiled conditions"""
        m = real.m
        for key, cell in m.cell_map.items():
            if '.cf!' in key:
                self.impl['cf_cells'] += 1
                self.impl['cf_cells_in_dep_graph'] += cell in m.dep_graph
                self.impl['cf_cells_with_cached_value'] += cell.value is not None

    def save_load(self, real, g, queries):
        """to_file / from_file of the walked object: what do the same queries
        answer (conditional formats are documented as not saved)"""
        from pycel import ExcelCompiler
        m = real.m
        self.reload['models'] += 1
        try:
            m.to_file(file_types=('yml',))
            m2 = ExcelCompiler.from_file(real.path + '.yml')
        except Exception as exc:     # noqa
            self.reload['raised'] += 1
            if len(self.reload['examples']) < 3:
                self.reload['examples'].append(f'to_file/from_file raised {type(exc).__name__}: {str(exc)[-120:]}')
            return
        for q in queries:
            if q['k'] == 'list':
                continue
            text = (q['sh'] or 'S') + '!' + rect_a1(q['rect'])
            try:
                before = m.eval_conditional_formats(text)
            except Exception:        # noqa
                continue
            try:
                after = m2.eval_conditional_formats(text)
                self.reload['same' if after == before else 'different'] += 1
                if after != before and len(self.reload['examples']) < 3:
                    self.reload['examples'].append(f'{text}: {before} before, {after} after')
            except Exception as exc:  # noqa
                self.reload['raised'] += 1
                if len(self.reload['examples']) < 3:
                    self.reload['examples'].append(
                        f'{text} after loading raised {type(exc).__name__}: {str(exc)[-120:]}')


# ---------------------------------------------------------------------------
# random scenarios (thorough tier)

def random_rects(rnd, n, w1, h):
    """n disjoint rectangles with one whose corner is above-left of all others"""
    for _ in range(200):
        rects = []
        for _ in range(n):
            c1, r1 = rnd.randint(1, w1), rnd.randint(1, h)
            c2, r2 = rnd.randint(c1, min(w1, c1 + 2)), rnd.randint(r1, min(h, r1 + 2))
            rects.append((c1, r1, c2, r2))
        ok = all(p[2] < q[0] or q[2] < p[0] or p[3] < q[1] or q[3] < p[1]
                 for i, p in enumerate(rects) for q in rects[i + 1:])
        corners = [(q[0], q[1]) for q in rects]
        dom = any(all(p[0] <= q[0] and p[1] <= q[1] for q in corners) for p in corners)
        if ok and dom:
            return rects
    return [(1, 1, 2, 2)]


def random_ref(rnd, w1, h):
    col = MAX_COL if rnd.random() < 0.06 else rnd.randint(1, w1)
    row = MAX_ROW if rnd.random() < 0.06 else rnd.randint(1, h)
    sh = rnd.choice(('', '', '', '', '', '', 'S', 'T'))
    return f'Ref("{sh}", {col}, {row}, {tla_bool(rnd.random() < 0.35)}, {tla_bool(rnd.random() < 0.35)})'


def tla_bool(b):
    return 'TRUE' if b else 'FALSE'


def random_rules(rnd, n, w1, h, fmt0):
    prios = rnd.sample(range(1, n + 3), n)
    orders = {}
    out = []
    for i in range(n):
        rects = random_rects(rnd, 1 if rnd.random() < 0.65 else rnd.choice((2, 2, 3)), w1, h)
        rects = orders.setdefault(frozenset(rects), rects)
        rng = '<< ' + ', '.join('<<%d, %d, %d, %d>>' % q for q in rects) + ' >>'
        ty = rnd.random()
        fmt = fmt0 + (rnd.randint(1, n) if rnd.random() < 0.2 else i + 1)
        if ty < 0.08:
            out.append(f'Scale({rng}, {prios[i]})')
        elif ty < 0.2:
            out.append(f'CellIs({rng}, {rnd.choice((0, 1))}, {prios[i]}, '
                       f'{tla_bool(rnd.random() < 0.3)}, {fmt})')
        else:
            k = rnd.choice(('gt', 'gt', 'eq', 'eq', 'and', 'blank', 'val'))
            a, b = random_ref(rnd, w1, h), random_ref(rnd, w1, h)
            f = {'gt': f'Gt({a}, {rnd.choice((0, 1))})', 'eq': f'Eq({a}, {b})',
                 'and': f'And({a}, {rnd.choice((0, 1))}, {b}, {rnd.choice((1, 2, 3))})',
                 'blank': f'Blank({a})', 'val': f'ValF({a})'}[k]
            out.append(f'Expr({rng}, {f}, {prios[i]}, {tla_bool(rnd.random() < 0.3)}, {fmt})')
    return '<< ' + ',\n        '.join(out) + ' >>'


def write_random_module(rnd, count, base_cfg):
    d = tlc.new_scratch('condformat')
    scns = []
    for i in range(count):
        ns, nt = rnd.randint(1, 4), rnd.choice((0, 0, 1, 2))
        scns.append(f'  Sc("random{i + 1}",\n     {random_rules(rnd, ns, 5, 4, 0)},\n'
                    f'     {random_rules(rnd, nt, 4, 4, 10) if nt else "<< >>"})')
    with open(os.path.join(d, 'MC_CondFormatT.tla'), 'w') as f:
        f.write('---- MODULE MC_CondFormatT ----\nEXTENDS MC_CondFormat\nTScenarios == <<\n'
                + ',\n'.join(scns) + '\n>>\n====\n')
    with open(os.path.join(d, 'T.cfg'), 'w') as f:
        text = open(os.path.join(tlc.SPEC, base_cfg)).read()
        if 'Scenarios <- MCScenarios\n' not in text:
            raise tlc.MachineryFailure(f'{base_cfg}: no Scenarios binding to replace')
        f.write(text.replace('Scenarios <- MCScenarios\n', 'Scenarios <- TScenarios\n'))
    return d


# ---------------------------------------------------------------------------

def cell_sets(exp, q, queries):
    """the allowed sets of the single cells behind one expected answer"""
    if q['k'] == 'cell':
        yield exp
    elif q['k'] == 'rect':
        for row in exp:
            yield from row
    else:
        for i, e in zip(q['items'], exp):
            yield from cell_sets(e, queries[i - 1], queries)


def nonvacuous(graphs, label):
    """the exported answers show what the laws speak about"""
    seen = dict(set_edges=0, query_edges=0, cells=0, nonempty_answers=0,
                answers_of_two_or_more=0, cells_with_more_than_one_allowed_answer=0)
    for g in graphs.values():
        queries = g.rec['queries']
        for edges in g.out.values():
            for act, exp, _ in edges:
                if act['k'] == 'set':
                    seen['set_edges'] += 1
                    continue
                seen['query_edges'] += 1
                for allowed in cell_sets(exp, queries[act['q'] - 1], queries):
                    seen['cells'] += 1
                    seen['nonempty_answers'] += any(a for a in allowed)
                    seen['answers_of_two_or_more'] += any(len(a) > 1 for a in allowed)
                    seen['cells_with_more_than_one_allowed_answer'] += len(allowed) > 1
    for k in ('set_edges', 'query_edges', 'nonempty_answers', 'answers_of_two_or_more'):
        if not seen[k]:
            raise tlc.MachineryFailure(f'vacuous ({label}): no {k.replace("_", " ")} in the export')
    return seen


def run(tier, seed):
    v = Verdict(PID, tier, seed)
    rnd = random.Random(seed)
    walker = Walker(v, rnd)
    runs = [('MC_CondFormat', 'CondFormat_mc.cfg', tlc.SPEC, None, 'CondFormat_mc')] if tier == 'quick' \
        else [('MC_CondFormat', 'CondFormat_big.cfg', tlc.SPEC, None, 'CondFormat_big'),
              ('MC_CondFormat', 'CondFormat_two.cfg', tlc.SPEC, None, 'CondFormat_two')]
    if tier == 'thorough':
        for i in range(RANDOM_ROUNDS):
            d = write_random_module(rnd, RANDOM_SCENARIOS, 'CondFormat_mc.cfg')
            runs.append(('MC_CondFormatT', os.path.join(d, 'T.cfg'), d, tlc.SPEC,
                         f'CondFormat_random{i + 1}'))
    scenarios = transitions = 0
    exported = {}
    for module, cfg, spec_dir, library, label in runs:
        graphs = run_tlc(v, module, cfg, label, spec_dir=spec_dir, library=library)
        exported[label] = nonvacuous(graphs, label)
        for sc in sorted(graphs):
            g = graphs[sc]
            v.sample(dict(scenario=g.rec['scenario']['name'],
                          rules_on_S=[rule_text(r) for r in g.rec['scenario']['rules']],
                          rules_on_T=[rule_text(r) for r in g.rec['scenario']['trules']],
                          settable=[a1(*p) for p in g.rec['settable']]), limit=5)
            transitions += walker.walk(g, label)
            scenarios += 1
    v.traces = transitions

    # one representative of every (scenario, kind of discrepancy) first: only the
    # first 20 are written out as replays
    groups = walker.groups
    if groups:
        v.note('discrepancies by scenario and kind: ' + ', '.join(
            f'{name}/{kind}: {len(lst)}' for (name, kind), lst in sorted(groups.items())))
        depth = max(len(lst) for lst in groups.values())
        for i in range(depth):
            for key in sorted(groups):
                if i < len(groups[key]):
                    v.violations.append(groups[key][i])

    v.extra.update(
        exhaustive=True, scenarios=scenarios, transitions_walked=transitions,
        steps=walker.steps, models_compiled=walker.models,
        cell_answers_compared=walker.cells_compared,
        cell_answers_with_more_than_one_allowed=walker.relation_cells,
        transitions_by_scenario=walker.by_scenario,
        address_forms_used=len(walker.forms), export=exported,
        after_to_file_from_file_NOT_JUDGED=walker.reload,
        implementation_observed_NOT_JUDGED=dict(
            walker.impl, note="the compiled conditions live in cell_map under '<sheet>.cf!<cell>', "
                              'are evaluated again at every call (no cached value) and are not '
                              'nodes of the dependency graph'),
        rule='one case = one transition (SetValue / Query) of one state of one scenario, walked '
             'on a real ExcelCompiler; a Query compares the answer of every cell with the set of '
             'answers spec/CondFormat.tla allows',
        relations=['range of several rectangles whose first rectangle (file order) is not the '
                   'top-left one: origin = first rectangle or top-left rectangle',
                   'a translated reference that leaves the sheet: wraps around (Excel in '
                   'conditional formats) or #REF! (rule not satisfied)',
                   'a rule formula whose value is a text: satisfied or not'],
        not_judged=['ranges of several rectangles none of which is above and left of all others',
                    'rule types other than expression, cellIs (greater than a constant) and '
                    'colour scale; cellIs with other operators or formula operands',
                    'two rules with the same priority',
                    'workbooks handed over in memory (ExcelCompiler(excel=wb)): the rules have no '
                    'dxf id before the file is written',
                    'answers after to_file/from_file (recorded only)',
                    'set_value on formula cells, iterative (cycles) models'])
    v.assumptions = ['TLC evaluates the definitions of CondFormat correctly',
                     'openpyxl writes and reads the rules as given (the order of the rectangles '
                     'of a range is patched into the file; openpyxl itself keeps them as a set)',
                     'the comparison operators, AND and ISBLANK themselves are the subject of '
                     'C10 / X01; here they are used on blank, 0..2, #DIV/0!, x/X, TRUE']
    return v.finish()


def replay(path):
    """re-run one recorded discrepancy: the workbook of its scenario, the
    recorded calls in their order; the last one is the query in question"""
    with open(path) as f:
        rec = json.load(f)
    case = rec['case']
    scn, w, h, queries = case['scenario'], case['w'], case['h'], case['queries']
    d = tlc.new_scratch('cfreplay')
    xlsx = os.path.join(d, 'replay.xlsx')
    build_workbook(scn, case['init'], w, h, xlsx)
    # the expected answers come from the model: run it on this one scenario
    real = Real(xlsx, case['init'], w)
    hist = case['hist']
    print(f"replay {rec['desc'][:300]}")
    last = None
    for step in hist:
        try:
            if step['k'] == 'set':
                real.set(step['c'], step['r'], step['v'], step['form'])
            else:
                last = (step, real.query(step['q'], queries, step['form']))
        except Exception as exc:      # noqa
            last = (step, exc)
    if last is None:
        print(f'{PID}: nothing to replay')
        return 0
    step, got = last
    exp = expected_from_model(scn, case['values'], step['q'], queries, w, h)
    if isinstance(got, BaseException):
        why = f'raised {type(got).__name__}: {str(got)[-200:]}'
    else:
        why = compare(real, step['q'], queries, exp, got, step['form'])
        print(f'  now: {got}')
    if why:
        print(f'VIOLATION property={PID} replay={path}\n  {why}')
        return 1
    print(f'{PID}: replayed case now conforms')
    return 0


def tla_value(v):
    t = v[0]
    return {'Z': 'Z', 'N': f'N({v[1]})' if t == 'N' else '', 'B': 'TRUEV' if t == 'B' and v[1] else 'FALSEV',
            'E': 'DIV0', 'S': f'Txt("{v[1]}")' if t == 'S' else ''}[t]


def tla_ref(x):
    return f'Ref("{x["sh"]}", {x["col"]}, {x["row"]}, {tla_bool(x["ca"])}, {tla_bool(x["ra"])})'


def tla_rule(rule):
    rng = '<< ' + ', '.join('<<%d, %d, %d, %d>>' % tuple(q) for q in rule['rng']) + ' >>'
    f = rule['f']
    ft = (f'[k |-> "{f["k"]}", a |-> {tla_ref(f["a"])}, b |-> {tla_ref(f["b"])}, '
          f'm |-> {f["m"]}, n |-> {f["n"]}]')
    return (f'[ty |-> "{rule["ty"]}", rng |-> {rng}, f |-> {ft}, prio |-> {rule["prio"]}, '
            f'stop |-> {tla_bool(rule["stop"])}, fmt |-> {rule["fmt"]}]')


def expected_from_model(scn, values, q, queries, w, h):
    """allowed answers of one query in one state, from TLC (replay only)"""
    d = tlc.new_scratch('cfexp')
    rows = [values[i:i + w] for i in range(0, len(values), w)]
    grid = '<< ' + ', '.join('<< ' + ', '.join(tla_value(x) for x in row) + ' >>' for row in rows) + ' >>'
    rules = '<< ' + ', '.join(tla_rule(r) for r in scn['rules']) + ' >>'
    trules = '<< ' + ', '.join(tla_rule(r) for r in scn['trules']) + ' >>'
    qi = queries.index(q) + 1
    with open(os.path.join(d, 'MC_CondFormatR.tla'), 'w') as f:
        f.write('---- MODULE MC_CondFormatR ----\nEXTENDS MC_CondFormat\n'
                f'RRows == {grid}\nRGrid == [p \\in (1..{w}) \\X (1..{h}) |-> RRows[p[2]][p[1]]]\n'
                f'RScenarios == << Sc("replay", {rules}, {trules}) >>\n'
                f'RQuery == PrintT(ToJson([exp |-> Expected(1, ans, Queries[{qi}])]))\n====\n')
    with open(os.path.join(d, 'R.cfg'), 'w') as f:
        f.write(f'CONSTANTS\n  W = {w}\n  H = {h}\n  Scenarios <- RScenarios\n  InitGrid <- RGrid\n'
                '  SetPool <- MCSetPool\n  MaxChanged = 0\n  Queries <- MCQueries\n'
                'SPECIFICATION Spec\nINVARIANT RQuery\nVIEW View\n')
    res = tlc.run('MC_CondFormatR', os.path.join(d, 'R.cfg'), spec_dir=d, workers=1,
                  library=tlc.SPEC, timeout=300, env=JVM)
    if not res.ok or not res.json:
        raise tlc.MachineryFailure('replay: the model did not give the expected answer\n'
                                   + res.stdout[-1500:])
    return res.json[0]['exp']
