"""Binding between spec/Engine.tla and the real ExcelCompiler.

gen_graph    : TLC explores the model of one workbook exhaustively and prints
               every transition (from, action, return value, to)
RealModel    : the real object for (workbook, source) + projection to the
               abstract state + execution of one model action
Oracle       : from-scratch compile of the workbook with given inputs
tour         : edge-covering walk of the state graph executed on real objects
"""
import collections
import time
import json
import os

from harness import tlc, workbooks as W, xl


def canon_state(s):
    return json.dumps(dict(
        inp=s['inp'], built=sorted(s['built']), cache=s['cache'],
        edges=sorted(map(tuple, s['edges'])), changed=s['changed']),
        sort_keys=True)


class Graph:
    def __init__(self):
        self.init = None
        self.states = {}                       # key -> state dict
        self.out = collections.defaultdict(list)   # key -> [(act, ret, tokey)]
        self.fresh = {}                        # inputs key -> {node: value}
        self.tlc = None

    @property
    def n_edges(self):
        return sum(len(v) for v in self.out.values())


def gen_graph(name, wb, pool, src, workers=1, timeout=1200, extra_cfg='', lists=(), settable=None,
              recalc=False, setlists=()):
    d = tlc.new_scratch('eng')
    mod = f'MC_{name}_{src}'
    with open(os.path.join(d, mod + '.tla'), 'w') as f:
        f.write(W.tla_constants(wb, pool, src, mod, lists=lists, settable=settable, recalc=recalc,
                                setlists=setlists))
    with open(os.path.join(d, 'gen.cfg'), 'w') as f:
        f.write(W.ENGINE_CFG + 'INVARIANT PrintInit\nACTION_CONSTRAINT PrintEdge\n'
                + extra_cfg)
    res = tlc.run(mod, os.path.join(d, 'gen.cfg'), spec_dir=d, workers=workers,
                  library=tlc.SPEC, timeout=timeout, coverage=False, heap='2g')
    if not res.ok:
        raise tlc.MachineryFailure(
            f'Engine model {name}/{src} violates {res.violated}:\n'
            + '\n'.join(l for l in res.stdout.splitlines()
                        if not l.startswith('"'))[-3000:])
    g = Graph()
    g.tlc = res
    seen_edges = set()
    for rec in res.json:
        if 'init' in rec:
            k = canon_state(rec['init'])
            g.init = k
            g.states[k] = rec['init']
            continue
        kf, kt = canon_state(rec['from']), canon_state(rec['to'])
        g.states.setdefault(kf, rec['from'])
        g.states.setdefault(kt, rec['to'])
        ak = json.dumps(rec['act'], sort_keys=True)
        if (kf, ak) in seen_edges:
            continue
        seen_edges.add((kf, ak))
        g.out[kf].append((rec['act'], rec['ret'], kt))
    res.stdout = ''
    res.json = []
    if g.init is None:
        raise tlc.MachineryFailure('no initial state exported')
    if len(g.states) != res.distinct:
        raise tlc.MachineryFailure(
            f'export incomplete: {len(g.states)} states parsed, TLC found {res.distinct}')
    return g


class Oracle:
    """from-scratch compile of the workbook with the current inputs"""

    def __init__(self, wb):
        self.wb = wb
        self.memo = {}
        n = W.nodes(wb)
        self.all_nodes = n['inputs'] + n['formulas'] + n['ranges'] + n['aliases']
        self.compiles = 0

    def values(self, inputs):
        key = json.dumps({k: W.js_val(v) for k, v in sorted(inputs.items())})
        if key not in self.memo:
            cells, arrays = W.cells(self.wb, inputs)
            m = xl.compile_wb(cells, arrays=arrays)
            self.compiles += 1
            out = {}
            for node in self.all_nodes:
                try:
                    out[node] = ('ok', m.evaluate(W.addr(node)))
                except Exception as exc:      # noqa
                    out[node] = ('exc', type(exc).__name__)
            self.memo[key] = out
        return self.memo[key]


class RealModel:
    """the real ExcelCompiler for one (workbook, source)"""

    def __init__(self, wb, src, workdir, file_type='yml'):
        from pycel import ExcelCompiler
        self.wb, self.src = wb, src
        cells, arrays = W.cells(wb)
        if src == 'NoData':
            self.m = xl.compile_wb(cells, arrays=arrays)
        elif src == 'Stored':
            path = os.path.join(workdir, 'stored.xlsx')
            if not os.path.exists(path):
                fresh = Oracle(wb).values(dict(wb['inputs']))
                results = {}
                for f in W.nodes(wb)['formulas']:
                    st, val = fresh[f]
                    assert st == 'ok'
                    results[f] = val
                xl.write_xlsx_with_results(path, cells, results, arrays=arrays)
            self.m = ExcelCompiler(path)
        elif src == 'Loaded':
            base = os.path.join(workdir, 'saved_' + file_type + '_model')
            ext = {'yml': 'yml', 'json': 'json', 'pkl': 'pkl'}[file_type]
            if not os.path.exists(base + '.' + ext):
                m0 = xl.compile_wb(cells, arrays=arrays)
                n = W.nodes(wb)
                for node in n['formulas'] + n['inputs'] + n['ranges'] + n['aliases']:
                    m0.evaluate(W.addr(node))
                m0.to_file(base, file_types=(ext,))
            self.m = ExcelCompiler.from_file(base + '.' + ext)
        else:
            raise ValueError(src)

    def project(self):
        m = self.m
        pre = W.SHEET + '!'
        built, cache = [], {}
        inputs = set(self.wb['inputs'])
        for a, cell in m.cell_map.items():
            node = a[len(pre):] if a.startswith(pre) else a
            built.append(node)
            v = cell.value
            if v is None and node not in inputs:
                unknown = getattr(cell, 'value_unknown', False)
                if unknown and node in self.wb.get('aliases', {}):
                    # an unbounded range which resolves to a single empty cell:
                    # calculated, the value is that of the blank cell
                    cache[node] = W.js_val(None)
                else:
                    # '?!': read as no value from stored results, not known to be reset
                    cache[node] = ['?!'] if unknown else ['?']
            else:
                cache[node] = W.js_val(v)
        edges = sorted({(W.node_of(u.address.address), W.node_of(v.address.address))
                        for u, v in m.dep_graph.edges()})
        return dict(built=sorted(built), cache=cache,
                    edges=[list(e) for e in edges],
                    changed=bool(getattr(m, '_values_changed', False)))

    def do(self, act, variant='str'):
        """perform one model action; returns ('ok', value) or ('exc', name)

        variant: how the address of an evaluate is spelled (C05 access paths)
        """
        from pycel.excelutil import AddressRange
        try:
            if act['op'] == 'evaluate':
                a = W.addr(act['n'])
                if variant == 'str':
                    return 'ok', self.m.evaluate(a)
                if variant == 'object':
                    return 'ok', self.m.evaluate(AddressRange(a))
                if variant == 'nosheet':
                    return 'ok', self.m.evaluate(act['n'])
                if variant == 'nosheet_object':
                    return 'ok', self.m.evaluate(AddressRange(act['n']))
                if variant == 'list1':
                    r = self.m.evaluate([a])
                    assert isinstance(r, list) and len(r) == 1, r
                    return 'ok', r[0]
                if variant == 'tuple1':
                    r = self.m.evaluate((a,))
                    assert isinstance(r, tuple) and len(r) == 1, r
                    return 'ok', r[0]
                if variant == 'gen1':
                    r = self.m.evaluate(x for x in [a])
                    assert isinstance(r, tuple) and len(r) == 1, r
                    return 'ok', r[0]
                raise ValueError(variant)
            if act['op'] == 'evaluate_list':
                addrs = [W.addr(n) for n in act['ns']]
                if variant in ('str', 'list1'):
                    return 'ok', list(self.m.evaluate(addrs))
                if variant == 'tuple1':
                    return 'ok', list(self.m.evaluate(tuple(addrs)))
                if variant == 'gen1':
                    return 'ok', list(self.m.evaluate(a for a in addrs))
                if variant == 'object':
                    return 'ok', list(self.m.evaluate([AddressRange(a) for a in addrs]))
                if variant in ('nosheet', 'nosheet_object'):
                    return 'ok', list(self.m.evaluate(
                        [AddressRange(n) for n in act['ns']]))
                raise ValueError(variant)
            if act['op'] == 'set_value':
                self.m.set_value(W.addr(act['n']), W.py_val(act['v']))
                return 'ok', None
            if act['op'] == 'recalculate':
                self.m.recalculate()
                return 'ok', None
            if act['op'] == 'set_many':
                addrs = [p[0] for p in act['pairs']]
                vals = [W.py_val(p[1]) for p in act['pairs']]
                # as a range with a matrix of values when the cells are exactly a range
                for r, rows in self.wb.get('ranges', {}).items():
                    if [c for row in rows for c in row] == addrs and variant != 'list1':
                        it = iter(vals)
                        self.m.set_value(W.addr(r), [[next(it) for _ in row] for row in rows])
                        return 'ok', None
                if variant == 'tuple1':
                    self.m.set_value(tuple(W.addr(a) for a in addrs), tuple(vals))
                else:
                    self.m.set_value([W.addr(a) for a in addrs], vals)
                return 'ok', None
        except Exception as exc:          # noqa
            return 'exc', f'{type(exc).__name__}: {exc}'
        raise ValueError(act)


def state_matches(spec_state, proj, one_none=False):
    """compare the projection of the real object with the spec state;
    one_none: the two kinds of "no value" (reset / never known) are one"""
    diffs = []
    if sorted(spec_state['built']) != proj['built']:
        diffs.append(('built', sorted(spec_state['built']), proj['built']))
    plain = (lambda x: ['?'] if x == ['?!'] else x) if one_none else (lambda x: x)
    for n, v in (spec_state['cache'] if isinstance(spec_state['cache'], dict) else {}).items():
        if plain(proj['cache'].get(n)) != plain(v):
            diffs.append(('cache', n, v, proj['cache'].get(n)))
    if sorted(map(tuple, spec_state['edges'])) != sorted(map(tuple, proj['edges'])):
        diffs.append(('edges', sorted(map(tuple, spec_state['edges'])),
                      sorted(map(tuple, proj['edges']))))
    if spec_state['changed'] != proj['changed']:
        diffs.append(('changed', spec_state['changed'], proj['changed']))
    return diffs


def tour(g, make_model, on_step, max_steps=None, rnd=None):
    """Walk covering every edge of g at least once.

    make_model() -> RealModel in the initial state
    on_step(model, from_key, act, spec_ret, to_key, history) -> None
    Returns (steps, restarts, edges_covered).
    """
    unvisited = {k: list(range(len(v))) for k, v in g.out.items()}
    remaining = g.n_edges
    total = remaining
    steps = restarts = 0
    cur, model, hist = g.init, make_model(), []
    budget = float(os.environ.get('VERIF_TOUR_BUDGET', '600'))    # seconds per tour
    t0 = time.time()
    g.tour_truncated = False

    def bfs(start, limit=3000):
        """shortest path (list of edge indexes) to a state with unvisited edges,
        looking at no more than `limit` states"""
        prev = {start: None}
        dq = collections.deque([start])
        while dq:
            s = dq.popleft()
            if unvisited.get(s):
                path = []
                while prev[s] is not None:
                    ps, i = prev[s]
                    path.append((ps, i))
                    s = ps
                return path[::-1]
            if len(prev) > limit:
                return None
            for i, (_, _, t) in enumerate(g.out.get(s, ())):
                if t not in prev:
                    prev[t] = (s, i)
                    dq.append(t)
        return None

    # shortest paths from the initial state (computed once, when first needed):
    # after a restart the tour walks straight to some state with unvisited edges
    tree = {}
    order = []

    def from_init():
        if not tree:
            tree[g.init] = None
            dq = collections.deque([g.init])
            while dq:
                s = dq.popleft()
                order.append(s)
                for i, (_, _, t) in enumerate(g.out.get(s, ())):
                    if t not in tree:
                        tree[t] = (s, i)
                        dq.append(t)
            order.reverse()          # pop() gives the states nearest to the start first
        while order and not unvisited.get(order[-1]):
            order.pop()
        if not order:
            return None
        s, path = order[-1], []
        while tree[s] is not None:
            ps, i = tree[s]
            path.append((ps, i))
            s = ps
        return path[::-1]

    while remaining:
        if max_steps and steps >= max_steps:
            break
        if time.time() - t0 > budget:
            g.tour_truncated = True
            break
        if unvisited.get(cur):
            lst = unvisited[cur]
            i = lst.pop(rnd.randrange(len(lst)) if rnd else -1)
            remaining -= 1
            plan = [(cur, i)]
        else:
            plan = bfs(cur) if len(hist) <= 400 else None
            if plan is None:
                cur, model, hist = g.init, make_model(), []
                restarts += 1
                plan = from_init()
                if plan is None:
                    break
                if not plan:
                    continue
        for (s, i) in plan:
            act, ret, t = g.out[s][i]
            if i in unvisited.get(s, ()):
                unvisited[s].remove(i)
                remaining -= 1
            hist.append(act)
            on_step(model, s, act, ret, t, hist)
            steps += 1
            cur = t
    return steps, restarts, total - remaining


# ---------------------------------------------------------------------------
# Trim.tla (C08)

def canon_tstate(s):
    return json.dumps(dict(
        inp=s['inp'], built=sorted(s['built']), cache=s['cache'],
        edges=sorted(map(tuple, s['edges'])), changed=s['changed'],
        frozen=sorted(s['frozen']), trimmed=s['trimmed'],
        trimio=[sorted(x) for x in s['trimio']]), sort_keys=True)


def gen_trim_graph(name, wb, pool, src, choices, settable=None, timeout=1800):
    d = tlc.new_scratch('trim')
    mod = f'MC_{name}_{src}'
    ch = W.tla_set('<<' + W.tla_set(map(W.q, i)) + ', ' + W.tla_set(map(W.q, o)) + '>>'
                   for i, o in choices)
    with open(os.path.join(d, mod + '.tla'), 'w') as f:
        f.write(W.tla_constants(wb, pool, src, mod, settable=settable, extends='Trim',
                                extra=f'MCTrimChoices == {ch}'))
    with open(os.path.join(d, 'gen.cfg'), 'w') as f:
        f.write(W.CONST_CFG + '  TrimChoices <- MCTrimChoices\n'
                'SPECIFICATION TSpec\nVIEW tview\n'
                'INVARIANT TrimEquiv\nINVARIANT CoherentT\nINVARIANT InputsMirrorT\n'
                'INVARIANT FrozenHaveValues\nINVARIANT TPrintInit\n'
                'ACTION_CONSTRAINT TPrintEdge\n')
    res = tlc.run(mod, os.path.join(d, 'gen.cfg'), spec_dir=d, workers=1,
                  library=tlc.SPEC, timeout=timeout, heap='3g')
    if not res.ok:
        raise tlc.MachineryFailure(
            f'Trim model {name}/{src} violates {res.violated}:\n'
            + '\n'.join(l for l in res.stdout.splitlines()
                        if not l.startswith('"'))[-3000:])
    g = Graph()
    g.tlc = res
    seen = set()
    for rec in res.json:
        if 'init' in rec:
            k = canon_tstate(rec['init'])
            g.init = k
            g.states[k] = rec['init']
            continue
        kf, kt = canon_tstate(rec['from']), canon_tstate(rec['to'])
        g.states.setdefault(kf, rec['from'])
        g.states.setdefault(kt, rec['to'])
        ak = json.dumps(rec['act'], sort_keys=True)
        if (kf, ak) in seen:
            continue
        seen.add((kf, ak))
        g.out[kf].append((rec['act'], rec['ret'], kt))
    res.stdout, res.json = '', []
    if len(g.states) != res.distinct:
        raise tlc.MachineryFailure(
            f'export incomplete: {len(g.states)} states parsed, TLC found {res.distinct}')
    return g


# ---------------------------------------------------------------------------
# Validate.tla (C12)

def run_validate_model(name, wb, outlists, tols, perturbs, broken, timeout=1800):
    """TLC explores validate_calcs for every (perturbation, outputs, tol) choice;
    returns (tlc result, list of exported final reports)"""
    d = tlc.new_scratch('val')
    mod = f'MC_{name}_val'
    extra = '\n'.join([
        'MCOutputLists == ' + W.tla_set(W.tla_seq(map(W.q, o)) for o in outlists),
        'MCTols == ' + W.tla_set(map(str, tols)),
        'MCPerturbs == ' + W.tla_set(f'<<{W.q(c)}, {W.tla_val(v)}>>' for c, v in perturbs),
        'MCBroken == ' + W.tla_set(map(W.q, broken)),
    ])
    with open(os.path.join(d, mod + '.tla'), 'w') as f:
        f.write(W.tla_constants(wb, [1], 'Stored', mod, extends='Validate', extra=extra))
    with open(os.path.join(d, 'v.cfg'), 'w') as f:
        f.write(W.CONST_CFG + '  OutputLists <- MCOutputLists\n  Tols <- MCTols\n'
                '  Perturbs <- MCPerturbs\n  Broken <- MCBroken\n'
                'SPECIFICATION VSpec\n'
                'INVARIANT ConsistentEmpty\nINVARIANT PerturbedNamed\n'
                'INVARIANT OnlyDependants\nINVARIANT UnevaluableReported\n'
                'INVARIANT Export\n')
    res = tlc.run(mod, os.path.join(d, 'v.cfg'), spec_dir=d, workers=1,
                  library=tlc.SPEC, timeout=timeout, heap='3g')
    if not res.ok:
        raise tlc.MachineryFailure(
            f'Validate model {name} violates {res.violated}:\n'
            + '\n'.join(l for l in res.stdout.splitlines()
                        if not l.startswith('"'))[-3000:])
    return res, res.json


# ---------------------------------------------------------------------------
# EngineIter.tla (C06)

def canon_istate(s):
    return json.dumps(dict(inp=s['inp'], built=sorted(s['built']), val=s['val'],
                           prev=s['prev'], passes=s['passes'], todo=sorted(s['todo']),
                           changed=s.get('changed', False)),
                      sort_keys=True)


def gen_iter_graph(name, wb, pool, choices, acyclic, settable=None, timeout=1800, depth=0,
                   src='NoData'):
    d = tlc.new_scratch('iter')
    mod = f'MC_{name}_iter'
    ch = W.tla_set(f'<<{n}, {t}>>' for n, t in choices)
    with open(os.path.join(d, mod + '.tla'), 'w') as f:
        f.write(W.tla_constants(wb, pool, src, mod, settable=settable,
                                extends='EngineIter',
                                extra=f'MCIterChoices == {ch}\nMCAcyclic == {"TRUE" if acyclic else "FALSE"}'))
    with open(os.path.join(d, 'gen.cfg'), 'w') as f:
        f.write(W.CONST_CFG + '  IterChoices <- MCIterChoices\n  Acyclic <- MCAcyclic\n'
                'SPECIFICATION ISpec\nVIEW iview\n'
                'INVARIANT PassBound\nINVARIANT HonestStop\nINVARIANT AcyclicAgrees\n'
                'INVARIANT AcyclicTwoPasses\nINVARIANT IPrintInit\n'
                'ACTION_CONSTRAINT IPrintEdge\n'
                + (f'CONSTRAINT Depth{depth}\n' if depth else ''))
    res = tlc.run(mod, os.path.join(d, 'gen.cfg'), spec_dir=d, workers=1,
                  library=tlc.SPEC, timeout=timeout, heap='3g')
    if not res.ok:
        raise tlc.MachineryFailure(
            f'EngineIter model {name} violates {res.violated}:\n'
            + '\n'.join(l for l in res.stdout.splitlines()
                        if not l.startswith('"'))[-3000:])
    g = Graph()
    g.tlc = res
    seen = set()
    for rec in res.json:
        if 'init' in rec:
            k = canon_istate(rec['init'])
            g.init = k
            g.states[k] = rec['init']
            continue
        kf, kt = canon_istate(rec['from']), canon_istate(rec['to'])
        g.states.setdefault(kf, rec['from'])
        g.states.setdefault(kt, rec['to'])
        ak = json.dumps(rec['act'], sort_keys=True)
        if (kf, ak) in seen:
            continue
        seen.add((kf, ak))
        g.out[kf].append((rec['act'], rec['ret'], kt))
    res.stdout, res.json = '', []
    if len(g.states) != res.distinct:
        raise tlc.MachineryFailure(
            f'export incomplete: {len(g.states)} states parsed, TLC found {res.distinct}')
    return g


# ---------------------------------------------------------------------------
# EngineFail.tla (C09, plain mode)

def canon_fstate(s):
    ovr = s['ovr'] if isinstance(s['ovr'], dict) else {}
    return json.dumps(dict(
        inp=s['inp'], built=sorted(s['built']), cache=s['cache'],
        edges=sorted(map(tuple, s['edges'])), changed=s['changed'],
        broken=sorted(s['broken']), ovr=ovr), sort_keys=True)


def gen_fail_graph(name, wb, pool, src, breakable, init_broken, dynamic,
                   settable=None, timeout=1800, depth=0, fail_early=()):
    d = tlc.new_scratch('fail')
    mod = f'MC_{name}_fail'
    extra = (f'MCBreakable == {W.tla_set(map(W.q, breakable))}\n'
             f'MCInitBroken == {W.tla_set(map(W.q, init_broken))}\n'
             f'MCDynamic == {"TRUE" if dynamic else "FALSE"}\n'
             f'MCFailEarly == {W.tla_set(map(W.q, fail_early))}\n'
             f'DepthBound == TLCGet("level") <= {depth or 99}')
    with open(os.path.join(d, mod + '.tla'), 'w') as f:
        f.write(W.tla_constants(wb, pool, src, mod, settable=settable,
                                extends='EngineFail', extra=extra))
    with open(os.path.join(d, 'gen.cfg'), 'w') as f:
        f.write(W.CONST_CFG + '  Breakable <- MCBreakable\n  InitBroken <- MCInitBroken\n'
                '  Dynamic <- MCDynamic\n  FailEarly <- MCFailEarly\n'
                'SPECIFICATION FSpec\nVIEW fview\n'
                'INVARIANT ReturnsTrue\nINVARIANT RaiseJustified\nINVARIANT CoherentF\n'
                'INVARIANT UnrelatedOK\nINVARIANT FPrintInit\n'
                'ACTION_CONSTRAINT FPrintEdge\n'
                + ('CONSTRAINT DepthBound\n' if depth else ''))
    res = tlc.run(mod, os.path.join(d, 'gen.cfg'), spec_dir=d, workers=1,
                  library=tlc.SPEC, timeout=timeout, heap='3g')
    if not res.ok:
        raise tlc.MachineryFailure(
            f'EngineFail model {name}/{src} violates {res.violated}:\n'
            + '\n'.join(l for l in res.stdout.splitlines()
                        if not l.startswith('"'))[-3000:])
    g = Graph()
    g.tlc = res
    seen = set()
    for rec in res.json:
        if 'init' in rec:
            k = canon_fstate(rec['init'])
            g.init = k
            g.states[k] = rec['init']
            continue
        kf, kt = canon_fstate(rec['from']), canon_fstate(rec['to'])
        g.states.setdefault(kf, rec['from'])
        g.states.setdefault(kt, rec['to'])
        ak = json.dumps(rec['act'], sort_keys=True)
        if (kf, ak) in seen:
            continue
        seen.add((kf, ak))
        g.out[kf].append((dict(rec['act'], raised=rec['raised']), rec['ret'], kt))
    res.stdout, res.json = '', []
    if len(g.states) != res.distinct:
        raise tlc.MachineryFailure(
            f'export incomplete: {len(g.states)} states parsed, TLC found {res.distinct}')
    return g


# ---------------------------------------------------------------------------
# Reload.tla (C03: save/load at any point of a history)

def canon_rstate(s):
    return json.dumps(dict(
        inp=s['inp'], built=sorted(s['built']), cache=s['cache'] if isinstance(s['cache'], dict) else {},
        edges=sorted(map(tuple, s['edges'])), changed=s['changed'], reloaded=s['reloaded']),
        sort_keys=True)


def gen_reload_graph(name, wb, pool, src, settable=None, timeout=1800):
    d = tlc.new_scratch('reload')
    mod = f'MC_{name}_{src}_rl'
    with open(os.path.join(d, mod + '.tla'), 'w') as f:
        f.write(W.tla_constants(wb, pool, src, mod, settable=settable, extends='Reload'))
    with open(os.path.join(d, 'gen.cfg'), 'w') as f:
        f.write(W.CONST_CFG + 'SPECIFICATION RSpec\nVIEW rview\n'
                'INVARIANT CoherentR\nINVARIANT RetOKR\nINVARIANT MirrorR\n'
                'INVARIANT EdgesComplete\nPROPERTY SameCells\n'
                'INVARIANT RPrintInit\nACTION_CONSTRAINT RPrintEdge\n')
    res = tlc.run(mod, os.path.join(d, 'gen.cfg'), spec_dir=d, workers=1,
                  library=tlc.SPEC, timeout=timeout, heap='3g')
    if not res.ok:
        raise tlc.MachineryFailure(
            f'Reload model {name}/{src} violates {res.violated}:\n'
            + '\n'.join(l for l in res.stdout.splitlines()
                        if not l.startswith('"'))[-3000:])
    g = Graph()
    g.tlc = res
    seen = set()
    for rec in res.json:
        if 'init' in rec:
            k = canon_rstate(rec['init'])
            g.init = k
            g.states[k] = rec['init']
            continue
        kf, kt = canon_rstate(rec['from']), canon_rstate(rec['to'])
        g.states.setdefault(kf, rec['from'])
        g.states.setdefault(kt, rec['to'])
        ak = json.dumps(rec['act'], sort_keys=True)
        if (kf, ak) in seen:
            continue
        seen.add((kf, ak))
        g.out[kf].append((rec['act'], rec['ret'], kt))
    res.stdout, res.json = '', []
    if len(g.states) != res.distinct:
        raise tlc.MachineryFailure(
            f'export incomplete: {len(g.states)} states parsed, TLC found {res.distinct}')
    return g
