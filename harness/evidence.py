"""Evidence files and the verdict protocol shared by every check."""
import json
import os
import sys
import time

VERIF = os.path.dirname(os.path.dirname(os.path.abspath(__file__)))
EVID = os.path.join(VERIF, 'evidence')
FINDINGS = os.path.join(VERIF, 'known_findings.json')


def load_findings(pid):
    """Entries of known_findings.json for one property (read-only)."""
    try:
        with open(FINDINGS) as f:
            data = json.load(f)
    except FileNotFoundError:
        return []
    return [e for e in data.get('findings', []) if e.get('property') == pid]


class Verdict:
    """Collects what a check run covered and what it found."""

    def __init__(self, pid, tier, seed, level='model_checking'):
        self.pid, self.tier, self.seed, self.level = pid, tier, seed, level
        self.t0 = time.time()
        self.violations = []     # list of dict(desc=..., case=...)
        self.known = {}          # finding id -> list of cases
        self.notes = []
        self.states = 0
        self.transitions = 0
        self.traces = 0
        self.evaluations = 0
        self.distinct = set()
        self.samples = []
        self.extra = {}
        self.assumptions = []
        self.tlc_runs = []
        self.findings = {e['id']: e for e in load_findings(pid)
                         if e.get('status') == 'known'}

    # -- accounting ------------------------------------------------------
    def add_tlc(self, res, label):
        self.states += res.distinct
        self.transitions += res.generated
        self.tlc_runs.append(dict(run=label, distinct=res.distinct,
                                  generated=res.generated, depth=res.depth,
                                  wall_s=round(res.wall, 2)))

    def sample(self, obj, limit=6):
        if len(self.samples) < limit:
            self.samples.append(obj)

    def case(self, key, nontrivial=True):
        self.evaluations += 1
        if nontrivial:
            self.distinct.add(key)

    def note(self, text):
        if len(self.notes) < 50:
            self.notes.append(text)
        print('NOTE ' + text)

    # -- findings ----------------------------------------------------------
    def violation(self, desc, case):
        self.violations.append(dict(desc=desc, case=case))

    def known_finding(self, fid, desc, case):
        """Attribute a discrepancy to a listed finding (must be listed)."""
        if fid not in self.findings:
            self.violation(desc + f' [unlisted finding id {fid}]', case)
            return
        self.known.setdefault(fid, []).append(dict(desc=desc, case=case))

    # -- end ---------------------------------------------------------------
    def finish(self):
        evid = EVID
        if os.environ.get('VERIF_REPO_SRC', '/repo/src') != '/repo/src':
            # a run against a scratch copy (seeded change) never touches the evidence
            evid = os.path.join(VERIF, 'evidence_scratch')
        elif not self.pid.startswith('C'):
            # coverage modules beyond the listed properties (X01 ...)
            evid = os.path.join(VERIF, 'evidence_extra')
        os.makedirs(evid, exist_ok=True)
        wall = time.time() - self.t0
        cov = dict(
            states=max(self.states, 0),
            transitions=max(self.transitions, 0),
            traces_validated_against_impl=self.traces,
            evaluations=self.evaluations,
            distinct_nontrivial=len(self.distinct),
            samples=self.samples or ['(none)'],
            tlc_runs=self.tlc_runs,
            notes=self.notes,
            known_findings_seen={k: len(v) for k, v in self.known.items()},
        )
        cov.update(self.extra)
        ev = dict(property_id=self.pid, tier=self.tier, seed=self.seed,
                  level=self.level, coverage=cov,
                  assumptions=self.assumptions, wall_s=round(wall, 2),
                  violations=len(self.violations))
        path = os.path.join(evid, self.pid + '.json')
        with open(path, 'w') as f:
            json.dump(ev, f, indent=1, default=str)
        for fid, cases in sorted(self.known.items()):
            e = self.findings[fid]
            print(f"KNOWN-FINDING: property={self.pid} {fid} {e.get('what', '')} "
                  f"({len(cases)} case(s), first: {json.dumps(cases[0]['case'], default=str)[:300]})")
        if self.violations:
            rdir = os.path.join(VERIF, 'replays' if evid == EVID else 'replays_scratch')
            os.makedirs(rdir, exist_ok=True)
            seen = set()
            for i, v in enumerate(self.violations[:20]):
                rp = os.path.join(rdir, f'{self.pid}_{self.tier}_{i}.json')
                with open(rp, 'w') as f:
                    json.dump(dict(property=self.pid, **v), f, indent=1, default=str)
                print(f"VIOLATION property={self.pid} replay={rp}")
                d = v['desc']
                if d not in seen:
                    seen.add(d)
                    print('  ' + d[:600])
            print(f'{self.pid}: {len(self.violations)} violation(s) '
                  f'in {wall:.1f}s')
            return 1
        print(f'{self.pid}: OK tier={self.tier} states={self.states} '
              f'transitions={self.transitions} traces={self.traces} '
              f'cases={self.evaluations} distinct={len(self.distinct)} '
              f'wall={wall:.1f}s')
        return 0
