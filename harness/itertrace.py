"""C06, code -> spec: iterative evaluate() calls of real cycles=True models on
random circular (and acyclic) workbooks, recorded event by event and validated
by TLC against spec/TraceIter.tla (batched, total verdicts)."""
import json
import os
from fractions import Fraction

from harness import tlc, workbooks as W, xl

REL = Fraction(100001, 100000)      # the closeness slack of the code (1 + 1e-5)


# ---------------------------------------------------------------------------
# random workbooks
def random_cyclic(rnd):
    """a dyadic linear system  x = Ax + b  with max row sum q <= 1/2 (so it
    contracts in the maximum norm), some cells reading a SUM over a range of
    inputs; returns a workbook record (harness.workbooks format) and q"""
    n = rnd.randint(2, 7)
    fcells = [f'{"ABCDEFG"[i]}1' for i in range(n)]
    inputs = {f'{"ABCDEFG"[i]}3': rnd.choice([0, 1, 2, 3, 5, 8, 40, 4000]) for i in range(rnd.randint(1, 3))}
    formulas, ranges = {}, {}
    q = Fraction(0)
    in_names = sorted(inputs)
    if len(in_names) >= 2 and rnd.random() < 0.5:
        rname = f'{in_names[0]}:{in_names[-1]}'
        cols = 'ABCDEFG'
        lo, hi = cols.index(in_names[0][0]), cols.index(in_names[-1][0])
        ranges[rname] = [[f'{cols[c]}3' for c in range(lo, hi + 1)]]
        for cell in ranges[rname][0]:
            inputs.setdefault(cell, 0)
        formulas['A5'] = ('SumR', rname)         # reads inputs only: outside every cycle
    for i, c in enumerate(fcells):
        k = rnd.randint(1, min(3, n))
        refs = rnd.sample(fcells, k)
        if rnd.random() < 0.3:
            refs[0] = c                          # a self reference
        if rnd.random() < 0.6:
            refs.append(rnd.choice(sorted(inputs) + (['A5'] if 'A5' in formulas else [])))
        refs = list(dict.fromkeys(refs))
        coefs = [rnd.choice([1, 1, 1, 2, 3]) for _ in refs]
        weight = sum(cf for r, cf in zip(refs, coefs) if r in fcells)
        shift = 1
        while Fraction(weight, 2 ** shift) > Fraction(1, 2):
            shift += 1
        shift += rnd.choice([0, 0, 1])
        formulas[c] = ('Lin', refs, coefs, shift, rnd.choice([0, 1, 2, 7]))
        q = max(q, Fraction(weight, 2 ** shift))
    return dict(scale=65536, inputs=inputs, formulas=formulas, ranges=ranges), q, fcells


def fixed_point(wb, inputs):
    from harness.checks.c06 import fixed_point as fp
    return fp(wb, inputs)


# ---------------------------------------------------------------------------
# recorder
def moved(prev, value, tol):
    """did the cell change by more than the tolerance?  (exact)"""
    if prev is None:
        return True
    if isinstance(prev, tuple) and isinstance(value, tuple):
        return len(prev) != len(value) or any(
            x is not None and moved(p, x, tol) for p, x in zip(prev, value))
    num = lambda x: isinstance(x, (int, float)) and not isinstance(x, bool)     # noqa
    if num(prev) and num(value):
        try:
            return abs(Fraction(value) - Fraction(prev)) > REL * Fraction(tol)
        except (ValueError, OverflowError):
            return prev != value
    return prev != value or type(prev) is not type(value)


class Recorder:
    """records the events of evaluate() calls of one model"""

    def __init__(self, model):
        self.m = model

    def evaluate(self, address, iterations, tolerance):
        from pycel import _verif
        from pycel.excelutil import _IterativeEvalTracker, iterative_eval_tracker as trk
        events, values = [], []
        begun = []                      # stack of (cell, value before)
        pending = []                    # ended cells whose new value is not stored yet

        def settle():
            # the value a cell holds is stored after the end-of-evaluation hook
            # (for a reference cell it is the values of the range, not the reference)
            for ev, cell, before, vals in pending:
                after = getattr(cell, '_value', None)
                ev['moved'] = bool(moved(before, after, tolerance))
                if vals is not None:
                    vals[ev['c']] = (before, after)
            del pending[:]

        orig = _IterativeEvalTracker.inc_iteration_number

        def counting(self_):
            settle()
            events.append(dict(ev='pass'))
            values.append({})
            return orig(self_)

        def name(formula):
            return W.node_of(formula.cell.address.address) if formula.cell is not None else '?'

        def sink(kind, formula, *rest):
            settle()
            if kind == 'begin':
                cell = formula.cell
                # start_calcs() has run: the value before is _prev_value
                begun.append((name(formula), getattr(cell, '_prev_value', None)))
                events.append(dict(ev='begin', c=name(formula)))
            elif kind == 'end':
                c, before = begun.pop() if begun else (name(formula), None)
                ev = dict(ev='end', c=name(formula), moved=True)
                events.append(ev)
                if hasattr(formula.cell, '_prev_value'):
                    pending.append((ev, formula.cell, before, values[-1] if values else None))
                else:
                    # the range of a CSE array formula: it is cleared at every pass and
                    # holds no previous value; its member cells carry the comparison
                    ev['moved'] = False
            elif kind == 'fail':
                if begun:
                    begun.pop()
                events.append(dict(ev='fail', c=name(formula)))

        _IterativeEvalTracker.inc_iteration_number = counting
        prev_sink = _verif.set_sink(sink)
        try:
            try:
                got = self.m.evaluate(address, iterations=iterations, tolerance=tolerance)
                settle()
                todo = sorted(W.node_of(c.address.address) for c in trk.ns.todo
                              if getattr(c, 'formula', None))
                events.append(dict(ev='return', k=trk.ns.iteration_number, todo=todo))
                status = 'ok'
            except Exception as exc:      # noqa
                got = f'{type(exc).__name__}: {exc}'
                settle()
                events.append(dict(ev='raised'))
                status = 'exc'
        finally:
            _verif.set_sink(prev_sink)
            _IterativeEvalTracker.inc_iteration_number = orig
        return status, got, events, values


# ---------------------------------------------------------------------------
# TLC
def validate(traces, workers=1):
    """traces: list of dict(iterations=N, events=[..]); returns (TLCResult,
    list of (verdict, line, drift) per trace)"""
    d = tlc.new_scratch('ti')
    path = os.path.join(d, 'traces.json')
    with open(path, 'w') as f:
        json.dump([dict(iterations=t['iterations'], events=t['events']) for t in traces], f)
    res = tlc.run('TraceIter', 'TraceIter.cfg', workers=1, env=dict(TRACE_FILE=path),
                  deadlock=True, timeout=1800, heap='4g')
    verdicts = None
    for rec in res.json:
        if isinstance(rec, dict) and 'verdicts' in rec:
            verdicts = rec['verdicts']
    if verdicts is None or len(verdicts) != len(traces):
        raise tlc.MachineryFailure('TraceIter did not report a verdict per trace:\n'
                                   + res.stdout[-2000:])
    return res, [tuple(x) for x in verdicts]
