"""Entry point: python -m harness.main <id> [--tier quick|thorough] [--replay p]"""
import argparse
import importlib
import os
import sys
import traceback

from harness.tlc import MachineryFailure


def main(argv=None):
    ap = argparse.ArgumentParser()
    ap.add_argument('pid')
    ap.add_argument('--tier', default=os.environ.get('VERIF_TIER', 'quick'),
                    choices=('quick', 'thorough'))
    ap.add_argument('--replay', default=None)
    args = ap.parse_args(argv)
    seed = int(os.environ.get('VERIF_SEED', '0') or 0)
    pid = args.pid.upper()
    os.chdir(os.path.dirname(os.path.dirname(os.path.abspath(__file__))))
    try:
        mod = importlib.import_module('harness.checks.' + pid.lower())
        if args.replay:
            if not hasattr(mod, 'replay'):
                from harness import replay_generic
                return replay_generic.replay(args.replay)
            return mod.replay(args.replay)
        return mod.run(args.tier, seed)
    except MachineryFailure as exc:
        print(f'MACHINERY-FAILURE {pid}: {exc}')
        return 2
    except Exception:
        traceback.print_exc()
        print(f'MACHINERY-FAILURE {pid}: unexpected exception in the harness')
        return 2


if __name__ == '__main__':
    sys.exit(main())
