"""Regenerates MANIFEST.json from the table below (single source)."""
import json
import os

VERIF = os.path.dirname(os.path.dirname(os.path.abspath(__file__)))

CHECKS = {
 'C02': dict(
    technique='Formula.tla: token automaton generating every well-formed formula up to N tokens plus a reference recursive-descent parser/evaluator (values and references) over exact rationals (operator meaning from ExcelValues.tla), model-checked by TLC; every formula compiled and evaluated by pycel in several spellings',
    text='TLC enumerates all formulas of the grammar (literals incl. doubled quotes/backslash/newline/braces, references, prefix -/+, postfix %, all binary operators, parentheses, SUM/IF calls, ROW/COLUMN/OFFSET/LEN with reference positions kept apart from value positions, references into sheets whose names hold a dollar sign, an apostrophe, a double quote or look like generated code) up to 5 tokens (7 thorough; nests of calls up to 13, sampled beyond), checks PrintParse and RedundantParens on the reference semantics and exports (tokens, value); each is rendered with whitespace/case/extra-parentheses variants, compiled with ExcelFormula and evaluated directly and inside a workbook; the result must equal the reference value.',
    note='values past the 32-bit guard, non-dyadic comparisons, 0^0, SUM of typed-in text/logicals, two-argument IF are skipped and counted',
    ref='§3 C02'),
 'C01': dict(
    technique='TLA+ model of the lazy engine (Engine.tla) checked exhaustively by TLC; every transition of the reachable graph replayed on the real ExcelCompiler with state projection; oracle = from-scratch compile',
    text='TLC explores all set_value/evaluate histories (unbounded length, finite state) of the implementation-shaped engine model for several workbooks (chains, ranges, nested ranges, unbounded ranges, CSE arrays) x sources (no data, xlsx with stored results, from_file of yml/json/pkl) and checks Coherent/RetOK/Closure/EdgesComplete; an edge-covering tour then executes every model transition on the real object, comparing each evaluate result with a from-scratch compile and the full abstract state with the model.',
    note='assumes the projection (cell_map, values, dep_graph edges, _values_changed) captures the state behaviour depends on; workbooks are the listed 6-8 node shapes, values from an 5-8 value pool',
    ref='§3 C01'),
 'C03': dict(
    technique='Persist.tla (text file, pickle file, pickle-reuse rule with named deviation DEV_StalePickle, extension search order) checked by TLC; every history of the code-rule model executed on real files; attribution of known findings by the deviation model; lock-step original/loaded histories in same process, fresh thread and fresh process; Reload.tla (save/load at any point of an Engine history) toured on real models',
    text='TLC checks LoadedEquiv and SaveIdempotent for the repaired protocol and exports all histories (depth <= 5) of to_file/from_file/set_value/extra_data edits for both rules; each is executed on real yml/json/pkl files: a model loaded from a current file must equal the live model (values of all saved cells, extra_data), an unchanged re-save must be byte-identical, saving the loaded model again must reproduce the content it was read from (ResaveReproduces); a discrepancy is D9 only if the deviation model predicts exactly the observed content.  Content fidelity over a 55-value adversarial pool x 3 formats (D10 by predictor), random post-load histories in lock-step on random workbooks (cycles on/off; same process, new thread, new process), save(load(f)) content, metadata and source-hash survival; Reload.tla composes to_file/from_file with the Engine model (same cell map, complete edges, coherent cache after the eager range evaluation) and every transition is executed on real models.',
    note='content abstracted to input constants + metadata in the model; yaml/json byte encoding exercised by the pool, not modelled; quick tier samples 1500 protocol histories per text format',
    ref='§3 C03'),
 'C04': dict(
    technique='TLA+ enumeration of written reference forms (RefForms.tla, TLC checks the declaration rule covers every influencing cell); read/build traces recorded from the real code through the PYCEL_VERIF hooks are validated by TLC against ReadTrace.tla',
    text='TLC enumerates 3.8k formula descriptors (plain, sheet-qualified, quoted, $-absolute, range, intersection, union, multi-colon, defined names single/multi-area, ROW/COLUMN/INDEX forms, IF branches, unbounded rows/columns, CSE members); each is compiled and evaluated in two value environments with hooks on; a read is accepted by the trace specification only if it is covered by a declared precedent of the reading node and by one of its dependency-graph predecessors, and the final event only if every influencing rectangle is a graph ancestor.',
    note='computed references (OFFSET/INDIRECT) excluded as in the statement; a formula whose evaluation raises is counted as unjudged; quick tier samples 70 descriptors per form',
    ref='§3 C04'),
 'C05': dict(
    technique='Engine.tla with observer ranges, unbounded rows/columns and address lists explored exhaustively by TLC; every transition replayed on the real object under every address spelling; all first-evaluation permutations replayed as paths of the TLC graph',
    text='Every access path (cell, enclosing rectangle, A:A / 1:1, address list/tuple/generator, sheet-less address, address objects) is an action of the model and every first-evaluation order a path of its state graph; TLC checks RetOK/Coherent on all of them, and the tour executes each transition on the real ExcelCompiler comparing each returned element with evaluate(cell) of a from-scratch compile.',
    note='three observer workbooks (chain, nested ranges, CSE array) x sources; one settable input in quick tier; single-sheet workbooks',
    ref='§3 C05'),
 'C20': dict(
    technique='Text.tla: strings built by Append over a symbol alphabet, TEXT formats built by a grammar automaton, model-checked by TLC for the slicing/search/substitute/trim laws and decimal-exact TEXT; vectors executed on lib/text.py and through formulas',
    text='TLC checks SplitLaw, RightLaw, MidLaw, ReplaceLaw, FindLaw (first match), SubstLaw (i-th / all), TrimLaw, idempotence, ExactLaw, RenderLaw and the TEXT rounding/shape laws for every text up to the length bound and all n, k in -1..10, every number x format; each state is executed on the real functions (library calls, every other vector from a thread which did not import the library, and 19 compiled formulas per sampled row).',
    note='MID/FIND with start < 1, SUBSTITUTE with empty or self-overlapping old text, TEXT of negative numbers rounding to zero and comma formats with more than 3 forced digits are executed but not judged',
    ref='§3 C20'),
 'C19': dict(
    technique='TLA+ enumerator machine over exact decimals (Rounding.tla) model-checked by TLC; exported vectors executed on the real functions and formulas',
    text='ROUND/ROUNDUP/ROUNDDOWN/TRUNC/INT/MOD/CEILING*/FLOOR*/EVEN/ODD are defined on integer pairs (k, j); TLC checks bracket, fixed-point, tie, MOD-identity (INT and MOD judged together as allowed pairs, ModPairs) and duality laws on every enumerated state (ties and near-ties generated exactly) and each state is executed on excellib and through compiled formulas.',
    note='CEILING/FLOOR sign conventions with negative arguments accept either neighbour; decimal significances (0.1) and magnitudes beyond 1e9 are outside the domain; binary floats only get the magnitude laws',
    ref='§3 C19'),
 'C06': dict(
    technique='EngineIter.tla (iteration tracker, _CycleCell value/previous/wip, pass loop) explored by TLC for acyclic workbooks and exact dyadic circular systems; every transition replayed on real cycles=True models with pass counting and per-pass values from the hooks',
    text='TLC checks PassBound, HonestStop, AcyclicAgrees and AcyclicTwoPasses over set_value/evaluate histories, build orders and a grid of (iterations, tolerance); the tour executes each transition on the real model: passes counted at inc_iteration_number must not exceed iterations, an early stop requires every cell of the last pass within tolerance, the result must be within q/(1-q) x tolerance of the rationally solved fixed point, acyclic results must equal a non-iterative from-scratch compile, and the projected tracker/cell state must equal the model.',
    note='circular systems are three dyadic linear systems (incl. a cycle through a range) exact at scale 2^16, histories up to depth 3-4; no-data workbooks only',
    ref='§3 C06'),
 'C07': dict(
    technique='Threads.tla: micro-step model of two workloads over per-thread vs shared singleton namespaces, all interleavings checked by TLC (Isolation holds thread-local, counterexample when shared); systematic schedule family executed with real threads under a deterministic baton scheduler at the hook preemption points',
    text='TLC proves Isolation and StackBalanced over every interleaving of iterative / array-formula / plain workloads with thread-local namespaces and must find a violation with a shared namespace (non-vacuity); the real code is bound by (a) solo results equal to the model, (b) every schedule "second workload runs k of its evaluation events, or to completion, inside the j-th event of the first" (both orders, fresh and warmed threads, threads started plainly and inside a copy of the spawning thread\'s context as asyncio.to_thread does, plus random schedules) executed deterministically with real threads: results, pass counts and the tracker/context fields seen at each own event must equal the solo run, (c) every public operation (from_file, evaluate, set_value, trim_graph, value_tree_str) as the first pycel action of a new thread.',
    note='preemption at formula begin/end granularity and at pycel function calls, not bytecode granularity; two threads; a scheduler timeout (overloaded machine) is a machinery failure, never a verdict',
    ref='§3 C07'),
 'C08': dict(
    technique='Trim.tla (Engine + trim_graph written like the code) explored exhaustively by TLC per (inputs, outputs) choice; every transition replayed on the real model, an untrimmed twin and a save/load twin',
    text='TLC checks TrimEquiv (every output evaluation after Trim(I,O) returns Fresh of the untrimmed sheet) over all evaluate/set_value histories before and after the trim for sampled (I,O) choices incl. range inputs and buried inputs; the tour executes every transition on the real ExcelCompiler and compares each output with the untrimmed model under the same assignments, directly and after to_file/from_file (yml, json, pkl), plus the projected state incl. the frozen set.',
    note='outputs are evaluated before the trim (frozen cells need a value); only leaf inputs are assigned after the trim; |I|,|O| <= 2',
    ref='§3 C08'),
 'C09': dict(
    technique='EngineFail.tla (Engine + broken/overwritten cells, sequential depth-first evaluation with failure) explored exhaustively by TLC; fault-enumeration replay of every transition on real models in plain and iterative mode',
    text='Every formula cell in turn is made to fail (unknown function, raising plugin, plugin switched between calls = "raises on its k-th call"); TLC checks ReturnsTrue, RaiseJustified, CoherentF and UnrelatedOK over all evaluate/set_value/repair/break/heal histories; each transition is executed on the real code: cells not depending on a failing cell must return the value of a fresh model, dependants must raise a pycel exception (or return that true value when legitimately cached), repaired cells behave as constants, and after every call the error-message list, array-context stack, wip flags and todo lists are clean; plain mode also compares the projected state.',
    note='iterative mode is judged by observables only; known finding D29 (overwrite ignored in iterative mode) attributed by predictor; after a repair the precedents of the overwritten cell are not changed',
    ref='§3 C09'),
 'C10': dict(
    technique='ExcelValues.tla (total operator definitions on tagged values, text as character codes) + Operators.tla enumerator over ops x pool^2 (pool^3 for transitivity), model-checked by TLC; every state executed three ways on the code',
    text='TLC checks Total, ErrLeftFirst, DivZero, Coercion, Trichotomy, TypeOrder, CaseBlind, ConcatRender, Algebra, Transitive, BeyondIsText (numeric-looking text beyond the double range), Overflow (results beyond the double range are #NUM!), Closed (every result fed back through the operators) and ForeignIsText (texts of non-ASCII digits) on the definitions for 14 operators over the value pool; each (op, a, b) is executed as literals in a formula, as cell operands and directly through the operand fixup; the result must equal the definition, type-exact.',
    note='0^0, ordering of texts with punctuation, currency/date-like text and the bands next to the limits of a double (1E308..1E309, below 1E-307) are unconstrained (totality still required)',
    ref='§3 C10'),
 'C11': dict(
    technique='Address.tla (column letters, print/parse, R1C1, rectangle lattice) model-checked by TLC over boundary walks, sheet-name strings and all rectangle pairs/triples of a 3x3 (4x4) grid; every state executed on AddressRange/AddressCell',
    text='TLC checks ColInverse/ColSucc, coordinate and sheet-name round trips, offset wrap, cell counts, exact intersection, minimal union, commutativity/associativity/idempotence/absorption on the definitions; each visited state is executed on the real address classes in every notation (A1, quoted, $, R1C1 absolute/relative, tuple) and compared.',
    note='full-column/row abs_coordinate, un-normalised corners, relative R1C1 anchored at a real _Cell and sheet-insensitive `in` are recorded as not judged; 3x3 grid exhaustive, 4x4 in thorough',
    ref='§3 C11'),
 'C12': dict(
    technique='Validate.tla (the validate_calcs work list over the Engine model with stored results) checked by TLC for every (altered cell, stored value, outputs, tolerance) choice; each behaviour realised as an .xlsx with patched stored results and run through validate_calcs',
    text='TLC checks the report relation (consistent => empty; altered reachable cell named with stored and recomputed value; only dependants reported; unevaluable cells under exceptions) on every behaviour of the implementation-shaped work-list model and exports the final report; the same cases are run on real .xlsx files (openpyxl + patched <v> elements, broken cells through an unknown function or a raising plugin) and the returned dict must satisfy the relation; the model report is compared too (drift).',
    note='1<->TRUE family excluded; tolerance None or 2; workbooks are the 5-8 node engine shapes',
    ref='§3 C12'),
 'C13': dict(
    technique='Arrays.tla: shape-growing machine over operand/operand/target shapes with Broadcast/Lift/Fit/Member definitions, model-checked by TLC; every defined state realised as ArrayFormula workbooks and executed',
    text='TLC enumerates all 16^3 operand x operand x target shape triples (and 1-3 argument function forms), checking ShapeExact, Pointwise, Trimmed, Repeated, Uncovered, MemberOwn and growth-stability laws on the definitions; each state becomes real workbooks with array formulas (12 operators, 20 array-aware functions, composites; range refs, array constants, scalars) and evaluate(target) plus evaluate(member) are compared with the scalar application at the exported source positions.',
    note='non-broadcastable shapes, blank elements and empty-string results are left unconstrained; quick tier samples the operator/function templates',
    ref='§3 C13'),
 'C14': dict(
    technique='Aggregates.tla: cell sequences built by Append with fold definitions, laws as TLC invariants/action properties; states realised as real ranges and evaluated through formulas, with permuted/reshaped/partitioned twins',
    text='TLC checks FoldStep/SumStep, permutation and reshape invariance, partition additivity, AVERAGE=SUM/COUNT, MIN/MAX of nothing = 0, first-error selection, SUBTOTAL and SUMPRODUCT laws exhaustively for sequences up to length 4 over 10 values (simulated to 25 cells); each state is a real range evaluated with SUM/AVERAGE/MIN/MAX/COUNT/SUBTOTAL/SUMPRODUCT.',
    note='COUNT over error cells and the choice among several different errors are unconstrained; known finding D44 (SUMPRODUCT over a 1x1 blank range) is attributed by an exact predictor',
    ref='§3 C14'),
 'C15': dict(
    technique='Criteria.tla: criteria grammar and Matches relation (set of allowed booleans), selection laws as TLC invariants; states realised as workbooks, selected positions recovered through power-of-two weights',
    text='TLC checks Total, OneCriterion, Commute, Narrowing, Partition, TextVsNumber, Trichotomy, CaseInsensitive, StarLaw and AverageLaw over ranges x 1..3 criteria from the grammar; each state is executed through COUNTIF(S)/SUMIF(S)/AVERAGEIF(S)/MAXIFS/MINIFS formulas and the observed selection must be allowed; the relational laws are also checked between observed values.',
    note='logical cells vs numeric criteria, numeric-looking text vs numeric criteria, empty text vs ""/"="/"<>", error cells in criteria ranges are unconstrained (any answer, no exception)',
    ref='§3 C15'),
 'C16': dict(
    technique='Lookup.tla: vectors/tables built by Append with incrementally maintained sorted flags, MATCH as a relation (set of allowed results), INDEX/VLOOKUP/HLOOKUP/LOOKUP definitions and an implementation-shaped binary search, model-checked by TLC; every state executed through formulas over real ranges',
    text='TLC checks ExactIsFirstEqual, ApproxIsBest, ApproxFindsExact, BinarySearchOK (the bisect result is in the linear-scan allowed set), Sandwich, AppendLaw and the table laws (VLOOKUP = HLOOKUP of the transpose, LOOKUP array form, result = INDEX at an allowed MATCH position, out-of-range index errors, a row / column number k + 1/2 answers like k) exhaustively over mixed-type pools (vectors to length 3-5 quick / 8 thorough, tables to 6x4); each vector x 25 lookup values x 3 match types is executed through MATCH/INDEX/VLOOKUP/HLOOKUP/LOOKUP formulas and library calls and must be in the allowed set.',
    note='blank matched by the neutral values 0/""/FALSE, unsorted data with types +-1 and punctuation collation are unconstrained (totality still required); one-cell ranges other than in MATCH are collapsed to scalars by the compiler and skipped in the workbook path',
    ref='§3 C16'),
 'C17': dict(
    technique='Calendar.tla: day-successor machine with Excel month lengths plus DATE/EOMONTH/EDATE/clock/YEARFRAC enumerators, model-checked by TLC against independent closed forms; exported month starts / argument vectors executed on the date_time functions',
    text='TLC walks the 1900 calendar (every serial day in the thorough tier, 2,958,466 states) checking SerialClosedForm, RoundTrip, Fictitious days, ProlepticAfter60, weekday period 7, LastDay, carrying laws of DATE (CarrySpelling: DATE(y,m,d) = DATE(y,m+1,d-len(m)) up to December 9999), arguments of any size (machine far: one argument +-{1,2,3,5,7}x10^k, laws FarBeyond / FarLinear), month-end laws of EOMONTH/EDATE, clock decomposition and YEARFRAC symmetry; the harness expands TLC\'s month starts to days and calls YEAR/MONTH/DAY/WEEKDAY/DATE/EOMONTH/EDATE/HOUR/MINUTE/SECOND/YEARFRAC through wrappers and formulas.',
    note='YEARFRAC values only judged for symmetry; serials above 2958465 and a few carry corner cases only require no exception; quick tier: every 7th day + all month boundaries',
    ref='§3 C17'),
 'C18': dict(
    technique='TLA+ odometer machine (Radix.tla) model-checked by TLC; every reachable state exported as a vector and executed on the real functions',
    text='TLC checks the two\'s-complement definitions (successor adds one, regrouping of bits agrees, extremes) on all 1024 binary strings and on 128-step walks across every octal/hex boundary; each visited state is then a test vector for DEC2x/x2DEC/x2y, places 1..10, illegal characters and over-long strings, through library calls and compiled formulas.',
    note='trusts TLC and the 60-line vector driver; octal/hex ranges are covered at boundaries, patterned and (thorough) random seeds, not exhaustively',
    ref='§3 C18'),
}

NOT_YET = {}


def main():
    props = [json.loads(l) for l in open(os.path.join(VERIF, 'properties.jsonl'))]
    checks = []
    na = []
    for p in props:
        pid = p['id']
        if pid in CHECKS:
            c = CHECKS[pid]
            checks.append(dict(
                property_id=pid,
                quick_cmd=f'bin/check {pid} --tier quick',
                thorough_cmd=f'bin/check {pid} --tier thorough',
                evidence_file=f'/verif/evidence/{pid}.json',
                replay_cmd_template=f'bin/check {pid} --replay {{path}}',
                engine='tlc+replay',
                level_claimed=dict(category=c.get('category', 'model_checking'),
                                   text=c['text'], design_ref=c['ref']),
                level_note=c['note'],
                technique=c['technique']))
        else:
            na.append(dict(property_id=pid, reason=NOT_YET.get(
                pid, 'check not built yet in this round (planned in DESIGN.md §3; the technique applies)')))
    man = dict(
        version=1,
        setup_cmd='bin/setup',
        hooks=dict(
            guard='PYCEL_VERIF',
            enable='environment variable PYCEL_VERIF=1 (set by bin/check); pycel is imported from /repo/src, nothing is built',
            baseline_off_cmd='cd /repo && env -u PYCEL_VERIF /venv/bin/python -m pytest -ra -q -p no:cacheprovider --timeout=900 --continue-on-collection-errors',
            source_commits=json.load(open(os.path.join(VERIF, 'hooks.json'))).get('commits', []) if os.path.exists(os.path.join(VERIF, 'hooks.json')) else [],
            add_only=True),
        engines=[dict(name='tlc+replay', path='/verif/harness',
                      serves_properties=sorted(CHECKS),
                      kind_free_text='TLA+ specifications in /verif/spec checked by TLC; Python harness replays TLC-generated behaviours/vectors into pycel and validates recorded traces with TLC')],
        checks=checks,
        not_applicable=na,
        notes='All checks: bin/check <id> [--tier quick|thorough]; exit 0 held, 1 VIOLATION, 2 machinery failure. Known findings: /verif/known_findings.json.')
    with open(os.path.join(VERIF, 'MANIFEST.json'), 'w') as f:
        json.dump(man, f, indent=1)
    print('MANIFEST.json:', len(checks), 'checks,', len(na), 'not_applicable')


if __name__ == '__main__':
    main()
