"""Run independent jobs in worker processes (16 cores)."""
import concurrent.futures as cf
import os
import traceback


def _wrap(payload):
    func, arg = payload
    try:
        return ('ok', func(arg))
    except BaseException as exc:   # noqa
        return ('err', f'{type(exc).__name__}: {exc}\n{traceback.format_exc()}')


def run_jobs(func, args, workers=None):
    """func must be a module-level function; returns results in order."""
    from harness.tlc import MachineryFailure
    workers = workers or min(len(args), os.cpu_count() or 4, 14)
    if workers <= 1 or len(args) <= 1:
        out = [_wrap((func, a)) for a in args]
    else:
        with cf.ProcessPoolExecutor(max_workers=workers) as ex:
            out = list(ex.map(_wrap, [(func, a) for a in args]))
    res = []
    for (st, r), a in zip(out, args):
        if st == 'err':
            raise MachineryFailure(f'job {a!r} failed: {r}')
        res.append(r)
    return res
