"""Plugin worksheet functions of C03: models whose formulas need a plugin module.

A model compiled with ExcelCompiler(..., plugins=(MODULE,)) and loaded with
from_file(..., plugins=(MODULE,)) has these functions next to the built-in
ones, on both sides of the save / load trip.
"""
MODULE = 'harness.plugin_c03'


def vid(value):
    """VID(x) = x: wrapping a formula in VID() leaves its value as it is"""
    return value


def wrap(formula):
    """'=<expr>' -> '=VID(<expr>)'"""
    assert formula.startswith('=')
    return '=VID(' + formula[1:] + ')'
