"""Plugin worksheet functions used by the verification harness."""
import threading

_state = threading.local()
CALLS = []


def vfail(*args):
    """always raises: a library function with an internal error"""
    raise RuntimeError('vfail: injected failure')


def vcount(x):
    """identity that records its calls (pass counting for C06/C07)"""
    CALLS.append((threading.get_ident(), x))
    return x


BROKEN = set()


def vswitch(key, value):
    """passes value through unless the harness switched `key` to failing"""
    if key in BROKEN:
        raise RuntimeError(f'vswitch: {key} is switched to fail')
    return value


def vrecurse(*args):
    """a formula that exhausts the stack (e.g. a very deep chain)"""
    raise RecursionError('vrecurse: injected recursion error')
