"""Random engine workbooks (10-20 nodes) and recorded random histories."""
import json

from harness import engine, workbooks as W, xl

COLS = 'ABCDEFG'


def rect_name(c1, r1, c2, r2):
    return f'{COLS[c1]}{r1}:{COLS[c2]}{r2}'


def random_workbook(rnd, nrows=3, ncols=5):
    """formulas in column c only reference columns < c, so the graph is a DAG"""
    inputs, formulas, ranges, aliases, cse = {}, {}, {}, {}, {}
    init_pool = [1, 2, 3, 5, 'a', None, True]

    def ensure_rect(c1, r1, c2, r2):
        name = rect_name(c1, r1, c2, r2)
        rows = [[f'{COLS[c]}{r}' for c in range(c1, c2 + 1)] for r in range(r1, r2 + 1)]
        for row in rows:
            for cell in row:
                if cell not in inputs and cell not in formulas:
                    inputs[cell] = None          # blank cell inside a range
        ranges[name] = rows
        return name

    for r in range(1, nrows + 1):
        inputs[f'A{r}'] = rnd.choice(init_pool)
    if inputs[f'A{nrows}'] is None:
        inputs[f'A{nrows}'] = 4                  # keeps the used area nrows high
    for c in range(1, ncols):
        for r in range(1, nrows + 1):
            cell = f'{COLS[c]}{r}'
            roll = rnd.random()
            if c == 1 and roll < 0.4:
                inputs[cell] = rnd.choice(init_pool)
                continue
            if roll > 0.85:
                continue                          # absent cell
            earlier = [n for n in list(inputs) + list(formulas)
                       if COLS.index(n[0]) < c]
            kind = rnd.choice(['Plus', 'Plus', 'Cat', 'SumR', 'SumR', 'Idx', 'Alias'])
            if kind == 'Plus':
                refs = [rnd.choice(earlier) for _ in range(rnd.randint(1, 3))]
                formulas[cell] = ('Plus', refs, rnd.choice([0, 1]))
            elif kind == 'Cat':
                formulas[cell] = ('Cat', rnd.choice(earlier))
            elif kind in ('SumR', 'Idx'):
                c1 = rnd.randrange(0, c)
                c2 = rnd.randrange(c1, c)
                r1 = rnd.randint(1, nrows)
                r2 = rnd.randint(r1, nrows)
                if (c1, r1) == (c2, r2):
                    r1, r2 = 1, nrows
                name = ensure_rect(c1, r1, c2, r2)
                if kind == 'SumR':
                    formulas[cell] = ('SumR', name)
                else:
                    formulas[cell] = ('Idx', name, rnd.randint(1, r2 - r1 + 1),
                                      rnd.randint(1, c2 - c1 + 1))
            else:
                ac = rnd.randrange(0, c)
                bounded = ensure_rect(ac, 1, ac, nrows)
                alias = f'{COLS[ac]}:{COLS[ac]}'
                aliases[alias] = bounded
                formulas[cell] = ('SumR', alias)
    # the bounded range of an alias is the used area of that column: make sure
    # the last row of the sheet is really used
    if nrows >= 2 and rnd.random() < 0.5:
        # one CSE array {=src*2} in the column after the grid, and a consumer
        h = rnd.randint(2, max(2, nrows))
        sc = rnd.randrange(0, ncols)
        src = ensure_rect(sc, 1, sc, h)
        tgt = rect_name(ncols, 1, ncols, h)
        cse[tgt] = (src, 2)
        members = [f'{COLS[ncols]}{r}' for r in range(1, h + 1)]
        formulas[f'{COLS[ncols + 1]}1'] = ('Plus', members[:2], 0)
    wb = dict(inputs=inputs, formulas=formulas, ranges=ranges, aliases=aliases, cse=cse)
    return wb


def all_nodes(wb):
    n = W.nodes(wb)
    return n['inputs'] + n['formulas'] + n['ranges'] + n['aliases']


class FreshOracle:
    """from-scratch compile; returns evaluate() results and raw 2-d values"""

    def __init__(self, wb):
        self.wb, self.memo, self.nodes = wb, {}, all_nodes(wb)

    def get(self, inputs):
        key = json.dumps({k: W.js_val(v) for k, v in sorted(inputs.items())})
        if key not in self.memo:
            cells, arrays = W.cells(self.wb, inputs)
            m = xl.compile_wb(cells, arrays=arrays)
            ret, raw = {}, {}
            for node in self.nodes:
                ret[node] = m.evaluate(W.addr(node))
                raw[node] = W.js_val(m.cell_map[W.addr(node)].value)
            self.memo[key] = (ret, raw)
        return self.memo[key]


def record(wb, src, rnd, n_hist, length, pool, workdir, ft='yml', on_observe=None):
    """random histories on the real object; one trace dict per history"""
    nodes = all_nodes(wb)
    n = W.nodes(wb)
    non_inputs = n['formulas'] + n['ranges'] + n['aliases']
    oracle = FreshOracle(wb)
    traces = []
    for h in range(n_hist):
        model = engine.RealModel(wb, src, workdir, file_type=ft)
        inputs = dict(wb['inputs'])
        ret0, raw0 = oracle.get(inputs)
        p0 = model.project()
        tr = dict(formulas=non_inputs,
                  init=dict(cache=p0['cache'], fresh=raw0, built=p0['built']),
                  events=[], history=[])
        for step in range(length):
            built_inputs = [a for a in n['inputs'] if W.addr(a) in model.m.cell_map]
            if built_inputs and rnd.random() < 0.45:
                a = rnd.choice(built_inputs)
                val = rnd.choice(pool)
                act = dict(op='set_value', n=a, v=W.js_val(val))
                inputs[a] = val
            else:
                act = dict(op='evaluate', n=rnd.choice(nodes))
            status, got = model.do(act)
            ret, raw = oracle.get(inputs)
            tr['history'].append(act)
            if on_observe:
                on_observe(tr, act, status, got, ret, inputs)
            if status == 'exc':
                break
            proj = model.project()
            ev = dict(act, cache=proj['cache'], fresh=raw, built=proj['built'],
                      edges=proj['edges'], changed=proj['changed'],
                      isformula=act['n'] in non_inputs)
            if act['op'] == 'evaluate':
                cell = model.m.cell_map[W.addr(act['n'])]
                ev['ret'] = W.js_val(cell.value if isinstance(cell.value, tuple) else got)
                ev['ret2d'] = ev['ret']
            tr['events'].append(ev)
        traces.append(tr)
    return traces
