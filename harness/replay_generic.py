"""Replay of a recorded violation for the checks without a replayer of their
own: prints the finding and, when the case holds a workbook and a history of
public API calls, executes that history again on the real code (the values it
prints are what the current tree returns; the recorded description says what
was expected)."""
import json

from harness import workbooks as W, xl


def _addr(n):
    return n if isinstance(n, str) and '!' in n else W.addr(n)


def replay(path):
    rec = json.load(open(path))
    case = rec.get('case', {})
    print(f"property {rec.get('property')}: {rec.get('desc')}")
    for key in sorted(case):
        if key not in ('cells', 'history'):
            print(f'  {key}: {json.dumps(case[key], default=str)[:400]}')
    cells, hist = case.get('cells'), case.get('history')
    if not isinstance(cells, dict) or not isinstance(hist, list):
        print('(no workbook + history in this case: nothing to execute again)')
        return 0
    iterative = case.get('mode') == 'iterative' or case.get('cycles') or any(
        (isinstance(a, dict) and 'iterations' in a) or
        (isinstance(a, list) and a and a[0] == 'evaluate' and len(a) >= 4) for a in hist)
    print('workbook:', json.dumps(cells, default=str))
    m = xl.compile_wb(cells, arrays=case.get('arrays'),
                      cycles=dict(iterations=100, tolerance=0.001) if iterative else None)
    for act in hist:
        try:
            if isinstance(act, dict):
                op = act.get('op')
                if op == 'evaluate':
                    kw = {}
                    if 'iterations' in act:
                        kw['iterations'] = act['iterations']
                        if act.get('tol'):
                            kw['tolerance'] = act['tol'] / case.get('scale', 65536)
                    print(' ', act, '->', repr(m.evaluate(_addr(act['n']), **kw)))
                elif op == 'set_value':
                    m.set_value(_addr(act['n']), W.py_val(act['v']))
                    print(' ', act)
                else:
                    print(' ', act, '(not executed by the generic replayer)')
            elif isinstance(act, list) and act and act[0] == 'evaluate':
                kw = dict(iterations=act[2], tolerance=act[3]) if len(act) >= 4 else {}
                print(' ', act, '->', repr(m.evaluate(act[1], **kw)))
            elif isinstance(act, list) and act and act[0] == 'set_value':
                m.set_value(_addr(act[1]), act[2])
                print(' ', act)
            else:
                print(' ', act, '(not executed by the generic replayer)')
        except Exception as exc:      # noqa
            print(' ', act, 'raised', type(exc).__name__, str(exc)[:200])
    return 0
