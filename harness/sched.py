"""Deterministic baton scheduler: exactly one thread runs at a time and the
baton changes hands only at preemption points (formula begin/end hooks)."""
import os
import sys
import contextvars
import threading

PKG = os.sep + 'pycel' + os.sep


class Deadlock(Exception):
    pass


class Baton:
    """schedule: callable(tid, own_point_index, global_point_index) -> tid to run next"""

    def __init__(self, tids, decide, timeout=300.0, first=None):
        self.cond = threading.Condition()
        self.turn = first if first is not None else tids[0]
        self.alive = set(tids)
        self.decide = decide
        self.points = {t: 0 for t in tids}
        self.global_points = 0
        self.timeout = timeout
        self.switches = 0
        self.by_ident = {}
        self.armed = set()      # threads past their warm-up
        self.blocked = set()    # threads waiting for a lock another one holds
        self.lock_waits = 0

    def register(self, tid):
        self.by_ident[threading.get_ident()] = tid

    def me(self):
        return self.by_ident.get(threading.get_ident())

    def wait_turn(self, tid):
        with self.cond:
            if not self.cond.wait_for(lambda: self.turn == tid, timeout=self.timeout):
                raise Deadlock(f'thread {tid} never got the baton')

    def point(self, tid):
        """called by the running thread at a preemption point"""
        with self.cond:
            self.points[tid] += 1
            self.global_points += 1
            nxt = self.decide(tid, self.points[tid], self.global_points)
            if nxt != tid and nxt in self.alive and nxt not in self.blocked:
                self.turn = nxt
                self.switches += 1
                self.cond.notify_all()
                if not self.cond.wait_for(lambda: self.turn == tid, timeout=self.timeout):
                    raise Deadlock(f'thread {tid} never got the baton back')

    def blocked_yield(self, tid):
        """the running thread cannot get a lock of the library: another
        thread holds it (it was preempted inside the critical section).  The
        baton goes to the others until the lock has been released."""
        with self.cond:
            others = [t for t in self.alive if t != tid and t not in self.blocked]
            if not others:
                raise Deadlock(f'thread {tid} waits for a lock nobody will release')
            self.blocked.add(tid)
            self.lock_waits += 1
            self.turn = others[0]
            self.cond.notify_all()
            if not self.cond.wait_for(lambda: self.turn == tid, timeout=self.timeout):
                raise Deadlock(f'thread {tid} never got the baton back (lock wait)')
            self.blocked.discard(tid)

    def finish(self, tid):
        with self.cond:
            self.alive.discard(tid)
            if self.alive and self.turn == tid:
                self.turn = next(iter(self.alive))
            self.cond.notify_all()


LOCK_TYPES = (type(threading.Lock()), type(threading.RLock()))


class BatonLock:
    """Stands in for a module level lock of the library while two threads run
    under the baton: a thread which finds the lock taken hands the baton on
    instead of blocking (the holder is paused and could never release it)."""

    def __init__(self, real, baton):
        self.real, self.baton = real, baton

    def acquire(self, blocking=True, timeout=-1):
        tid = self.baton.me()
        if tid is None:
            return self.real.acquire(blocking, timeout)
        while not self.real.acquire(False):
            if not blocking:
                return False
            self.baton.blocked_yield(tid)
        return True

    def release(self):
        self.real.release()
        with self.baton.cond:
            self.baton.blocked.clear()

    def __enter__(self):
        return self.acquire()

    def __exit__(self, *exc):
        self.release()

    def __getattr__(self, name):
        return getattr(self.real, name)


def wrap_locks(baton):
    """replace every module level lock of the pycel package; returns the undo list"""
    undo = []
    for name, mod in list(sys.modules.items()):
        if mod is None or not (name == 'pycel' or name.startswith('pycel.')):
            continue
        for attr, obj in list(vars(mod).items()):
            if isinstance(obj, LOCK_TYPES):
                setattr(mod, attr, BatonLock(obj, baton))
                undo.append((mod, attr, obj))
    return undo


def run_pair(work1, work2, decide, observe, first=1, call_points=False, only=None):
    """run two callables on two fresh threads under the baton.

    call_points: every call of a Python function defined in the pycel package is
    a preemption point as well (a profile function installed on both threads),
    which reaches the windows inside the loading of a formula's functions.
    only: names of the functions whose calls are preemption points (default all).

    work(tid) -> result; observe(tid, kind, formula, rest) is called at every
    hook event of thread tid (before the baton may change hands).
    Returns {tid: ('ok', result) | ('exc', repr)} and the baton.
    """
    from pycel import _verif
    baton = Baton([1, 2], decide, first=first)
    CURRENT['baton'] = baton
    results = {}

    def sink(kind, formula, *rest):
        tid = baton.me()
        if tid is None or tid not in baton.armed or kind not in ('begin', 'end', 'fail'):
            return
        observe(tid, kind, formula, rest)
        baton.point(tid)

    def prof(frame, event, arg):
        if event == 'call' and PKG in frame.f_code.co_filename and (
                only is None or frame.f_code.co_name in only):
            tid = baton.me()
            if tid is not None and tid in baton.armed:
                baton.point(tid)

    def runner(tid, work):
        baton.register(tid)
        try:
            baton.wait_turn(tid)
            if call_points:
                sys.setprofile(prof)
            try:
                results[tid] = ('ok', work(tid))
            finally:
                sys.setprofile(None)
        except BaseException as exc:     # noqa
            results[tid] = ('exc', f'{type(exc).__name__}: {exc}')
        finally:
            baton.finish(tid)

    # every other pair is started the way asyncio.to_thread / a worker pool of an
    # async framework starts threads: inside a copy of the context of the
    # spawning thread, which has used pycel before (warm_up)
    CURRENT['pairs'] = CURRENT.get('pairs', 0) + 1
    copied = CURRENT['pairs'] % 2 == 0
    if copied:
        warm_up()

    prev = _verif.set_sink(sink)
    undo = wrap_locks(baton)
    try:
        # (the contexts are copied here, on the spawning thread)
        targets = [lambda: runner(1, work1), lambda: runner(2, work2)]
        if copied:
            ctxs = [contextvars.copy_context(), contextvars.copy_context()]
            targets = [lambda c=c, t=t, w=w: c.run(runner, t, w)
                       for c, t, w in zip(ctxs, (1, 2), (work1, work2))]
        ts = [threading.Thread(target=targets[0]),
              threading.Thread(target=targets[1])]
        for t in ts:
            t.start()
        for t in ts:
            t.join(timeout=900)
            if t.is_alive():
                raise Deadlock('thread did not finish')
    finally:
        _verif.set_sink(prev)
        for mod, attr, obj in undo:
            setattr(mod, attr, obj)
    return results, baton


CURRENT = {}


def warm_up():
    """the spawning thread uses pycel (iterative calculation, an array
    formula) once, through the public interface, before it copies its context"""
    if CURRENT.get('warm'):
        return
    CURRENT['warm'] = True
    from harness import xl
    m = xl.compile_wb({'A1': '=A1/2+1', 'B1': 1, 'B2': 2}, arrays={'C1:C2': '=B1:B2*2'},
                      cycles=dict(iterations=9, tolerance=0.5))
    m.evaluate('S!A1')
    m.evaluate('S!C1:C2')
