"""Collect confirmed seeded changes into /verif/seeded/<id>/ (patch.diff,
demo.py, meta.json) from the sub-agents' deliveries and bin/seedtest results."""
import json
import os
import shutil
import sys

VERIF = os.path.dirname(os.path.dirname(os.path.abspath(__file__)))


def main(results_path, prefix=''):
    rows = {}
    for line in open(results_path):
        line = line.strip()
        if not line.startswith('{'):
            continue
        try:
            r = json.loads(line)
        except ValueError:
            # a quote in the excerpt broke the line: keep what matters
            import re
            m = re.search(r'"dir": "([^"]+)".*"property": "(C\d+)".*"suite": "([^"]*)".*'
                          r'"demo_unpatched_rc": (\d+), "demo_patched_rc": (\d+), "check_rc": (\d+)', line)
            if not m:
                continue
            r = dict(dir=m.group(1), property=m.group(2), applies=True, suite=m.group(3),
                     demo_unpatched_rc=int(m.group(4)), demo_patched_rc=int(m.group(5)),
                     check_rc=int(m.group(6)), first='')
        rows[os.path.basename(r['dir'])] = r
    table = []
    for sid, r in sorted(rows.items()):
        src = r['dir']
        sid = prefix + sid
        meta = json.load(open(os.path.join(src, 'meta.json')))
        confirmed = (r.get('applies') and '2988 passed' in r.get('suite', '')
                     and r.get('demo_unpatched_rc') == 0 and r.get('demo_patched_rc') not in (0, None))
        if not confirmed:
            table.append((sid, r['property'], 'not kept: ' + (
                'does not apply to the current tree' if not r.get('applies') else
                f"suite={r.get('suite')} demo={r.get('demo_unpatched_rc')}/{r.get('demo_patched_rc')}"),
                meta.get('summary', '')[:150]))
            continue
        dst = os.path.join(VERIF, 'seeded', sid)
        os.makedirs(dst, exist_ok=True)
        shutil.copy(os.path.join(src, 'patch.diff'), dst)
        shutil.copy(os.path.join(src, 'demo.py'), dst)
        meta.update(dict(
            property=r['property'],
            confirmed=dict(
                suite_with_patch=r['suite'],
                demo_exit_unpatched=r['demo_unpatched_rc'],
                demo_exit_patched=r['demo_patched_rc'],
                how='bin/seedtest on a scratch copy of /repo (git apply; pinned suite; demo with '
                    'and without the patch; bin/check against the patched copy via VERIF_REPO_SRC)'),
            check=dict(cmd=f'bin/check {r["property"]} --tier quick', exit=r['check_rc'],
                       detected=r['check_rc'] == 1, first_line=r.get('first', ''))))
        json.dump(meta, open(os.path.join(dst, 'meta.json'), 'w'), indent=1)
        table.append((sid, r['property'], 'DETECTED' if r['check_rc'] == 1 else
                      ('machinery failure' if r['check_rc'] == 2 else 'missed'),
                      meta.get('summary', '')[:150]))
    for t in table:
        print('| ' + ' | '.join(t) + ' |')


if __name__ == '__main__':
    main(*sys.argv[1:3])
