"""Thin driver around the TLC model checker (tla2tools 1.8).

Runs TLC under a timeout in a scratch directory, parses the statistics,
the per-action coverage and every JSON line printed with PrintT(ToJson(..)).
"""
import atexit
import json
import os
import re
import shutil
import subprocess
import tempfile
import time

VERIF = os.path.dirname(os.path.dirname(os.path.abspath(__file__)))
SPEC = os.path.join(VERIF, 'spec')

_scratch = None


class MachineryFailure(Exception):
    """The tooling (not the code under test) failed; exit status 2."""


def scratch_dir():
    """One scratch directory per process, removed at exit."""
    global _scratch
    if _scratch is None:
        base = os.environ.get('VERIF_SCRATCH') or '/var/tmp'
        os.makedirs(base, exist_ok=True)
        _scratch = tempfile.mkdtemp(prefix='pycel-verif.', dir=base)
        atexit.register(shutil.rmtree, _scratch, True)
    return _scratch


def new_scratch(prefix='d'):
    return tempfile.mkdtemp(prefix=prefix + '.', dir=scratch_dir())


class TLCResult:
    def __init__(self):
        self.rc = None
        self.stdout = ''
        self.generated = 0
        self.distinct = 0
        self.depth = 0
        self.json = []          # parsed PrintT(ToJson(..)) lines
        self.violated = None    # name of the violated invariant/property
        self.deadlock = False
        self.error = None
        self.coverage = {}      # action name -> (distinct, taken)
        self.wall = 0.0
        self.cmd = ''

    @property
    def ok(self):
        return self.rc == 0


_STATS = re.compile(r'(\d+) states generated, (\d+) distinct states found')
_DEPTH = re.compile(r'depth of the complete state graph search is (\d+)')
_INV = re.compile(r'Error: Invariant (\S+) is violated')
_PROP = re.compile(r'Error: Action property (\S+) is violated')
_COV = re.compile(r'^<(\w+) line \d+, col \d+ to line \d+, col \d+ of module (\w+)>: (\d+):(\d+)')


def parse_json_lines(text):
    out = []
    for line in text.splitlines():
        line = line.strip()
        if len(line) >= 2 and line[0] == '"' and line[-1] == '"' and line[1] in '{[':
            try:
                out.append(json.loads(json.loads(line)))
            except ValueError:
                pass
    return out


def run(module, cfg, *, spec_dir=SPEC, workers=16, simulate=None, depth=None,
        seed=None, timeout=900, env=None, coverage=False, deadlock=False,
        extra=(), keep_stdout=True, dfs=False, heap='4g', library=None):
    """Run TLC on spec_dir/module.tla with spec_dir/cfg.

    simulate: None or dict(num=..) (file= is added by caller through extra)
    Returns a TLCResult.  Raises MachineryFailure on a TLC crash/timeout.
    """
    meta = new_scratch('tlc')
    cmd = ['java', '-XX:+UseParallelGC', '-Xmx' + heap]
    if dfs:
        cmd.append('-Dtlc2.tool.queue.IStateQueue=StateDeque')
    if library:
        cmd.append('-DTLA-Library=' + library)
    cmd += ['-cp', '/opt/veriftools/tla/tla2tools.jar:'
            '/opt/veriftools/tla/CommunityModules-deps.jar', 'tlc2.TLC',
            '-workers', str(workers), '-metadir', meta, '-noGenerateSpecTE']
    if not deadlock:
        cmd.append('-deadlock')      # -deadlock DISABLES deadlock checking
    if coverage:
        cmd += ['-coverage', '1']
    if simulate is not None:
        sim = ','.join(f'{k}={v}' for k, v in simulate.items())
        cmd += ['-simulate', sim] if sim else ['-simulate']
    if depth is not None:
        cmd += ['-depth', str(depth)]
    if seed is not None:
        cmd += ['-seed', str(seed)]
    cmd += list(extra)
    cmd += ['-config', cfg if os.path.isabs(cfg) else os.path.join(spec_dir, cfg),
            os.path.join(spec_dir, module + '.tla')]
    full_env = dict(os.environ)
    full_env.pop('JAVA_TOOL_OPTIONS', None)
    if env:
        full_env.update({k: str(v) for k, v in env.items()})
    res = TLCResult()
    res.cmd = ' '.join(cmd)
    t0 = time.time()
    try:
        p = subprocess.run(cmd, cwd=spec_dir, env=full_env, timeout=timeout,
                           stdout=subprocess.PIPE, stderr=subprocess.STDOUT,
                           text=True, errors='replace')
    except subprocess.TimeoutExpired as exc:
        if simulate is not None:
            # a simulation stopped by the clock is a normal end
            out = exc.stdout or ''
            if isinstance(out, bytes):
                out = out.decode(errors='replace')
            res.rc, res.stdout = 0, out
        else:
            raise MachineryFailure(f'TLC timeout after {timeout}s: {module}/{cfg}')
    else:
        res.rc, res.stdout = p.returncode, p.stdout
    finally:
        shutil.rmtree(meta, ignore_errors=True)
    res.wall = time.time() - t0
    out = res.stdout
    for m in _STATS.finditer(out):
        res.generated, res.distinct = int(m.group(1)), int(m.group(2))
    m = _DEPTH.search(out)
    if m:
        res.depth = int(m.group(1))
    m = _INV.search(out) or _PROP.search(out)
    if m:
        res.violated = m.group(1)
    res.deadlock = 'Error: Deadlock reached' in out
    if coverage:
        for line in out.splitlines():
            m = _COV.match(line.strip())
            if m:
                res.coverage[m.group(1)] = (int(m.group(3)), int(m.group(4)))
    res.json = parse_json_lines(out)
    if res.rc not in (0, 12, 11, 10, 13) or (
            res.rc != 0 and not (res.violated or res.deadlock)
            and 'is violated' not in out and 'Assumption' not in out
            and 'Postcondition' not in out.replace('POSTCONDITION', 'Postcondition')):
        lines = [l for l in out.splitlines() if not l.startswith('"')]
        firsterr = next((i for i, l in enumerate(lines) if l.startswith('Error')), len(lines))
        tail = '\n'.join(lines[firsterr:firsterr + 12] + ['...'] + lines[-25:])
        raise MachineryFailure(f'TLC failed rc={res.rc} on {module}/{cfg}:\n{tail}')
    if not keep_stdout:
        res.stdout = ''
    return res


def sany(module, spec_dir=SPEC):
    p = subprocess.run(['tla-sany', os.path.join(spec_dir, module + '.tla')],
                       cwd=spec_dir, stdout=subprocess.PIPE,
                       stderr=subprocess.STDOUT, text=True)
    ok = p.returncode == 0 and 'Semantic errors' not in p.stdout \
        and '*** Errors' not in p.stdout and 'Fatal' not in p.stdout
    return ok, p.stdout
