"""Code -> spec: recorded executions validated by TLC (batched)."""
import json
import os

from harness import tlc, workbooks as W

CONST_BLOCK = W.ENGINE_CFG.split('SPECIFICATION')[0]


def rejected_ids(res):
    bad = []
    for rec in res.json:
        if isinstance(rec, dict) and 'rejected' in rec:
            bad = sorted(rec['rejected'])
    return bad


def validate_lazycache(traces):
    """returns (tlc result, list of 0-based rejected trace indexes)"""
    d = tlc.new_scratch('tr')
    path = os.path.join(d, 'traces.json')
    with open(path, 'w') as f:
        # (LazyCache knows "has a value" / "has none": the engine's two kinds of
        # "none" -- reset, or read as None from stored results -- are one here)
        text = json.dumps([dict(formulas=t['formulas'], init=t['init'], events=t['events'])
                           for t in traces])
        f.write(text.replace('["?!"]', '["?"]'))
    res = tlc.run('TraceLazyCache', 'TraceLazyCache.cfg', workers=1,
                  env=dict(TRACE_FILE=path), deadlock=True, timeout=1800, heap='4g')
    bad = [i - 1 for i in rejected_ids(res)]
    if res.rc != 0 and not bad:
        raise tlc.MachineryFailure('TraceLazyCache failed without naming a trace:\n'
                                   + res.stdout[-2000:])
    return res, bad


def validate_engine(wb, src, pool, traces, name='RW'):
    """traces of ONE workbook/source against TraceEngine (Engine refinement)"""
    d = tlc.new_scratch('te')
    mod = f'MC_{name}'
    text = W.tla_constants(wb, pool, src, mod).replace(
        'EXTENDS Engine', 'EXTENDS TraceEngine')
    with open(os.path.join(d, mod + '.tla'), 'w') as f:
        f.write(text)
    with open(os.path.join(d, 'te.cfg'), 'w') as f:
        f.write(CONST_BLOCK + 'SPECIFICATION TSpec\nINVARIANT MarkDone\n'
                'POSTCONDITION Accepted\nCHECK_DEADLOCK FALSE\n')
    path = os.path.join(d, 'traces.json')
    with open(path, 'w') as f:
        json.dump([dict(events=t['events']) for t in traces], f)
    res = tlc.run(mod, os.path.join(d, 'te.cfg'), spec_dir=d, workers=1,
                  library=tlc.SPEC, env=dict(TRACE_FILE=path), deadlock=True,
                  timeout=1800, heap='4g')
    bad = [i - 1 for i in rejected_ids(res)]
    if res.rc != 0 and not bad:
        raise tlc.MachineryFailure('TraceEngine failed without naming a trace:\n'
                                   + res.stdout[-3000:])
    return res, bad
