"""Engine-level workbooks: one description, two renderings.

A workbook is a dict
  inputs   {'A1': value}            python values (None = blank)
  formulas {'B1': ('Plus', ['A1', 'A2'], 1) | ('Cat', 'A1') | ('SumR', 'A1:A3')
                  | ('Idx', 'A1:A3', i, j)}
  ranges   {'A1:A3': [['A1'], ['A2'], ['A3']]}      plain ranges (rows of members)
  cse      {'D1:D2': ('A1:A2', 2)}                  {=A1:A2*2} entered over D1:D2
  aliases  {'A:A': 'A1:A3'}                         unbounded range -> used area
It is rendered (a) as the constants of spec/Engine.tla (tla_constants) and
(b) as a real openpyxl workbook / xlsx file (cells()).
"""
import json

SHEET = 'S'


def tla_val(v, scale=1):
    """python scalar -> TLA+ text of the tagged value"""
    if scale != 1 and isinstance(v, (int, float)) and not isinstance(v, bool):
        assert float(v * scale).is_integer(), v
        return f'<<"N", {int(v * scale)}>>'
    if v is None:
        return '<<"Z">>'
    if isinstance(v, bool):
        return f'<<"B", {int(v)}>>'
    if isinstance(v, int):
        return f'<<"N", {v}>>'
    if isinstance(v, str):
        if v.startswith('#'):
            return f'<<"E", "{v}">>'
        return f'<<"S", "{v}">>'
    raise ValueError(v)


def js_val(v, scale=1):
    """python value (as pycel returns it) -> JSON form of the tagged value"""
    import numpy as np
    if scale != 1:
        if isinstance(v, tuple):
            return ['M', [[js_val(x, scale) for x in row] for row in v]]
        if isinstance(v, (int, float, np.integer, np.floating)) and not isinstance(
                v, (bool, np.bool_)):
            x = float(v) * scale
            return ['N', int(round(x))] if abs(x - round(x)) < 1e-9 else ['F', float(v)]
    if v is None:
        return ['Z']
    if isinstance(v, (bool, np.bool_)):
        return ['B', int(v)]
    if isinstance(v, (int, np.integer)):
        return ['N', int(v)]
    if isinstance(v, (float, np.floating)):
        return ['N', int(v)] if float(v).is_integer() else ['F', float(v)]
    if isinstance(v, str):
        return ['E', v] if v.startswith('#') else ['S', v]
    if isinstance(v, tuple):
        return ['M', [[js_val(x) for x in row] for row in v]]
    return ['X', repr(v)]


def py_val(j):
    """JSON tagged value -> python scalar"""
    t = j[0]
    if t == 'Z':
        return None
    if t == 'B':
        return bool(j[1])
    if t in ('N', 'S', 'E', 'F'):
        return j[1]
    if t == 'M':
        return tuple(tuple(py_val(x) for x in row) for row in j[1])
    raise ValueError(j)


def py_val_scaled(j, scale=1):
    """JSON tagged value of a scaled model -> python scalar"""
    if j[0] == 'N' and scale != 1:
        v = j[1] / scale
        return int(v) if float(v).is_integer() else v
    return py_val(j)


def cse_members(ref, rows=None):
    from pycel.excelutil import AddressRange
    return [[c.coordinate for c in row] for row in AddressRange(ref).rows]


def nodes(wb):
    out = dict(inputs=sorted(wb['inputs']), formulas=sorted(wb['formulas']),
               ranges=sorted(wb.get('ranges', {})) , aliases=sorted(wb.get('aliases', {})))
    cse_formulas = []
    for ref in wb.get('cse', {}):
        out['ranges'].append(ref)
        for row in cse_members(ref):
            cse_formulas.extend(row)
    out['formulas'] = sorted(set(out['formulas']) | set(cse_formulas))
    out['ranges'] = sorted(set(out['ranges']))
    return out


def q(s):
    return '"' + s + '"'


def tla_seq(items):
    return '<<' + ', '.join(items) + '>>'


def tla_set(items):
    return '{' + ', '.join(items) + '}'


def tla_constants(wb, pool, src, name, lists=(), settable=None, extends='Engine',
                  extra='', recalc=False, setlists=()):
    """text of an MC module binding Engine's constants for this workbook"""
    n = nodes(wb)
    scale = wb.get('scale', 1)
    defs = []
    for f, d in sorted(wb['formulas'].items()):
        kind = d[0]
        if kind == 'Plus':
            defs.append(f'{q(f)} :> [kind |-> "Plus", refs |-> {tla_seq(map(q, d[1]))}, k |-> {d[2] * scale}]')
        elif kind == 'Lin':
            defs.append(f'{q(f)} :> [kind |-> "Lin", refs |-> {tla_seq(map(q, d[1]))}, '
                        f'coefs |-> {tla_seq(map(str, d[2]))}, shift |-> {d[3]}, b |-> {d[4] * scale}]')
        elif kind in ('Cat', 'CatE'):
            suf = 'x' if kind == 'Cat' else ''
            defs.append(f'{q(f)} :> [kind |-> "Cat", ref |-> {q(d[1])}, suf |-> "{suf}"]')
        elif kind == 'SumR':
            defs.append(f'{q(f)} :> [kind |-> "SumR", rng |-> {q(d[1])}]')
        elif kind == 'Idx':
            defs.append(f'{q(f)} :> [kind |-> "Idx", rng |-> {q(d[1])}, i |-> {d[2]}, j |-> {d[3]}]')
        else:
            raise ValueError(kind)
    for r, rows in sorted(wb.get('ranges', {}).items()):
        rr = tla_seq(tla_seq(map(q, row)) for row in rows)
        defs.append(f'{q(r)} :> [kind |-> "Range", rows |-> {rr}]')
    for r, (srcr, k) in sorted(wb.get('cse', {}).items()):
        rows = cse_members(r)
        rr = tla_seq(tla_seq(map(q, row)) for row in rows)
        defs.append(f'{q(r)} :> [kind |-> "CSE", rng |-> {q(srcr)}, k |-> {k}, rows |-> {rr}]')
        for i, row in enumerate(rows, 1):
            for j, c in enumerate(row, 1):
                defs.append(f'{q(c)} :> [kind |-> "Idx", rng |-> {q(r)}, i |-> {i}, j |-> {j}]')
    for a, r in sorted(wb.get('aliases', {}).items()):
        defs.append(f'{q(a)} :> [kind |-> "Alias", rng |-> {q(r)}]')
    init0 = ' @@ '.join(f'{q(a)} :> {tla_val(v, scale)}' for a, v in sorted(wb['inputs'].items()))
    return f'''---- MODULE {name} ----
EXTENDS {extends}
MCInputs == {tla_set(map(q, n['inputs']))}
MCFormulas == {tla_set(map(q, n['formulas']))}
MCRanges == {tla_set(map(q, n['ranges']))}
MCAliases == {tla_set(map(q, n['aliases']))}
MCDef == {(' @@ ' + chr(10) + '  ').join(defs)}
MCInit0 == {init0}
MCPool == {tla_set(tla_val(v, scale) for v in pool)}
MCSettable == {tla_set(map(q, sorted(wb['inputs']) if settable is None else settable))}
MCSetLists == {tla_set(tla_seq('<<' + q(a) + ', ' + tla_val(v, wb.get('scale', 1)) + '>>' for a, v in sl) for sl in setlists)}
MCRecalc == {'TRUE' if recalc else 'FALSE'}
MCLists == {tla_set(tla_seq(map(q, l)) for l in lists)}
MCSrc == "{src}"
{extra}
====
'''


CONST_CFG = '''CONSTANTS
  Inputs <- MCInputs
  Formulas <- MCFormulas
  Ranges <- MCRanges
  Aliases <- MCAliases
  Def <- MCDef
  Init0 <- MCInit0
  Pool <- MCPool
  Lists <- MCLists
  SetLists <- MCSetLists
  Recalc <- MCRecalc
  Settable <- MCSettable
  Src <- MCSrc
'''

ENGINE_CFG = CONST_CFG + '''SPECIFICATION Spec
VIEW view
INVARIANT Coherent
INVARIANT InputsMirror
INVARIANT RetOK
INVARIANT Closure
INVARIANT EdgesComplete
INVARIANT NoStrayCache
INVARIANT UnchangedIsInit
'''


def formula_text(wb, f):
    d = wb['formulas'][f]
    if d[0] == 'Plus':
        return '=' + '+'.join(d[1]) + f'+{d[2]}'
    if d[0] == 'Lin':
        terms = '+'.join(f'{c}*{r}' for r, c in zip(d[1], d[2]))
        return f'=({terms})/{2 ** d[3]}+{d[4]}'
    if d[0] == 'Cat':
        return f'={d[1]}&"x"'
    if d[0] == 'CatE':
        return f'={d[1]}&""'
    if d[0] == 'SumR':
        return f'=SUM({d[1]})'
    if d[0] == 'Idx':
        return f'=INDEX({d[1]},{d[2]},{d[3]})'
    raise ValueError(d)


def cells(wb, inputs=None):
    """(cells, arrays) for xl.make_wb with the given input assignment"""
    vals = dict(wb['inputs'])
    if inputs:
        vals.update(inputs)
    out = {a: v for a, v in vals.items() if v is not None}
    for f in wb['formulas']:
        out[f] = wb.get('texts', {}).get(f) or formula_text(wb, f)
    arrays = {r: wb.get('cse_texts', {}).get(r) or f'={s}*{k}'
              for r, (s, k) in wb.get('cse', {}).items()}
    out.update(wb.get('extra_cells', {}))      # headers, tables: not nodes of the model
    return out, arrays


def addr(n):
    """node id -> pycel address (nodes of other sheets carry their sheet: 'T!A1')"""
    return n if '!' in n else f'{SHEET}!{n}'


def node_of(address):
    """pycel address -> node id"""
    pre = SHEET + '!'
    return address[len(pre):] if address.startswith(pre) else address


# ---------------------------------------------------------------------------
WORKBOOKS = {
    # C12: a CSE array formula fed by formula cells
    'csef': dict(
        inputs={'A1': 3},
        formulas={'B1': ('Plus', ['A1'], 1), 'B2': ('Plus', ['A1'], 2),
                  'E1': ('Plus', ['D1', 'D2'], 0)},
        ranges={'B1:B2': [['B1'], ['B2']]},
        cse={'D1:D2': ('B1:B2', 2)}),
    # an unbounded range one of whose cells is a formula (C09: failing member)
    'aliasf': dict(
        inputs={'A1': 1},
        formulas={'A2': ('Plus', ['A1'], 1), 'B1': ('SumR', 'A:A'), 'C1': ('Plus', ['B1'], 0),
                  'B2': ('Plus', ['A1'], 10)},
        ranges={'A1:A2': [['A1'], ['A2']]},
        aliases={'A:A': 'A1:A2'}),
    # two sheets: formulas and a range on the second sheet, references across
    'twosheet': dict(
        inputs={'A1': 1, 'T!A1': 2, 'T!A2': 3},
        formulas={'B1': ('Plus', ['A1', 'T!A1'], 0), 'T!B1': ('SumR', 'T!A1:A2'),
                  'C1': ('Plus', ['B1', 'T!B1'], 1), 'D1': ('Cat', 'T!B1')},
        ranges={'T!A1:A2': [['T!A1'], ['T!A2']]}),
    # C12: large values, where a relative closeness test is much looser than a tolerance
    'big': dict(
        inputs={'A1': 3000000, 'A2': 2},
        formulas={'B1': ('Plus', ['A1', 'A2'], 1), 'C1': ('Plus', ['B1'], 10),
                  'D1': ('Cat', 'C1')}),
    # C09: C1 captures a #VALUE! (text + number) before it reads B1
    'capture': dict(
        inputs={'A1': 'a', 'A2': 1},
        formulas={'B1': ('Plus', ['A2'], 1), 'C1': ('Plus', ['A1', 'A2', 'B1'], 0),
                  'D1': ('Plus', ['A2'], 5), 'E1': ('Cat', 'C1')}),
    # C01 stored results: B1 is the empty text while A1 is blank; a workbook
    # stores that as <v></v>, which is read back as "no value"
    'emptytext': dict(
        inputs={'A1': None, 'A2': 1},
        formulas={'B1': ('CatE', 'A1'), 'C1': ('Cat', 'B1'), 'D1': ('Plus', ['A2'], 1),
                  'E1': ('Cat', 'D1')}),
    # C01: a cell formula whose value is a range (=A1:A2) keeps the top left
    # value of the range; A1 is blank to begin with (a formula never gives
    # "no value": a blank reads as 0)
    'topleft': dict(
        inputs={'A1': None, 'A2': 7},
        formulas={'B1': ('Idx', 'A1:A2', 1, 1), 'C1': ('Plus', ['B1'], 1)},
        texts={'B1': '=A1:A2'},
        ranges={'A1:A2': [['A1'], ['A2']]}),
    # C01 "written references (cells, ranges, names)": the formulas reach their
    # precedents through defined names (a range name and a cell name)
    'named': dict(
        inputs={'A1': 1, 'A2': 2},
        formulas={'B1': ('SumR', 'A1:A2'), 'C1': ('Plus', ['A1'], 1),
                  'D1': ('Plus', ['B1', 'C1'], 0)},
        texts={'B1': '=SUM(RNGONE)', 'C1': '=CELLONE+1'},
        ranges={'A1:A2': [['A1'], ['A2']]},
        extra_cells={'__names__': {'RNGONE': 'S!$A$1:$A$2', 'CELLONE': 'S!$A$1'}}),
    # C01 "written references": precedents reached through the reference
    # operators -- the intersection of two ranges (the model knows the formula
    # by the rectangle it reads; the code's own nodes differ: spec drift)
    'refops': dict(
        inputs={'A1': 1, 'B1': 3, 'B2': 4},
        formulas={'C1': ('SumR', 'B1:B2'), 'D1': ('Plus', ['C1'], 1),
                  'E1': ('SumR', 'B1:B2')},
        # (E1: the range operator between two written references, D132)
        texts={'C1': '=SUM(A1:B2 B1:B2)', 'E1': '=SUM(B1:(B2))'},
        ranges={'B1:B2': [['B1'], ['B2']]}),
    # C01: a range of more than 10 000 cells (the model knows the two cells
    # which hold something; every other cell of the rectangle is blank)
    'bigrange': dict(
        inputs={'A1': 1, 'A2': 5},
        formulas={'CX1': ('SumR', 'A1:A2'), 'CX2': ('Plus', ['CX1'], 1)},
        texts={'CX1': '=SUM(A1:CV101)'},
        ranges={'A1:A2': [['A1'], ['A2']]}),
    # a sheet of one row: A:A resolves to the single (blank) cell A1, B:B to the
    # single formula cell B1
    'onecell': dict(
        inputs={'A1': None},
        formulas={'B1': ('Plus', ['A1'], 1), 'C1': ('SumR', 'A:A'), 'D1': ('SumR', 'B:B'),
                  'E1': ('Plus', ['C1', 'D1'], 0)},
        aliases={'A:A': 'A1', 'B:B': 'B1'}),
    # C08: an input which is blank when the model is trimmed, read directly and
    # through a range
    'blankin': dict(
        inputs={'A1': 1, 'A2': None},
        formulas={'B1': ('Plus', ['A1', 'A2'], 0), 'C1': ('SumR', 'A1:A2'),
                  'D1': ('Cat', 'A2'), 'E1': ('Plus', ['B1', 'C1'], 0)},
        ranges={'A1:A2': [['A1'], ['A2']]}),
    # DESIGN C08: x uses a member of the range directly, s the range
    'trimex': dict(
        inputs={'A1': 1, 'B1': 2, 'A2': 5},
        formulas={'C1': ('Plus', ['A1'], 1), 'D1': ('SumR', 'A1:B1'),
                  'E1': ('Plus', ['C1', 'D1'], 0), 'C2': ('Plus', ['A2'], 1),
                  'E2': ('Plus', ['E1', 'C2'], 0)},
        ranges={'A1:B1': [['A1', 'B1']]}),
    # scalar chain; Cat reveals the type of what it reads
    'chain': dict(
        inputs={'A1': 1, 'A2': 2},
        formulas={'B1': ('Plus', ['A1', 'A2'], 1), 'C1': ('Cat', 'B1'),
                  'D1': ('Cat', 'A1')}),
    # a range, a formula over it and a formula over that
    'range': dict(
        inputs={'A1': 1, 'A2': 2, 'A3': None},
        formulas={'B1': ('SumR', 'A1:A3'), 'C1': ('Plus', ['B1', 'A1'], 0),
                  'D1': ('Idx', 'A1:A3', 3, 1)},
        ranges={'A1:A3': [['A1'], ['A2'], ['A3']]}),
    # nested ranges: a range whose members are formulas (one over a range)
    'nested': dict(
        inputs={'A1': 1, 'A2': 'a'},
        formulas={'B1': ('Plus', ['A1'], 1), 'B2': ('SumR', 'A1:A2'),
                  'C1': ('SumR', 'B1:B2'), 'D1': ('Cat', 'C1')},
        ranges={'A1:A2': [['A1'], ['A2']], 'B1:B2': [['B1'], ['B2']]}),
    # unbounded range next to the bounded range it resolves to
    'alias': dict(
        inputs={'A1': 1, 'A2': 2},
        formulas={'B1': ('SumR', 'A:A'), 'B2': ('SumR', 'A1:A2'),
                  'C1': ('Plus', ['B1', 'B2'], 0)},
        ranges={'A1:A2': [['A1'], ['A2']]},
        aliases={'A:A': 'A1:A2'}),
    # CSE array formula {=A1:A2*2} over D1:D2 and consumers of its members
    'cse': dict(
        inputs={'A1': 1, 'A2': 2},
        formulas={'E1': ('Plus', ['D1', 'D2'], 0), 'F1': ('SumR', 'D1:D2')},
        ranges={'A1:A2': [['A1'], ['A2']]},
        cse={'D1:D2': ('A1:A2', 2)}),
    # 2-d range with a row and a column consumer
    'grid': dict(
        inputs={'A1': 1, 'B1': 2, 'A2': 3},
        formulas={'B2': ('Plus', ['A1', 'B1'], 0), 'C1': ('SumR', 'A1:B2'),
                  'C2': ('Idx', 'A1:B2', 2, 2), 'D1': ('Cat', 'C2')},
        ranges={'A1:B2': [['A1', 'B1'], ['A2', 'B2']]}),
}

# C05: the same workbooks with observer ranges (rectangles and unbounded
# rows/columns nobody depends on) so that every access path is an action
# C06: circular workbooks (dyadic linear systems, exact when scaled by 2^16)
WORKBOOKS_CYC = {
    # A1 = (B1 + C1)/4 + 1 ; B1 = A1/2 ; C1 input       q = 1/8
    'cyc2': dict(scale=65536,
        inputs={'C1': 4},
        formulas={'A1': ('Lin', ['B1', 'C1'], [1, 1], 2, 1), 'B1': ('Lin', ['A1'], [1], 1, 0)}),
    # a cycle through a range: S1 = SUM(B1:B2) ; A1 = S1/4 + 1 ; B1 = A1 ; B2 input
    'cycr': dict(scale=65536,
        inputs={'B2': 1},
        formulas={'S1': ('SumR', 'B1:B2'), 'A1': ('Lin', ['S1'], [1], 2, 1),
                  'B1': ('Lin', ['A1'], [1], 0, 0)},
        ranges={'B1:B2': [['B1'], ['B2']]}),
    # three cells, two coupled loops
    'cyc3': dict(scale=65536,
        inputs={'D1': 8},
        formulas={'A1': ('Lin', ['B1', 'C1'], [1, 1], 2, 2),
                  'B1': ('Lin', ['A1', 'D1'], [1, 1], 2, 0),
                  'C1': ('Lin', ['B1'], [1], 1, 1)}),
}

WORKBOOKS_OBS = {
    'chain_obs': dict(
        inputs={'A1': 1, 'A2': 2, 'B2': None},
        formulas={'B1': ('Plus', ['A1', 'A2'], 1), 'C1': ('Cat', 'B1'),
                  'D1': ('Cat', 'A1')},
        ranges={'A1:B2': [['A1', 'B1'], ['A2', 'B2']],
                'A1:D1': [['A1', 'B1', 'C1', 'D1']],
                'A1:A2': [['A1'], ['A2']]},
        aliases={'1:1': 'A1:D1', 'A:A': 'A1:A2'}),
    'nested_obs': dict(
        inputs={'A1': 1, 'A2': 'a', 'C2': None, 'D2': None},
        formulas={'B1': ('Plus', ['A1'], 1), 'B2': ('SumR', 'A1:A2'),
                  'C1': ('SumR', 'B1:B2'), 'D1': ('Cat', 'C1')},
        ranges={'A1:A2': [['A1'], ['A2']], 'B1:B2': [['B1'], ['B2']],
                'A1:D2': [['A1', 'B1', 'C1', 'D1'], ['A2', 'B2', 'C2', 'D2']]},
        aliases={'B:B': 'B1:B2', '2:2': 'A2:D2'}),
    'cse_obs': dict(
        inputs={'A1': 1, 'A2': 2},
        formulas={'E1': ('Plus', ['D1', 'D2'], 0)},
        ranges={'A1:A2': [['A1'], ['A2']], 'D1:E2': [['D1', 'E1'], ['D2', 'E2']]},
        cse={'D1:D2': ('A1:A2', 2)},
        aliases={'D:D': 'D1:D2'}),
}
WORKBOOKS_OBS['cse_obs']['inputs']['E2'] = None
# the used area of the sheet starts at B3: unbounded rows and columns still
# start at row 1 / column A (blank cells above and left of the data)
WORKBOOKS_OBS['offset_obs'] = dict(
    inputs={'B3': 1, 'B4': 2, 'B1': None, 'B2': None, 'A3': None},
    formulas={'C3': ('Plus', ['B3'], 1), 'C4': ('SumR', 'B3:B4')},
    ranges={'B3:B4': [['B3'], ['B4']], 'B1:B4': [['B1'], ['B2'], ['B3'], ['B4']],
            'A3:C3': [['A3', 'B3', 'C3']]},
    aliases={'B:B': 'B1:B4', '3:3': 'A3:C3'})

# blank cells beyond the used area (A4 below, D1 to the right of the data) which
# no formula reads: reading one of them first must not change what the
# unbounded column / row are clipped to (the used area belongs to the workbook)
WORKBOOKS_OBS['beyond_obs'] = dict(
    inputs={'A1': 1, 'A2': 2, 'A4': None, 'D1': None, 'E1': None, 'E2': None},
    # (E:E lies beyond the used area A1:C2 altogether: blank cells, its sum is 0)
    formulas={'B1': ('SumR', 'A:A'), 'B2': ('Plus', ['A1'], 1), 'C1': ('SumR', 'E:E')},
    ranges={'A1:A2': [['A1'], ['A2']], 'A1:C1': [['A1', 'B1', 'C1']],
            'E1:E2': [['E1'], ['E2']]},
    aliases={'A:A': 'A1:A2', '1:1': 'A1:C1', 'E:E': 'E1:E2'})

# the same on a sheet which is not the active one: blank cells beyond the used
# area of sheet T (T!A4 below, T!C1 right of the data) read first
WORKBOOKS_OBS['beyond2_obs'] = dict(
    inputs={'T!A1': 1, 'T!A2': 2, 'T!B1': 3, 'T!A4': None, 'T!C1': None, 'A1': 7},
    formulas={'B1': ('SumR', 'T!A:A'), 'B2': ('Plus', ['A1', 'T!A1'], 1)},
    ranges={'T!A1:A2': [['T!A1'], ['T!A2']], 'T!A1:B1': [['T!A1', 'T!B1']]},
    aliases={'T!A:A': 'T!A1:A2', 'T!1:1': 'T!A1:B1'})

# a sheet of one row: the unbounded column A:A is clipped to the single cell A1
WORKBOOKS_OBS['onecell_obs'] = dict(
    inputs={'A1': 5},
    formulas={'B1': ('SumR', 'A:A'), 'C1': ('Plus', ['A1'], 1)},
    ranges={'A1:C1': [['A1', 'B1', 'C1']]},
    aliases={'A:A': 'A1', '1:1': 'A1:C1'})

# Workbooks whose formulas are outside the formula kinds Engine.tla knows: the
# kinds below only give the model the same dependency shape, the real formula
# text is in `texts`.  Tours over them are judged by observables only.
WORKBOOKS_OPAQUE = {
    # plain cells with array-sensitive functions that feed a CSE array formula
    'cse_opq': dict(
        inputs={'A1': 1, 'A2': 2, 'A3': 3, 'B3': 5},
        formulas={'B1': ('SumR', 'A1:A3'), 'B2': ('SumR', 'A1:A3')},
        texts={'B1': '=IFERROR(A1:A3,9)', 'B2': '=IFNA(A1:A3,7)'},
        ranges={'A1:A3': [['A1'], ['A2'], ['A3']], 'B1:B3': [['B1'], ['B2'], ['B3']]},
        cse={'D1:D3': ('A1:A3', 2)}, cse_texts={'D1:D3': '=A1:A3*B1+B2'}),
    # a table with a calculated column: the same formula text in every row
    'table_opq': dict(
        inputs={'A2': 1, 'A3': 2, 'A4': 3},
        formulas={'B2': ('Plus', ['A2'], 0), 'B3': ('Plus', ['A3'], 0),
                  'B4': ('Plus', ['A4'], 0), 'C2': ('SumR', 'B2:B4')},
        texts={'B2': '=T[[#This Row],[x]]*2', 'B3': '=T[[#This Row],[x]]*2',
               'B4': '=T[[#This Row],[x]]*2', 'C2': '=SUM(T[y])'},
        ranges={'B2:B4': [['B2'], ['B3'], ['B4']], 'A2:B4': [['A2', 'B2'], ['A3', 'B3'], ['A4', 'B4']]},
        extra_cells={'A1': 'x', 'B1': 'y', '__table__': ('T', 'A1:B4')}),
    # formulas whose value is a reference (OFFSET / INDIRECT) to a formula cell
    # nobody may have calculated yet, and a dependant of such a formula
    'refval_opq': dict(
        inputs={'B1': 1, 'A2': None},
        formulas={'B2': ('Plus', ['B1'], 1), 'A1': ('Plus', ['B2'], 0),
                  'C1': ('Plus', ['B2'], 0), 'D1': ('Plus', ['A1'], 1)},
        texts={'A1': '=OFFSET(B1,1,0)', 'C1': '=INDIRECT("B2")'},
        ranges={'A1:D1': [['A1', 'B1', 'C1', 'D1']], 'A1:B2': [['A1', 'B1'], ['A2', 'B2']]}),
}
WORKBOOKS_OBS['nested_obs']['ranges']['A2:D2'] = [['A2', 'B2', 'C2', 'D2']]

POOL_QUICK = [None, 0, 1, True, 'a']
POOL_FULL = [None, 0, 1, 2, False, True, 'a', '']
