"""Helpers to build real workbooks and drive the real pycel code."""
import logging
import os
import re
import zipfile

from openpyxl import Workbook
from openpyxl.worksheet.formula import ArrayFormula

logging.getLogger('pycel').setLevel(logging.CRITICAL)
logging.getLogger('pycel').addHandler(logging.NullHandler())
logging.getLogger('pycel').propagate = False


def make_wb(cells, sheet='S', arrays=None, names=None, iterate=None):
    """cells: {'A1': value or '=formula'}; arrays: {'B1:B2': '=A1:A2*2'}"""
    wb = Workbook()
    ws = wb.active
    ws.title = sheet
    tables = {k: v for k, v in cells.items() if k.startswith('__table')}
    if '__names__' in cells:            # defined names carried with the cells
        names = dict(cells['__names__'], **(names or {}))
    for addr, v in cells.items():
        if addr in tables or addr == '__names__':
            continue
        if '!' in addr:
            sh, a = addr.split('!')
            if sh not in wb.sheetnames:
                wb.create_sheet(sh)
            wb[sh][a] = v
        else:
            ws[addr] = v
    for name_ref in tables.values():
        from openpyxl.worksheet.table import Table
        tab = Table(displayName=name_ref[0], ref=name_ref[1])
        tab._initialise_columns()
        first_row = ws[name_ref[1].split(':')[0]].row
        from openpyxl.utils import range_boundaries
        c1, r1, c2, r2 = range_boundaries(name_ref[1])
        for col, ci in zip(tab.tableColumns, range(c1, c2 + 1)):
            col.name = str(ws.cell(row=r1, column=ci).value)
        ws.add_table(tab)
    for ref, text in (arrays or {}).items():
        first = ref.split(':')[0]
        ws[first] = ArrayFormula(ref, text)
    if names:
        from openpyxl.workbook.defined_name import DefinedName
        for name, target in names.items():
            dn = DefinedName(name, attr_text=target)
            if hasattr(wb.defined_names, 'add'):
                wb.defined_names.add(dn)
            else:
                wb.defined_names[name] = dn
    if iterate:
        from openpyxl.workbook.properties import CalcProperties
        wb.calculation = CalcProperties(
            iterate=True, iterateCount=iterate[0], iterateDelta=iterate[1])
    return wb


def compile_wb(cells, sheet='S', arrays=None, names=None, cycles=None,
               plugins=None, iterate=None):
    from pycel import ExcelCompiler
    wb = make_wb(cells, sheet=sheet, arrays=arrays, names=names,
                 iterate=iterate)
    return ExcelCompiler(excel=wb, cycles=cycles, plugins=plugins)


def evalf(formula, cells=None, sheet='S', at='Z99'):
    """Evaluate one formula placed in a fresh in-memory workbook."""
    c = dict(cells or {})
    c[at] = formula
    m = compile_wb(c, sheet=sheet)
    return m.evaluate(f'{sheet}!{at}')


def typeclass(v):
    """Excel type class of a Python value as pycel returns it."""
    import numpy as np
    if v is None:
        return 'blank'
    if isinstance(v, (bool, np.bool_)):
        return 'bool'
    if isinstance(v, (int, float, np.integer, np.floating)):
        return 'num'
    if isinstance(v, str):
        from pycel.excelutil import ERROR_CODES
        return 'err' if v in ERROR_CODES else 'text'
    if isinstance(v, tuple):
        return 'array'
    return 'other:' + type(v).__name__


def same_value(a, b, tol=0.0):
    """value and type class equal (bool is not a number)."""
    ta, tb = typeclass(a), typeclass(b)
    if ta != tb:
        return False
    if ta == 'array':
        return len(a) == len(b) and all(same_value(x, y, tol) for x, y in zip(a, b))
    if ta == 'num':
        if a == b:
            return True
        if tol:
            return abs(a - b) <= tol * max(1.0, abs(a), abs(b))
        return False
    return a == b


def write_xlsx_with_results(path, cells, results, sheet='S', arrays=None,
                            names=None, iterate=None):
    """Write an .xlsx whose formula cells carry stored results.

    openpyxl cannot write cached results, so the sheet XML is patched:
    <c r="B1"><f>A1+1</f><v></v></c>  ->  <v>2</v> (+ t="str"/"b"/"e").
    results: {'B1': value}
    """
    wb = make_wb(cells, sheet=sheet, arrays=arrays, names=names,
                 iterate=iterate)
    tmp = path + '.tmp.xlsx'
    wb.save(tmp)
    zin = zipfile.ZipFile(tmp)
    zout = zipfile.ZipFile(path, 'w', zipfile.ZIP_DEFLATED)
    for item in zin.infolist():
        data = zin.read(item.filename)
        if item.filename.startswith('xl/worksheets/sheet'):
            text = data.decode('utf8')

            def patch(m):
                addr, rest, f = m.group(1), m.group(2), m.group(3)
                if addr not in results:
                    return m.group(0)
                v = results[addr]
                rest = re.sub(r'\st="[^"]*"', '', rest)
                if isinstance(v, bool):
                    t, txt = ' t="b"', '1' if v else '0'
                elif isinstance(v, (int, float)):
                    t, txt = '', repr(v)
                elif isinstance(v, str) and v.startswith('#'):
                    t, txt = ' t="e"', v
                elif v == '':
                    # what Excel writes for a formula whose result is the empty text
                    return f'<c r="{addr}"{rest} t="str">{f}<v></v></c>'
                else:
                    t, txt = ' t="str"', (str(v).replace('&', '&amp;')
                                          .replace('<', '&lt;').replace('>', '&gt;'))
                return f'<c r="{addr}"{rest}{t}>{f}<v>{txt}</v></c>'

            text = re.sub(
                r'<c r="([A-Z]+[0-9]+)"([^>]*)>(<f[^>]*>[^<]*</f>|<f[^>]*/>)<v\s*/>\s*</c>',
                patch, text)
            # members of an array formula other than its first cell have no
            # <c> element: add one carrying the stored result
            for addr, v in results.items():
                if f'<c r="{addr}"' in text:
                    continue
                rownum = re.sub(r'[A-Z]+', '', addr)
                if isinstance(v, bool):
                    cell = f'<c r="{addr}" t="b"><v>{int(v)}</v></c>'
                elif isinstance(v, (int, float)):
                    cell = f'<c r="{addr}"><v>{v!r}</v></c>'
                elif isinstance(v, str) and v.startswith('#'):
                    cell = f'<c r="{addr}" t="e"><v>{v}</v></c>'
                else:
                    cell = f'<c r="{addr}" t="str"><v>{v}</v></c>'
                m = re.search(r'<row r="%s"[^>]*>' % rownum, text)
                if m and not m.group(0).endswith('/>'):
                    end = text.index('</row>', m.end())
                    text = text[:end] + cell + text[end:]
                else:
                    if m:
                        text = text.replace(m.group(0), '', 1)
                    text = text.replace('</sheetData>',
                                        f'<row r="{rownum}">{cell}</row></sheetData>')
            data = text.encode('utf8')
        zout.writestr(item, data)
    zout.close()
    zin.close()
    os.unlink(tmp)
    return path
