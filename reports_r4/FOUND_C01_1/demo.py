"""C01 on the UNCHANGED tree: a formula cell whose result is None hides its
dependants from set_value().

Clause broken: "after ANY interleaving of set_value and evaluate calls every
cell evaluates to exactly the value a from-scratch compile of the same
workbook with the current input values produces" (acyclic workbook, written
references only: a range).

    A1 blank, A2 = 7, A3 = 8
    B1 = A1:A3         (a cell formula whose value is a range: pycel stores
                        the top left value of the range, here the blank A1,
                        i.e. None -- the same happens with =IF(TRUE,A1:A3))
    C1 = B1+1
"""
from openpyxl import Workbook

from pycel import ExcelCompiler

FORMULAS = {'B1': '=A1:A3', 'C1': '=B1+1'}


def workbook(inputs):
    wb = Workbook()
    ws = wb.active
    ws.title = 'Sheet1'
    for coord, value in {**inputs, **FORMULAS}.items():
        ws[coord] = value
    return wb


def from_scratch(inputs):
    return ExcelCompiler(excel=workbook(inputs)).evaluate('Sheet1!C1')


def history_1():
    # the first write comes before B1 is built
    inputs = {'A2': 7, 'A3': 8}
    model = ExcelCompiler(excel=workbook(inputs))
    model.evaluate('Sheet1!A2')
    model.set_value('Sheet1!A2', 70)
    assert model.evaluate('Sheet1!C1') == from_scratch({'A2': 70, 'A3': 8}) == 1
    model.set_value('Sheet1!A1', 9)
    expected = from_scratch({'A1': 9, 'A2': 70, 'A3': 8})
    assert expected == 10
    got = model.evaluate('Sheet1!C1')
    assert got == expected, f'history 1: C1 is {got}, from scratch {expected}'


def history_2():
    # blank -> 5 -> blank -> 9
    inputs = {'A2': 7, 'A3': 8}
    model = ExcelCompiler(excel=workbook(inputs))
    assert model.evaluate('Sheet1!C1') == 1
    model.set_value('Sheet1!A1', 5)
    assert model.evaluate('Sheet1!C1') == 6
    model.set_value('Sheet1!A1', None)
    assert model.evaluate('Sheet1!C1') == 1
    model.set_value('Sheet1!A1', 9)
    got = model.evaluate('Sheet1!C1')
    assert got == 10, f'history 2: C1 is {got}, from scratch 10'


if __name__ == '__main__':
    failures = []
    for history in (history_1, history_2):
        try:
            history()
        except AssertionError as exc:
            failures.append(str(exc))
    assert not failures, failures
    print('ok')
