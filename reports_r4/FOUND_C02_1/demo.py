"""C02 on the UNCHANGED tree: "Literals denote themselves: ... numbers their
value".  A number literal in scientific notation with a signed exponent is
only read as a number when its mantissa has exactly one digit 1-9 in front of
the point (openpyxl's SN_RE, not amended by pycel's Tokenizer): =12E+3,
=0.5E+3, =25E-1, =10.5E+1, =1.E+2 are cut at the sign into a name and a
number and evaluate to #NAME?.  Excel: 12000, 500, 2.5, 105, 100.
"""
import logging
import os
import shutil
import tempfile

from openpyxl import Workbook

from pycel import ExcelCompiler

CASES = [
    ('=1.5E+3', 1500), ('=12E3', 12000), ('=1E-2', 0.01),   # fine
    ('=12E+3', 12000), ('=0.5E+3', 500), ('=25E-1', 2.5),
    ('=10.5E+1', 105), ('=1.E+2', 100), ('=2*30E-1', 6),
]


def main():
    logging.disable(logging.CRITICAL)
    tmp = tempfile.mkdtemp()
    try:
        path = os.path.join(tmp, 'a.xlsx')
        wb = Workbook()
        ws = wb.active
        ws.title = 'S'
        for row, (formula, _) in enumerate(CASES, start=1):
            ws.cell(row=row, column=1, value=formula)
        wb.save(path)
        model = ExcelCompiler(path)
        wrong = []
        for row, (formula, expected) in enumerate(CASES, start=1):
            value = model.evaluate(f'S!A{row}')
            if value != expected:
                code = model.cell_map[f'S!A{row}'].formula.python_code
                wrong.append(f'{formula} -> {value!r} ({code}), Excel {expected}')
        assert not wrong, '\n' + '\n'.join(wrong)
    finally:
        shutil.rmtree(tmp)


if __name__ == '__main__':
    main()
