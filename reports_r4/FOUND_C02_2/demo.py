"""C02 on the UNCHANGED tree: "a text literal yields exactly its characters".
A text literal which spells an error code ("#N/A", "#DIV/0!", ...) is emitted
as the very same python string as the error literal and from then on IS the
error: ="#N/A"&"x" is "#N/Ax" in Excel, =LEN("#N/A") is 4, ="#N/A"="#N/A" is
TRUE, =ISTEXT("#N/A") is TRUE, =ISERROR("#N/A") is FALSE.
"""
import logging
import os
import shutil
import tempfile

from openpyxl import Workbook

from pycel import ExcelCompiler

CASES = [
    ('="#N/B"&"x"', '#N/Bx'), ('=LEN("#N/B")', 4),       # fine
    ('="#N/A"&"x"', '#N/Ax'), ('=LEN("#N/A")', 4),
    ('="#DIV/0!"="#DIV/0!"', True), ('=IF("#REF!"="",1,2)', 2),
    ('=ISERROR("#VALUE!")', False), ('="x"&"#NUM!"', 'x#NUM!'),
]


def main():
    logging.disable(logging.CRITICAL)
    tmp = tempfile.mkdtemp()
    try:
        path = os.path.join(tmp, 'a.xlsx')
        wb = Workbook()
        ws = wb.active
        ws.title = 'S'
        for row, (formula, _) in enumerate(CASES, start=1):
            ws.cell(row=row, column=1, value=formula)
        wb.save(path)
        model = ExcelCompiler(path)
        wrong = []
        for row, (formula, expected) in enumerate(CASES, start=1):
            value = model.evaluate(f'S!A{row}')
            if value != expected or type(value) is not type(expected):
                wrong.append(f'{formula} -> {value!r}, Excel {expected!r}')
        assert not wrong, '\n' + '\n'.join(wrong)
    finally:
        shutil.rmtree(tmp)


if __name__ == '__main__':
    main()
