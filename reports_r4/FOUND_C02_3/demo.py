"""C02 on the UNCHANGED tree: "Every well-formed Excel formula built from ...
references ... and function calls compiles to code whose result equals ...".
OFFSET() whose reference argument is itself a function call (INDEX, IF,
CHOOSE, another OFFSET: all return references in Excel) does not compile:
FunctionNode.func_offset cuts the emitted argument list at the first ')'.
"""
import logging
import os
import shutil
import tempfile

from openpyxl import Workbook

from pycel import ExcelCompiler

CASES = [
    ('=OFFSET(A1,1,0)', 3),                                  # fine
    ('=OFFSET(INDEX(A1:B2,1,1),1,0)', 3),
    ('=OFFSET(IF(A1=1,A1,B1),1,1)', 4),
    ('=OFFSET(OFFSET(A1,0,1),1,0)', 4),
    ('=SUM(OFFSET(INDEX(A1:B2,1,1),0,0,2,2))', 10),
]


def main():
    logging.disable(logging.CRITICAL)
    tmp = tempfile.mkdtemp()
    try:
        path = os.path.join(tmp, 'a.xlsx')
        wb = Workbook()
        ws = wb.active
        ws.title = 'S'
        ws['A1'], ws['B1'], ws['A2'], ws['B2'] = 1, 2, 3, 4
        for row, (formula, _) in enumerate(CASES, start=1):
            ws.cell(row=row, column=4, value=formula)
        wb.save(path)
        wrong = []
        for row, (formula, expected) in enumerate(CASES, start=1):
            try:
                value = ExcelCompiler(path).evaluate(f'S!D{row}')
            except Exception as exc:
                value = f'{type(exc).__name__}: {str(exc).splitlines()[-1]}'
            if value != expected:
                wrong.append(f'{formula} -> {value!r}, Excel {expected!r}')
        assert not wrong, '\n' + '\n'.join(wrong)
    finally:
        shutil.rmtree(tmp)


if __name__ == '__main__':
    main()
