"""C02 on the UNCHANGED tree: "a text literal yields exactly its characters".
Inside the argument of ROW()/COLUMN()/OFFSET() and inside the operands of the
range operators (':' and the intersection blank) the emitted python TEXT is
rewritten with str.replace('_R_', '_REF_').replace('_C_', '_REF_') -- which
also rewrites text literals: the three characters _C_ or _R_ in a text
literal become the five characters _REF_.
"""
import logging
import os
import shutil
import tempfile

from openpyxl import Workbook

from pycel import ExcelCompiler

CASES = [
    ('=LEN("_C_")', 3),                                      # fine
    ('=ROW(INDIRECT("A"&LEN("abc")))', 3),                   # fine
    ('=ROW(INDIRECT("A"&LEN("_C_")))', 3),
    ('=COLUMN(INDIRECT("A"&LEN("x_R_")))', 1),
    ('=ROW(INDIRECT("A"&LEN("x_R_")))', 4),
    ('=ROW(IF(A1="_C_",B1,B2))', 1),
    ('=ROW(OFFSET(A1,LEN("_R_"),0))', 4),
]


def main():
    logging.disable(logging.CRITICAL)
    tmp = tempfile.mkdtemp()
    try:
        path = os.path.join(tmp, 'a.xlsx')
        wb = Workbook()
        ws = wb.active
        ws.title = 'S'
        ws['A1'], ws['B1'], ws['B2'] = '_C_', 2, 4
        for row, (formula, _) in enumerate(CASES, start=1):
            ws.cell(row=row, column=4, value=formula)
        wb.save(path)
        wrong = []
        for row, (formula, expected) in enumerate(CASES, start=1):
            model = ExcelCompiler(path)
            try:
                value = model.evaluate(f'S!D{row}')
            except Exception as exc:
                value = f'{type(exc).__name__}'
            if value != expected:
                code = model.cell_map[f'S!D{row}'].formula.python_code
                wrong.append(f'{formula} -> {value!r}, Excel {expected!r}: {code}')
        assert not wrong, '\n' + '\n'.join(wrong)
    finally:
        shutil.rmtree(tmp)


if __name__ == '__main__':
    main()
