"""C02 on the UNCHANGED tree: references.  A sheet whose name contains '$'
(legal in Excel: 'US$', 'Cost $') can not be referenced: RangeNode._emit
removes every '$' of the reference text, those of the sheet name included.
"""
import logging
import os
import shutil
import tempfile

from openpyxl import Workbook

from pycel import ExcelCompiler

CASES = [
    ("='EUR'!$A$1+1", 8),                                    # fine
    ("='US$'!A1+1", 42),
    ("=SUM('US$'!$A$1:$A$2)", 43),
    ("='US$'!A1+'US'!A1", 1041),
]


def main():
    logging.disable(logging.CRITICAL)
    tmp = tempfile.mkdtemp()
    try:
        path = os.path.join(tmp, 'a.xlsx')
        wb = Workbook()
        ws = wb.active
        ws.title = 'S'
        wb.create_sheet('US$')['A1'] = 41
        wb['US$']['A2'] = 2
        wb.create_sheet('EUR')['A1'] = 7
        wb.create_sheet('US')['A1'] = 1000
        for row, (formula, _) in enumerate(CASES, start=1):
            ws.cell(row=row, column=1, value=formula)
        wb.save(path)
        wrong = []
        for row, (formula, expected) in enumerate(CASES, start=1):
            try:
                value = ExcelCompiler(path).evaluate(f'S!A{row}')
            except Exception as exc:
                value = f'{type(exc).__name__}: {str(exc).splitlines()[-1]}'
            if value != expected:
                wrong.append(f'{formula} -> {value!r}, Excel {expected!r}')
        assert not wrong, '\n' + '\n'.join(wrong)
    finally:
        shutil.rmtree(tmp)


if __name__ == '__main__':
    main()
