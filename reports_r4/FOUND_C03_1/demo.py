"""C03 on the UNCHANGED tree: a pickle which is out of date is not rewritten.

clause: "A model written with to_file and read back with from_file (yaml, json
or pickle ...) returns for every saved cell the same value as the original"
"""
import os
import shutil
import tempfile

from openpyxl import Workbook

from pycel import ExcelCompiler


def main():
    tmp_dir = tempfile.mkdtemp()
    try:
        wb = Workbook()
        ws = wb.active
        ws.title = 'S'
        ws['A1'] = 1
        ws['B1'] = '=A1+1'
        path = os.path.join(tmp_dir, 'w.xlsx')
        wb.save(path)

        model = ExcelCompiler(filename=path)
        assert model.evaluate('S!B1') == 2
        name = os.path.join(tmp_dir, 'saved')

        model.to_file(name, file_types=('pkl', 'yml'))    # saved.pkl + saved.yml
        model.set_value('S!A1', 10)
        model.to_file(name, file_types=('yml', ))         # only the text is updated
        model.to_file(name, file_types=('pkl', 'yml'))    # text unchanged: pickle kept

        assert model.evaluate('S!B1') == 11
        for file_name in (name + '.yml', name + '.pkl', name):
            loaded = ExcelCompiler.from_file(file_name)
            got = loaded.evaluate('S!A1'), loaded.evaluate('S!B1')
            print(file_name, got)
            assert got == (10, 11), (file_name, got)
    finally:
        shutil.rmtree(tmp_dir)


if __name__ == '__main__':
    main()
