"""C03 on the UNCHANGED tree: a text constant which starts with '=' comes back
as a formula.

clause: "returns for every saved cell the same value as the original"
(quantifier: cell contents incl. "text that looks like ... formulas")
"""
import os
import shutil
import tempfile

from openpyxl import Workbook

from pycel import ExcelCompiler


def main():
    tmp_dir = tempfile.mkdtemp()
    try:
        wb = Workbook()
        ws = wb.active
        ws.title = 'S'
        ws['A1'] = 'x'
        ws['A2'] = 'y'
        ws['B1'] = '=A1&"!"'
        path = os.path.join(tmp_dir, 'w.xlsx')
        wb.save(path)

        model = ExcelCompiler(filename=path)
        model.evaluate(['S!B1', 'S!A2'])
        model.set_value('S!A1', '=1+1')    # a text, as typed with a leading apostrophe
        model.set_value('S!A2', '=')
        expected = model.evaluate(['S!A1', 'S!A2', 'S!B1'])
        assert expected == ['=1+1', '=', '=1+1!'], expected

        for file_type in ('yml', 'json', 'pkl'):
            name = os.path.join(tmp_dir, 'saved_as_' + file_type[0])
            model.to_file(name, file_types=(file_type, ))
            loaded = ExcelCompiler.from_file(f'{name}.{file_type}')
            got = loaded.evaluate(['S!A1', 'S!A2', 'S!B1'])
            print(file_type, got)
            assert got == expected, (file_type, got, expected)
    finally:
        shutil.rmtree(tmp_dir)


if __name__ == '__main__':
    main()
