"""C03 on the UNCHANGED tree: the yaml file (and the pickle, which is made from
it) loses characters of long texts and of the text literals of long formulas.

clause: "returns for every saved cell the same value as the original"
"""
import os
import shutil
import tempfile

from openpyxl import Workbook

from pycel import ExcelCompiler

LONG = 'x' * 105 + '   ' + 'y' * 20           # three spaces around column 120
NEL = 'next\x85line'                          # U+0085


def main():
    tmp_dir = tempfile.mkdtemp()
    try:
        wb = Workbook()
        ws = wb.active
        ws.title = 'S'
        ws['A1'] = LONG
        ws['A2'] = NEL
        ws['B1'] = f'=LEN("{LONG}")'
        path = os.path.join(tmp_dir, 'w.xlsx')
        wb.save(path)

        model = ExcelCompiler(filename=path)
        expected = model.evaluate(['S!A1', 'S!A2', 'S!B1'])
        assert expected == [LONG, NEL, len(LONG)], expected

        failed = []
        for file_type in ('json', 'yml', 'pkl'):
            name = os.path.join(tmp_dir, 'saved_as_' + file_type[0])
            model.to_file(name, file_types=(file_type, ))
            loaded = ExcelCompiler.from_file(f'{name}.{file_type}')
            got = loaded.evaluate(['S!A1', 'S!A2', 'S!B1'])
            print(file_type, [g == e for g, e in zip(got, expected)], got[2])
            if got != expected:
                failed.append(file_type)
        assert not failed, failed
    finally:
        shutil.rmtree(tmp_dir)


if __name__ == '__main__':
    main()
