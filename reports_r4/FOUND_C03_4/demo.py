"""C03 on the UNCHANGED tree: json: characters outside the BMP come back as
two surrogates.

clause: "returns for every saved cell the same value as the original" (unicode)
"""
import os
import shutil
import tempfile

from openpyxl import Workbook

from pycel import ExcelCompiler

TEXT = 'smile \U0001F600'


def main():
    tmp_dir = tempfile.mkdtemp()
    try:
        wb = Workbook()
        ws = wb.active
        ws.title = 'S'
        ws['A1'] = TEXT
        ws['B1'] = '=LEN(A1)'
        path = os.path.join(tmp_dir, 'w.xlsx')
        wb.save(path)

        model = ExcelCompiler(filename=path)
        expected = model.evaluate(['S!A1', 'S!B1'])
        assert expected == [TEXT, 7], expected

        failed = []
        for file_type in ('yml', 'pkl', 'json'):
            name = os.path.join(tmp_dir, 'saved_as_' + file_type[0])
            model.to_file(name, file_types=(file_type, ))
            loaded = ExcelCompiler.from_file(f'{name}.{file_type}')
            got = loaded.evaluate(['S!A1', 'S!B1'])
            print(file_type, ascii(got))
            if got != expected:
                failed.append(file_type)
        assert not failed, failed
    finally:
        shutil.rmtree(tmp_dir)


if __name__ == '__main__':
    main()
