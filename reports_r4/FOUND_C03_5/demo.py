"""C03 on the UNCHANGED tree: plugin function below a range: the saved model
cannot be loaded (yaml/json) or saved (pickle).

clause: "A model written with to_file and read back with from_file ... returns
for every saved cell the same value as the original"
"""
import os
import shutil
import sys
import tempfile

from openpyxl import Workbook

from pycel import ExcelCompiler

PLUGIN = '''
from pycel.lib.function_helpers import excel_helper


@excel_helper()
def triple(value):
    return value * 3
'''


def main():
    tmp_dir = tempfile.mkdtemp()
    sys.path.insert(0, tmp_dir)
    try:
        with open(os.path.join(tmp_dir, 'c03_demo_plugin.py'), 'w') as f:
            f.write(PLUGIN)
        plugins = ('c03_demo_plugin', )

        wb = Workbook()
        ws = wb.active
        ws.title = 'S'
        ws['C1'] = 5
        ws['A1'] = '=TRIPLE(C1)'
        ws['A2'] = 2
        ws['B1'] = '=SUM(A1:A2)'
        path = os.path.join(tmp_dir, 'w.xlsx')
        wb.save(path)

        model = ExcelCompiler(filename=path, plugins=plugins)
        assert model.evaluate('S!B1') == 17

        failed = []
        for file_type in ('yml', 'json', 'pkl'):
            name = os.path.join(tmp_dir, 'saved_as_' + file_type[0])
            try:
                model.to_file(name, file_types=(file_type, ))
                loaded = ExcelCompiler.from_file(
                    f'{name}.{file_type}', plugins=plugins)
                assert loaded.evaluate('S!B1') == 17
            except Exception as exc:
                print(file_type, type(exc).__name__)
                failed.append(file_type)
        assert not failed, failed
    finally:
        sys.path.remove(tmp_dir)
        shutil.rmtree(tmp_dir)


if __name__ == '__main__':
    main()
