"""FOUND on the unchanged tree (C04): a formula which does not parse, in a sibling cell,
leaves other cells of the same evaluate() call in the cell map without edges.

B1 = A1*2 is a plain formula of the supported grammar.  It reads A1, A1 is its
declared precedent, but dep_graph has no edge A1 -> B1 and set_value(A1) does
not reach B1.
"""
import logging

import openpyxl

from pycel import ExcelCompiler

logging.disable(logging.CRITICAL)


def check(broken):
    wb = openpyxl.Workbook()
    ws = wb.active
    ws['A1'] = 1
    ws['B1'] = '=A1*2'
    ws['C1'] = broken
    ws['D1'] = '=B1+C1'
    ws['E1'] = '=A1+1'
    sp = ExcelCompiler(excel=wb)

    assert sp.evaluate('Sheet!E1') == 2        # A1 is in the cell map now
    try:
        sp.evaluate('Sheet!D1')                # C1 can not be compiled
    except Exception:
        pass
    else:
        raise SystemExit('the demo expects D1 to fail')

    assert sp.evaluate('Sheet!B1') == 2        # B1 evaluates, it has read A1
    a1, b1 = sp.cell_map['Sheet!A1'], sp.cell_map['Sheet!B1']
    assert [a.address for a in b1.formula.needed_addresses] == ['Sheet!A1']
    assert sp.dep_graph.has_edge(a1, b1), (
        f'C1 {broken!r}: B1 = A1*2 was evaluated, dep_graph has no edge A1 -> B1 '
        f'(still queued: {[str(c.address) for c in sp.graph_todos]})')
    sp.set_value('Sheet!A1', 10)
    assert sp.evaluate('Sheet!B1') == 20, 'B1 is stale'


if __name__ == '__main__':
    for broken in ('=A1+', '=SUM(', '=A0', "='a:b'!A1"):
        check(broken)
    print('ok')
