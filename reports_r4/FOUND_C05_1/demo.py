"""FOUND on the unchanged tree, C05: a formula whose result is a reference
(OFFSET / INDIRECT at the top of the formula) reads the stored value of the
cell it refers to instead of evaluating it.

Broken clauses: "the value of a cell does not depend on the order in which
cells were first evaluated" and "repeating evaluate returns the same value".
"""
from openpyxl import Workbook

from pycel import ExcelCompiler


def workbook():
    wb = Workbook()
    ws = wb.active
    ws.title = 'S'
    ws['B1'] = 1
    ws['B2'] = '=B1+1'              # 2
    ws['A1'] = '=OFFSET(B1,1,0)'    # -> B2 -> 2
    ws['C1'] = '=INDIRECT("B2")'    # -> B2 -> 2
    return wb


results = {}
for order in (('S!B2', 'S!A1', 'S!C1'), ('S!A1', 'S!C1', 'S!B2', 'S!A1', 'S!C1'),
              ('S!A1:C1', 'S!B2', 'S!A1', 'S!A1:C1')):
    compiler = ExcelCompiler(excel=workbook())
    results[order] = [compiler.evaluate(a) for a in order]
    print(order, results[order])

problems = []
for order, values in results.items():
    for addr, value in zip(order, values):
        want = {'S!B2': 2, 'S!A1': 2, 'S!C1': 2, 'S!A1:C1': (2, 1, 2)}[addr]
        if value != want:
            problems.append((order, addr, value, want))
assert not problems, problems
