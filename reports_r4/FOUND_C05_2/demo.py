"""FOUND on the unchanged tree, C05: the "used area" an unbounded range (A:A,
1:1) is clipped to is taken from openpyxl when the first unbounded range of a
sheet is built, and openpyxl adds every cell that was read to the sheet.
Reading a blank cell outside the used area BEFORE that moment enlarges the
used area, so values depend on the order of first evaluation.

Broken clause: "the value of a cell does not depend on the order in which
cells were first evaluated or compiled into the model" (and "an unbounded
row/column range clipped to the used area": the clip differs by history).
"""
from openpyxl import Workbook

from pycel import ExcelCompiler


def workbook():
    wb = Workbook()
    ws = wb.active
    ws.title = 'S'
    for row in (1, 2, 3):
        ws.cell(row, 1, row)    # A1:A3 = 1, 2, 3
        ws.cell(row, 2, 1)      # B1:B3 = 1, 1, 1
    ws['C1'] = '=SUMPRODUCT(A:A,B1:B3)'     # 6 (A:A is clipped to A1:A3)
    return wb


results = {}
for order in (('S!C1', 'S!A10', 'S!A:A'), ('S!A10', 'S!C1', 'S!A:A'),
              ('S!A:A', 'S!A10', 'S!C1')):
    compiler = ExcelCompiler(excel=workbook())
    results[order] = [compiler.evaluate(a) for a in order]
    print(order, results[order])

c1 = {order: values[order.index('S!C1')] for order, values in results.items()}
col = {order: values[order.index('S!A:A')] for order, values in results.items()}
assert len(set(map(str, c1.values()))) == 1, c1
assert len(set(col.values())) == 1, col
