"""FOUND on the unchanged tree, C05: an unbounded range which the used area
clips to ONE cell (A:A on a sheet whose data is one row high, 1:1 on a sheet
one column wide) can only be evaluated when that cell was built before.

Broken clause: "the value of a cell does not depend on the order in which
cells were first evaluated or compiled into the model, nor on the access path"
-- A1, A:A and B1 = SUM(A:A) evaluate in one order and die with a
RecursionError in the other.
"""
from openpyxl import Workbook

from pycel import ExcelCompiler


def workbook():
    wb = Workbook()
    ws = wb.active
    ws.title = 'S'
    ws['A1'] = 5
    ws['B1'] = '=SUM(A:A)'      # 5
    ws['C1'] = '=A1+1'          # 6
    return wb


results = {}
for order in (('S!A1', 'S!A:A', 'S!B1'), ('S!C1', 'S!B1', 'S!A:A'),
              ('S!A:A', 'S!A1', 'S!B1'), ('S!B1', 'S!A1', 'S!A:A')):
    compiler = ExcelCompiler(excel=workbook())
    try:
        results[order] = [compiler.evaluate(a) for a in order]
    except RecursionError as exc:
        results[order] = 'RecursionError: %s' % exc
    print(order, results[order])

want = {'S!A1': 5, 'S!A:A': 5, 'S!B1': 5, 'S!C1': 6}
bad = {order: values for order, values in results.items()
       if values != [want[a] for a in order]}
assert not bad, bad
