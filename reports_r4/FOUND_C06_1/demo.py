"""C06 on the UNCHANGED tree -- clause: "if it stops earlier [than the requested
number of passes], no cell changed by more than the tolerance in the last
pass", quantified over "all (iterations, tolerance) pairs".

A1 = COUNTED(0.5*A1 + 1), fixed point 2, start 0 (no stored results): pass n
gives 2 - 2**(1-n), in floats the iteration reaches 2.0 exactly after ~54
passes.  evaluate(A1, iterations=1000, tolerance=0) has to iterate until a
pass changes nothing (or 1000 passes are done).  It stops after 8 passes with
a last change of 0.0078: the tolerance 0 is falsy and is replaced by the
default (0.01, or the workbook's iterateDelta).
"""
import logging
import os
import shutil
import sys
import tempfile
import types

from openpyxl import Workbook

from pycel import ExcelCompiler

logging.disable(logging.CRITICAL)

calls = []
plugin = types.ModuleType('found_c06_1_plugin')
plugin.counted = lambda value: (calls.append(value), value)[1]
sys.modules[plugin.__name__] = plugin


def load():
    tmp = tempfile.mkdtemp()
    try:
        wb = Workbook()
        ws = wb.active
        ws.title = 'Sheet1'
        ws['A1'] = '=COUNTED(0.5*A1+1)'
        path = os.path.join(tmp, 'cycle.xlsx')
        wb.save(path)
        return ExcelCompiler(path, cycles=True, plugins=plugin.__name__)
    finally:
        shutil.rmtree(tmp)


ITERATIONS, TOLERANCE = 1000, 0
result = load().evaluate('Sheet1!A1', iterations=ITERATIONS, tolerance=TOLERANCE)
passes = len(calls)
print(f'result {result!r} after {passes} passes')
assert passes <= ITERATIONS

if passes < ITERATIONS:
    # the value one pass earlier, from a fresh model stopped by the pass limit
    before = load().evaluate('Sheet1!A1', iterations=passes - 1, tolerance=1e-300)
    change = abs(result - before)
    print(f'change in the last pass {change!r}, tolerance {TOLERANCE!r}')
    assert change <= TOLERANCE, (
        f'stopped after {passes} of {ITERATIONS} passes although A1 changed by '
        f'{change} > tolerance {TOLERANCE} in the last pass; result {result} '
        f'instead of the fixed point 2.0')
print('ok')
