"""C06 on the UNCHANGED tree -- clause: "On a workbook without circular
references it returns exactly what non-iterative evaluation returns ... after
any set_value history".

    A1 = 1     B1 = A1*2     C1 = OFFSET(B1,0,0)      (no cycle)

History: evaluate(B1), evaluate(C1), set_value(A1, 5), evaluate(C1).
Non-iterative evaluation answers None for the last step, iterative evaluation
answers 2 (the value B1 had before the set_value).  Neither is the 10 a
spreadsheet shows, but the property compares the two modes and they differ.
"""
import logging
import os
import shutil
import tempfile

from openpyxl import Workbook

from pycel import ExcelCompiler

logging.disable(logging.CRITICAL)


def load(cycles):
    tmp = tempfile.mkdtemp()
    try:
        wb = Workbook()
        ws = wb.active
        ws.title = 'Sheet1'
        ws['A1'] = 1
        ws['B1'] = '=A1*2'
        ws['C1'] = '=OFFSET(B1,0,0)'
        path = os.path.join(tmp, 'reference.xlsx')
        wb.save(path)
        return ExcelCompiler(path, cycles=cycles)
    finally:
        shutil.rmtree(tmp)


def history(model):
    seen = [model.evaluate('Sheet1!B1'), model.evaluate('Sheet1!C1')]
    model.set_value('Sheet1!A1', 5)
    seen.append(model.evaluate('Sheet1!C1'))
    return seen


plain, iterative = history(load(False)), history(load(True))
print('non-iterative:', plain)
print('iterative    :', iterative)
assert plain == iterative, f'{iterative} != {plain}'
print('ok')
