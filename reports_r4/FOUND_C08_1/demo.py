"""C08 on the UNCHANGED tree: an input given as a range which no formula uses
as a range (its cells are referenced one by one) is only warned about
("Address S!D4:E4 not found in cell_map"); its cells are not treated as inputs:
their dependants are frozen and the cells themselves are deleted.
Clause: "all choices of input set (cells or ranges, leaf or buried)" /
"returns for every output, under every assignment of values to the inputs,
exactly what the untrimmed model returns".
"""
import os
import shutil
import tempfile

from openpyxl import Workbook

from pycel import ExcelCompiler


def main():
    tmp = tempfile.mkdtemp()
    try:
        wb = Workbook()
        ws = wb.active
        ws.title = 'S'
        ws['D4'], ws['E4'] = 1, 2
        ws['C1'] = '=D4*2'
        ws['B2'] = '=C1+E4'
        filename = os.path.join(tmp, 'book.xlsx')
        wb.save(filename)

        untrimmed = ExcelCompiler(filename)
        trimmed = ExcelCompiler(filename)
        assert untrimmed.evaluate('S!B2') == trimmed.evaluate('S!B2') == 4

        trimmed.trim_graph(['S!D4:E4'], ['S!B2'])

        for model in (untrimmed, trimmed):
            # (set cell by cell, which is what set_value does with a range
            # and a list; on the trimmed model 'S!D4' is gone from cell_map)
            for addr, value in (('S!D4', 10), ('S!E4', 20)):
                if addr not in model.cell_map:
                    model.evaluate(addr)
                model.set_value(addr, value)
        assert untrimmed.evaluate('S!B2') == 40
        got = trimmed.evaluate('S!B2')
        assert got == 40, f'untrimmed 40, trimmed {got}'
    finally:
        shutil.rmtree(tmp)


if __name__ == '__main__':
    main()
    print('ok')
