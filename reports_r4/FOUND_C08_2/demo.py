"""C08 on the UNCHANGED tree: a cell which is built by trim_graph itself
(step 1, _gen_graph(outputs)) after an input was assigned has no value
(_values_changed: stored results are not trusted), and is frozen to None.
Clause: "returns for every output, under every assignment ... exactly what
the untrimmed model returns; cells that feed the outputs but do not depend on
an input are frozen to the value they had at trim time".
"""
import os
import shutil
import tempfile

from openpyxl import Workbook

from pycel import ExcelCompiler


def main():
    tmp = tempfile.mkdtemp()
    try:
        wb = Workbook()
        ws = wb.active
        ws.title = 'S'
        ws['A1'], ws['A2'] = 1, 5
        ws['A3'] = '=A2*2'          # constant with respect to the input A1
        ws['B1'] = '=A1+1'
        ws['B2'] = '=A1+A3'
        filename = os.path.join(tmp, 'book.xlsx')
        wb.save(filename)

        untrimmed = ExcelCompiler(filename)
        trimmed = ExcelCompiler(filename)
        for model in (untrimmed, trimmed):
            assert model.evaluate('S!B1') == 2      # B2 is not built yet
            model.set_value('S!A1', 3)              # an assignment of the input

        trimmed.trim_graph(['S!A1'], ['S!B1', 'S!B2'])
        assert untrimmed.evaluate(['S!B1', 'S!B2']) == [4, 13]
        got = trimmed.evaluate(['S!B1', 'S!B2'])
        assert got == [4, 13], f'untrimmed [4, 13], trimmed {got}'
    finally:
        shutil.rmtree(tmp)


if __name__ == '__main__':
    main()
    print('ok')
