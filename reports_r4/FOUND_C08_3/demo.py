"""C08 on the UNCHANGED tree: a frozen cell whose value is a text starting with
'=' is written as that text and read back as python code of a formula.
Clause: "after a save/load round trip - returns for every output ... exactly
what the untrimmed model returns; cells ... are frozen to the value they had".
"""
import os
import shutil
import tempfile

from openpyxl import Workbook

from pycel import ExcelCompiler


def main():
    tmp = tempfile.mkdtemp()
    try:
        wb = Workbook()
        ws = wb.active
        ws.title = 'S'
        ws['A1'] = 1
        ws['A2'] = '="="&"1+1"'     # the text =1+1, constant w.r.t. the input
        ws['B1'] = '=A2&A1'
        filename = os.path.join(tmp, 'book.xlsx')
        wb.save(filename)

        untrimmed = ExcelCompiler(filename)
        trimmed = ExcelCompiler(filename)
        assert untrimmed.evaluate('S!B1') == trimmed.evaluate('S!B1') == '=1+11'

        trimmed.trim_graph(['S!A1'], ['S!B1'])
        assert trimmed.evaluate('S!B1') == '=1+11'
        saved = os.path.join(tmp, 'trimmed.yml')
        trimmed.to_file(saved)
        loaded = ExcelCompiler.from_file(saved)
        got = loaded.evaluate('S!B1')
        assert got == '=1+11', f"untrimmed '=1+11', trimmed and loaded {got!r}"
    finally:
        shutil.rmtree(tmp)


if __name__ == '__main__':
    main()
    print('ok')
