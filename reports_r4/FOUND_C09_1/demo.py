"""FOUND_C09_1 (unchanged tree): overwriting the failing formula cell with a
constant does not repair the model

Property C09: "... once the failing cell is overwritten with a constant its
dependants evaluate as in a fresh model.  This holds in plain and iterative
mode ..."

set_value() stores the constant in the cell but keeps the formula of the cell
(and, in plain mode, its edges in the dependency graph):

* iterative mode: every evaluate() recalculates every formula cell, so the
  failing formula runs again at once and the dependants keep failing;
* plain mode: the constant survives only until a precedent of the overwritten
  cell is set: _reset() then clears the "constant" and the next evaluate()
  runs the failing formula again.

Exit status 0 only if both modes behave like a fresh model in which C1 is the
constant.
"""
import logging
import os
import shutil
import sys
import tempfile
import types

import openpyxl

from pycel import ExcelCompiler
from pycel.lib.function_helpers import excel_helper

logging.disable(logging.CRITICAL)


@excel_helper()
def flaky(x):
    if x > 100:
        raise RuntimeError('flaky() does not like large numbers')
    return x * 2


def workbook(tmp, name, c1):
    wb = openpyxl.Workbook()
    ws = wb.active
    ws['D1'] = 500
    ws['C1'] = c1
    ws['B1'] = '=C1+1'
    ws['A1'] = '=B1*2'
    filename = os.path.join(tmp, name)
    wb.save(filename)
    return filename


def main():
    module = types.ModuleType('plugin_found_c09_1')
    module.flaky = flaky
    sys.modules['plugin_found_c09_1'] = module
    tmp = tempfile.mkdtemp()
    problems = []
    try:
        failing = workbook(tmp, 'failing.xlsx', '=FLAKY(D1)')
        fresh = workbook(tmp, 'fresh.xlsx', 7)
        for cycles in (False, True):
            expected = ExcelCompiler(fresh, cycles=cycles)
            assert expected.evaluate('Sheet!A1') == 16
            assert expected.evaluate('Sheet!D1') == 500

            compiler = ExcelCompiler(
                failing, plugins='plugin_found_c09_1', cycles=cycles)
            try:
                compiler.evaluate('Sheet!A1')
                raise AssertionError('expected a failure')
            except Exception as exc:
                assert type(exc).__name__ == 'FormulaEvalError', exc

            compiler.set_value('Sheet!C1', 7)       # the repair
            for step in ('after the repair', 'after set_value(D1)'):
                if step == 'after set_value(D1)':
                    compiler.set_value('Sheet!D1', 600)
                    expected.set_value('Sheet!D1', 600)
                want = expected.evaluate('Sheet!A1')
                try:
                    got = compiler.evaluate('Sheet!A1')
                except Exception as exc:
                    got = f'raises {type(exc).__name__}'
                print(f'cycles={cycles} {step}: A1 {got!r}, fresh model {want!r}')
                if got != want:
                    problems.append((cycles, step, got, want))
    finally:
        sys.modules.pop('plugin_found_c09_1', None)
        shutil.rmtree(tmp)
    assert not problems, problems


if __name__ == '__main__':
    main()
