"""FOUND_C09_2 (unchanged tree): a failure inside validate_calcs() leaves the
dependants of the failing cell with stale values

Property C09: "When evaluating a cell raises (... error inside a library or
plugin function) ... never a stale value ..."

validate_calcs() evaluates a cell with `cell.value = None; self.evaluate(addr)`.
When that evaluation raises (the exception is collected in the result dict),
the cell stays at None while the cells depending on it keep the values
calculated from its old value.  _reset() takes a cell without a value for
"already reset" and stops there, so the next set_value() of a precedent does
not reach the dependants: they answer with the stale value.
"""
import logging
import os
import shutil
import sys
import tempfile
import types

import openpyxl

from pycel import ExcelCompiler
from pycel.lib.function_helpers import excel_helper

logging.disable(logging.CRITICAL)

STATE = {'fail': False}


@excel_helper()
def flaky(x):
    if STATE['fail']:
        raise RuntimeError('flaky() fails this time')
    return x * 10


def main():
    module = types.ModuleType('plugin_found_c09_2')
    module.flaky = flaky
    sys.modules['plugin_found_c09_2'] = module
    tmp = tempfile.mkdtemp()
    try:
        wb = openpyxl.Workbook()
        ws = wb.active
        ws['D1'] = 3
        ws['C1'] = '=FLAKY(D1)'
        ws['B1'] = '=C1+1'
        filename = os.path.join(tmp, 'validate.xlsx')
        wb.save(filename)

        compiler = ExcelCompiler(filename, plugins='plugin_found_c09_2')
        assert compiler.evaluate('Sheet!B1') == 31
        compiler.set_value('Sheet!D1', 4)
        assert compiler.evaluate('Sheet!B1') == 41

        STATE['fail'] = True            # the plugin fails (say on its k-th call)
        failed = compiler.validate_calcs('Sheet!C1')
        assert 'exceptions' in failed, failed
        STATE['fail'] = False

        compiler.set_value('Sheet!D1', 7)
        b1 = compiler.evaluate('Sheet!B1')
        c1 = compiler.evaluate('Sheet!C1')
        print(f'D1=7: C1 {c1!r} (70 expected), B1 {b1!r} (71 expected)')
        assert c1 == 70
        assert b1 == 71, f'B1 is the stale {b1!r}'
    finally:
        sys.modules.pop('plugin_found_c09_2', None)
        shutil.rmtree(tmp)


if __name__ == '__main__':
    main()
