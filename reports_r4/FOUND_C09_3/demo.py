"""FOUND_C09_3 (unchanged tree): a cell which reaches the failing cell through
a computed reference evaluates to None instead of failing

Property C09: "When evaluating a cell raises (unknown function ...), retrying
it or a dependant fails again with one of pycel's own errors (never a stale
value ...)"

B1 =OFFSET(A1,1,0) and B2 =INDIRECT("A2") are the value of A2.  A2 uses an
unknown function: evaluate(A2) raises UnknownFunction, but evaluate(B1) and
evaluate(B2) return None.  (The same happens when A2 is a formula which simply
has not been calculated yet: the value is None instead of the result.)
"""
import logging
import os
import shutil
import tempfile

import openpyxl

from pycel import ExcelCompiler
from pycel.excelutil import PyCelException

logging.disable(logging.CRITICAL)


def main():
    tmp = tempfile.mkdtemp()
    problems = []
    try:
        wb = openpyxl.Workbook()
        ws = wb.active
        ws['A1'] = 1
        ws['A2'] = '=NOSUCHFUNCTION(A1)'
        ws['A3'] = '=A1+41'
        ws['B1'] = '=OFFSET(A1,1,0)'
        ws['B2'] = '=INDIRECT("A2")'
        ws['B3'] = '=OFFSET(A1,2,0)'
        filename = os.path.join(tmp, 'dynamic.xlsx')
        wb.save(filename)

        for cycles in (False, True):
            compiler = ExcelCompiler(filename, cycles=cycles)
            for address in ('Sheet!B1', 'Sheet!B2', 'Sheet!A2', 'Sheet!B1'):
                try:
                    value = compiler.evaluate(address)
                    print(f'cycles={cycles} {address}: {value!r}')
                    problems.append((cycles, address, value))
                except PyCelException as exc:
                    print(f'cycles={cycles} {address}: {type(exc).__name__}')
            # not a failure at all: a reference to a not yet calculated formula
            value = compiler.evaluate('Sheet!B3')
            print(f'cycles={cycles} Sheet!B3: {value!r} (42 expected)')
            if value != 42:
                problems.append((cycles, 'Sheet!B3', value))
    finally:
        shutil.rmtree(tmp)
    assert not problems, problems


if __name__ == '__main__':
    main()
