"""FOUND_C10_1 (unchanged tree): text which spells a logical is a number for
the arithmetic operators; text which spells an error code is an error value

Property C10: "Arithmetic treats numeric text, logicals and blanks as numbers
and other text as #VALUE! ... & concatenates the Excel renderings ...; an error
operand is returned unchanged" - "TRUE" / "false" are text, not logicals and not
numeric text (Excel: ="TRUE"+1 and =--"TRUE" are #VALUE!), and the text "#N/A"
is a text (Excel: ="#N/A"&"x" is #N/Ax, ="#N/A"="#N/A" is TRUE).
"""
import logging

import openpyxl

from pycel import ExcelCompiler

logging.disable(logging.CRITICAL)

CASES = (
    ('="TRUE"+1', '#VALUE!'),
    ('="false"*5', '#VALUE!'),
    ('=-"true"', '#VALUE!'),
    ('=A1+1', '#VALUE!'),           # A1 holds the text TRUE
    ('=TRUE+1', 2),                 # control: the logical
    ('="abc"+1', '#VALUE!'),        # control: other text
    ('="#N/A"&"x"', '#N/Ax'),
    ('=A2&"x"', '#N/Ax'),           # A2 holds the text #N/A
    ('=A2=A2', True),
)


def main():
    wb = openpyxl.Workbook()
    ws = wb.active
    ws['A1'] = 'TRUE'
    ws['A1'].data_type = 's'
    ws['A2'] = '#N/A'
    ws['A2'].data_type = 's'
    for row, (formula, _) in enumerate(CASES, start=1):
        ws[f'C{row}'] = formula
    compiler = ExcelCompiler(excel=wb)
    problems = []
    for row, (formula, expected) in enumerate(CASES, start=1):
        value = compiler.evaluate(f'Sheet!C{row}')
        print(f'{formula:14} -> {value!r}   (expected {expected!r})')
        if value != expected or isinstance(value, bool) != isinstance(expected, bool):
            problems.append((formula, value, expected))
    assert not problems, problems


if __name__ == '__main__':
    main()
