"""C11 on the UNCHANGED tree: union / intersection are not idempotent on
unbounded ranges (whole columns / rows).

Clause: "intersection yields exactly the common cells ..., union the minimal
bounding rectangle, both commutative, associative and idempotent".
"""
from pycel.excelutil import AddressRange

bad = []
for text in ('A:A', 's!B:D', '1:1', 's!2:4'):
    a = AddressRange(text)
    for name, result in (('&', a & a), ('**', a ** a)):
        if result != a:
            bad.append(f'{text} {name} {text} == {result}')
assert not bad, bad
print('ok')
