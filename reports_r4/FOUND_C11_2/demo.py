"""C11 on the UNCHANGED tree: intersection is not associative once the
operands live on different sheets -- which error value comes out depends on
the bracketing.

Clause: "intersection yields exactly the common cells (or #NULL!) ... both
commutative, associative and idempotent".
"""
from pycel.excelutil import AddressRange

x, y, z = (AddressRange(t) for t in ('s!A1:B2', 's!D4:E5', 't!A1:B2'))
left, right = (x & y) & z, x & (y & z)
assert left == right, f'(x & y) & z == {left}   x & (y & z) == {right}'
print('ok')
