"""C12 on the UNCHANGED tree: "If the stored result of one formula cell
reachable from the checked outputs is altered ..., the report names that cell
as a mismatch".  A stored TEXT result which is altered to the empty text ""
(what Excel stores for =IF(x,"","...") and friends) is read back as None
("no stored result") and validate_calcs skips the comparison: empty report.
"""
import logging
import os
import re
import shutil
import tempfile
import zipfile

from openpyxl import Workbook

from pycel import ExcelCompiler

CELLS = {'A1': 2, 'B1': '=IF(A1>1,"big","")', 'C1': '=B1&"!"',
         'B2': '=IF(A1>5,"big","")', 'C2': '=B2&"!"'}
STORED = {'B1': 'big', 'C1': 'big!', 'B2': '', 'C2': '!'}


def write_workbook(path, cells, stored):
    """a workbook as Excel saves it: formulas with their stored results"""
    wb = Workbook()
    ws = wb.active
    ws.title = 'S'
    for coord, value in cells.items():
        ws[coord] = value
    wb.save(path)

    with zipfile.ZipFile(path) as zin:
        parts = {item.filename: zin.read(item.filename)
                 for item in zin.infolist()}
    with zipfile.ZipFile(path, 'w', zipfile.ZIP_DEFLATED) as zout:
        for name, data in parts.items():
            if name == 'xl/worksheets/sheet1.xml':
                text = data.decode('utf8')
                for coord, value in stored.items():
                    if isinstance(value, bool):
                        kind, body = ' t="b"', str(int(value))
                    elif isinstance(value, str):
                        kind, body = ' t="str"', value
                    else:
                        kind, body = '', repr(value)
                    text, n = re.subn(
                        r'<c r="%s"[^>]*><f>(.*?)</f><v\s*/?>(</v>)?</c>' % coord,
                        lambda m: '<c r="%s"%s><f>%s</f><v>%s</v></c>' % (
                            coord, kind, m.group(1), body), text)
                    assert n == 1, (coord, text)
                data = text.encode('utf8')
            zout.writestr(name, data)


def main():
    logging.disable(logging.CRITICAL)
    tmp = tempfile.mkdtemp()
    try:
        path = os.path.join(tmp, 'a.xlsx')
        write_workbook(path, CELLS, STORED)
        assert ExcelCompiler(path).validate_calcs() == {}

        # "" altered to "big": reported
        write_workbook(path, CELLS, dict(STORED, B2='big'))
        failed = ExcelCompiler(path).validate_calcs(output_addrs=['S!C2'])
        assert 'S!B2' in failed.get('mismatch', {}), failed

        # "big" altered to "": must be reported as well
        write_workbook(path, CELLS, dict(STORED, B1=''))
        for kwargs in ({'output_addrs': ['S!C1']}, {'output_addrs': ['S!B1']}, {}):
            failed = ExcelCompiler(path).validate_calcs(**kwargs)
            assert 'S!B1' in failed.get('mismatch', {}), (
                f'stored result of S!B1 altered from "big" to "": '
                f'validate_calcs({kwargs}) = {failed}')
    finally:
        shutil.rmtree(tmp)


if __name__ == '__main__':
    main()
