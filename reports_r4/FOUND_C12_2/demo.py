"""C12 on the UNCHANGED tree: "If the stored result of one formula cell ...
is altered ..., the report names that cell as a mismatch" (quantified over
number, text, LOGICAL and error stored results).  A stored logical which is
altered to the number 1/0 -- or a stored number 1/0 altered to TRUE/FALSE --
is not reported: _CellBase.close_enough treats python bools as Numbers
(True == 1).  For Excel TRUE and 1 are different values (=TRUE=1 is FALSE).
"""
import logging
import os
import re
import shutil
import tempfile
import zipfile

from openpyxl import Workbook

from pycel import ExcelCompiler

CELLS = {'A1': 2, 'B1': '=A1>1', 'C1': '=IF(B1=TRUE,"yes","no")',
         'B2': '=A1-1', 'C2': '=IF(B2=1,"one","other")',
         'B3': '=A1<1', 'B4': '=A1-2'}
STORED = {'B1': True, 'C1': 'yes', 'B2': 1, 'C2': 'one', 'B3': False, 'B4': 0}


def write_workbook(path, cells, stored):
    """a workbook as Excel saves it: formulas with their stored results"""
    wb = Workbook()
    ws = wb.active
    ws.title = 'S'
    for coord, value in cells.items():
        ws[coord] = value
    wb.save(path)

    with zipfile.ZipFile(path) as zin:
        parts = {item.filename: zin.read(item.filename)
                 for item in zin.infolist()}
    with zipfile.ZipFile(path, 'w', zipfile.ZIP_DEFLATED) as zout:
        for name, data in parts.items():
            if name == 'xl/worksheets/sheet1.xml':
                text = data.decode('utf8')
                for coord, value in stored.items():
                    if isinstance(value, bool):
                        kind, body = ' t="b"', str(int(value))
                    elif isinstance(value, str):
                        kind, body = ' t="str"', value
                    else:
                        kind, body = '', repr(value)
                    text, n = re.subn(
                        r'<c r="%s"[^>]*><f>(.*?)</f><v\s*/?>(</v>)?</c>' % coord,
                        lambda m: '<c r="%s"%s><f>%s</f><v>%s</v></c>' % (
                            coord, kind, m.group(1), body), text)
                    assert n == 1, (coord, text)
                data = text.encode('utf8')
            zout.writestr(name, data)


def main():
    logging.disable(logging.CRITICAL)
    tmp = tempfile.mkdtemp()
    try:
        path = os.path.join(tmp, 'a.xlsx')
        write_workbook(path, CELLS, STORED)
        assert ExcelCompiler(path).validate_calcs() == {}

        # TRUE altered to FALSE, 1 altered to 2: reported
        for coord, value in (('B1', False), ('B2', 2)):
            write_workbook(path, CELLS, dict(STORED, **{coord: value}))
            failed = ExcelCompiler(path).validate_calcs()
            assert f'S!{coord}' in failed.get('mismatch', {}), failed

        wrong = []
        for coord, value in (('B1', 1), ('B2', True), ('B3', 0), ('B4', False)):
            write_workbook(path, CELLS, dict(STORED, **{coord: value}))
            failed = ExcelCompiler(path).validate_calcs()
            if f'S!{coord}' not in failed.get('mismatch', {}):
                wrong.append(f'stored result of S!{coord} altered from '
                             f'{STORED[coord]!r} to {value!r}: {failed}')
        assert not wrong, '\n' + '\n'.join(wrong)
    finally:
        shutil.rmtree(tmp)


if __name__ == '__main__':
    main()
