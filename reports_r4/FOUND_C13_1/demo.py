"""C13 on the UNCHANGED tree: an array formula entered into ONE cell is not
evaluated as an array formula.

clause: "an array-aware function applied to ... arrays and scalars yield[s] at
every position the value of the scalar application to the elements at that
position" - here for the target range of one cell.
"""
import os
import shutil
import tempfile

from openpyxl import Workbook
from openpyxl.worksheet.formula import ArrayFormula

from pycel import ExcelCompiler


def main():
    tmp_dir = tempfile.mkdtemp()
    try:
        wb = Workbook()
        ws = wb.active
        ws.title = 'S'
        ws['D1'] = 1
        ws['D2'] = '=1/0'
        ws['D3'] = 3
        # {=SUM(IFERROR(D1:D3,0))} entered with ctrl-shift-enter into A1: 4 in Excel
        ws['A1'] = ArrayFormula('A1', '=SUM(IFERROR(D1:D3,0))')
        # the same array formula over three cells, and its scalar applications
        ws['B1'] = ArrayFormula('B1:B3', '=IFERROR(D1:D3,0)')
        for row in range(1, 4):
            ws.cell(row=row, column=3).value = f'=IFERROR(D{row},0)'
        ws['C4'] = '=SUM(C1:C3)'
        path = os.path.join(tmp_dir, 'w.xlsx')
        wb.save(path)

        model = ExcelCompiler(filename=path)
        assert model.evaluate('S!C1:C3') == (1, 0, 3)
        assert model.evaluate('S!B1:B3') == (1, 0, 3)
        assert model.evaluate('S!C4') == 4
        got = model.evaluate('S!A1')
        print('A1', got)
        assert got == 4, got
    finally:
        shutil.rmtree(tmp_dir)


if __name__ == '__main__':
    main()
