"""C18 on the UNCHANGED tree -- clause: "anything outside the range or alphabet
yields #NUM!/#VALUE! rather than a value or an exception".

Numbers far outside the ten digit range raise instead of giving #NUM!:
numeric text which overflows a float ("1e400"), an infinite number (what
such text, or 1e308*10 computed by another library function, turns into), a
NaN, and the same for the places argument.
"""
import logging
import os
import shutil
import tempfile

from openpyxl import Workbook

from pycel import ExcelCompiler
from pycel.lib import engineering as eng

logging.disable(logging.CRITICAL)

INF = float('inf')
CASES = [
    ('DEC2BIN("1e400")', eng.dec2bin, ('1e400',)),
    ('DEC2OCT(inf)', eng.dec2oct, (INF,)),
    ('DEC2HEX(-inf)', eng.dec2hex, (-INF,)),
    ('DEC2HEX(nan)', eng.dec2hex, (float('nan'),)),
    ('DEC2BIN(5, "1e400")', eng.dec2bin, (5, '1e400')),
    ('BIN2DEC(inf)', eng.bin2dec, (INF,)),
    ('HEX2OCT(inf)', eng.hex2oct, (INF,)),
    ('DEC2BIN(1e300)', eng.dec2bin, (1e300,)),      # control: #NUM!
    ('BIN2DEC(1e300)', eng.bin2dec, (1e300,)),      # control: #NUM!
]
raised = []
for name, func, args in CASES:
    try:
        result = func(*args)
    except Exception as exc:
        result = f'raises {type(exc).__name__}: {exc}'
        raised.append(name)
    print(f'{name:22} -> {result}')
    assert isinstance(result, str), (name, result)

# through a workbook
tmp = tempfile.mkdtemp()
try:
    wb = Workbook()
    ws = wb.active
    ws.title = 'Sheet1'
    ws['A1'] = '=DEC2BIN("1e400")'
    path = os.path.join(tmp, 'radix.xlsx')
    wb.save(path)
    model = ExcelCompiler(path)
    try:
        cell = model.evaluate('Sheet1!A1')
    except Exception as exc:
        cell = f'raises {type(exc).__name__}'
        raised.append('evaluate(=DEC2BIN("1e400"))')
finally:
    shutil.rmtree(tmp)
print('workbook A1 ->', cell)

assert not raised, f'exceptions instead of error values: {raised}'
print('ok')
