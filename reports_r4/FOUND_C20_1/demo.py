"""C20 on the UNCHANGED tree: "The slicing functions treat numbers as their
Excel rendering (3, not 3.0)".  A number below 1e-4 (k/10^j with j >= 5) is
sliced as python's str(): '1e-05', Excel slices 0.00001.
"""
import os
import shutil
import tempfile

from openpyxl import Workbook

from pycel import ExcelCompiler


def main():
    tmp = tempfile.mkdtemp()
    try:
        wb = Workbook()
        ws = wb.active
        ws.title = 'S'
        ws['A1'] = 1 / 10 ** 5
        ws['B1'] = '=LEFT(A1,4)'
        ws['B2'] = '=MID(A1,3,5)'
        ws['B3'] = '=RIGHT(A1,2)'
        ws['B4'] = '=LEFT(A1,3)&MID(A1,4,LEN(A1))'
        ws['B5'] = '=REPLACE(A1,1,2,"x")'
        filename = os.path.join(tmp, 'book.xlsx')
        wb.save(filename)

        model = ExcelCompiler(filename)
        got = model.evaluate(['S!B1', 'S!B2', 'S!B3', 'S!B4', 'S!B5'])
        want = ['0.00', '00001', '01', '0.00001', 'x00001']
        assert got == want, f'Excel {want}, pycel {got}'
    finally:
        shutil.rmtree(tmp)


if __name__ == '__main__':
    main()
    print('ok')
