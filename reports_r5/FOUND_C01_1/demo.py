"""Unchanged library: stale dependants of an unbounded range which resolves
to one single, blank cell.

    A1 (blank input)   B1 = 3
    C1 = SUM(A:A)      the sheet has one row: A:A resolves to the cell A1
    D1 = C1+1

History: evaluate(D1) -> 1;  set_value(A1, 5);  evaluate(D1), evaluate(C1)
A from-scratch compile with A1 = 5 gives C1 = 5, D1 = 6.
"""
import sys

from openpyxl import Workbook

from pycel import ExcelCompiler


def make_workbook(a1):
    wb = Workbook()
    ws = wb.active
    ws.title = 'S'
    if a1 is not None:
        ws['A1'] = a1
    ws['B1'] = 3
    ws['C1'] = '=SUM(A:A)'
    ws['D1'] = '=C1+1'
    return wb


def main():
    model = ExcelCompiler(excel=make_workbook(None))
    first = model.evaluate('S!D1')
    if first != 1:
        print(f'unexpected: D1 evaluates to {first!r} with a blank A1')
        return 2
    model.set_value('S!A1', 5)
    got = {a: model.evaluate(a) for a in ('S!D1', 'S!C1')}

    scratch = ExcelCompiler(excel=make_workbook(5))
    expected = {a: scratch.evaluate(a) for a in ('S!D1', 'S!C1')}

    failed = 0
    for addr in got:
        if got[addr] != expected[addr]:
            failed = 1
            print(f'STALE {addr}: evaluates to {got[addr]!r} after '
                  f'set_value(A1, 5), from scratch compile gives '
                  f'{expected[addr]!r}')
    if failed:
        ref = model.cell_map['S!A:A']
        print(f'the reference node S!A:A holds value={ref.value!r}, '
              f'value_unknown={ref.value_unknown!r}: _reset() did not walk '
              f'through it')
    else:
        print('ok', got)
    return failed


if __name__ == '__main__':
    sys.exit(main())
