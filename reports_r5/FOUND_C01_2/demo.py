"""Unchanged library: after an evaluate() which raised while the graph was
built, ranges built by that call were never evaluated; _reset() does not walk
through them and cells which hold results stored in the .xlsx stay stale.

    A1 = 1, A2 = 2, A3 = 3     inputs
    D1 = SUM(A1:A3)            stored result 6
    F1 = SUM(S:U!A1)           stored result 1   (3-D reference: pycel can not compile it)
    E1 = D1+F1                 stored result 7

History: evaluate(E1) raises;  set_value(A1, 10);  evaluate(D1)
A from-scratch compile with A1 = 10 gives D1 = 15.
"""
import os
import re
import sys
import tempfile
import zipfile

from openpyxl import Workbook

from pycel import ExcelCompiler


def make_workbook(a1):
    wb = Workbook()
    ws = wb.active
    ws.title = 'S'
    wb.create_sheet('T')
    wb.create_sheet('U')
    ws['A1'] = a1
    ws['A2'] = 2
    ws['A3'] = 3
    ws['D1'] = '=SUM(A1:A3)'
    ws['F1'] = '=SUM(S:U!A1)'
    ws['E1'] = '=D1+F1'
    return wb


def store_results(path, results):
    """put the results Excel would have stored into an xlsx of openpyxl"""
    tmp = path + '.tmp'
    with zipfile.ZipFile(path) as zin, \
            zipfile.ZipFile(tmp, 'w', zipfile.ZIP_DEFLATED) as zout:
        for item in zin.infolist():
            data = zin.read(item.filename)
            if item.filename == 'xl/worksheets/sheet1.xml':
                xml = data.decode()
                for coord, value in results.items():
                    m = re.search(
                        r'<c r="%s"><f>(.*?)</f><v */>(?:</v>)?</c>' % coord, xml)
                    assert m, f'formula cell {coord} not found'
                    xml = (xml[:m.start()] +
                           f'<c r="{coord}"><f>{m.group(1)}</f>'
                           f'<v>{value!r}</v></c>' + xml[m.end():])
                data = xml.encode()
            zout.writestr(item, data)
    os.replace(tmp, path)


def main():
    with tempfile.TemporaryDirectory() as tmp:
        path = os.path.join(tmp, 'stored.xlsx')
        make_workbook(1).save(path)
        store_results(path, {'D1': 6, 'F1': 1, 'E1': 7})

        model = ExcelCompiler(filename=path)
        try:
            model.evaluate('S!E1')
            print('unexpected: evaluate(E1) did not raise')
            return 2
        except NotImplementedError as exc:
            print(f'evaluate(E1) raised as expected: {exc}')

        model.set_value('S!A1', 10)
        got = model.evaluate('S!D1')

    expected = ExcelCompiler(excel=make_workbook(10)).evaluate('S!D1')
    if got != expected:
        rng = model.cell_map['S!A1:A3']
        print(f'STALE S!D1: evaluates to {got!r} after set_value(A1, 10), '
              f'from scratch compile gives {expected!r}; the range node '
              f'S!A1:A3 was left with value={rng.value!r} by the failed build')
        return 1
    print('ok', got)
    return 0


if __name__ == '__main__':
    sys.exit(main())
