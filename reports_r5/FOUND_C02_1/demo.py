"""C02, unchanged library: an operator applied to the result of a function which
returns a reference (INDIRECT, OFFSET) does not work on the value of the cell.

B1 holds 5.  Excel: =INDIRECT("B1")*2 is 10, =OFFSET(A1,0,1)+1 is 6,
=-INDIRECT("B1") is -5, =INDIRECT("B1")% is 0.05, =INDIRECT("B1")&"!" is "5!",
=INDIRECT("B1")=5 is TRUE.
"""
import logging
import sys

from openpyxl import Workbook

from pycel import ExcelCompiler

logging.disable(logging.CRITICAL)

EXPECTED = [
    ('=INDIRECT("B1")', 5),          # alone it works
    ('=(B1)*2', 10),
    ('=INDIRECT("B1")*2', 10),
    ('=OFFSET(A1,0,1)+1', 6),
    ('=-INDIRECT("B1")', -5),
    ('=INDIRECT("B1")%', 0.05),
    ('=INDIRECT("B1")&"!"', '5!'),
    ('=INDIRECT("B1")=5', True),
    ('=2^OFFSET(A1,0,1)', 32),
]


def main():
    wb = Workbook()
    ws = wb.active
    ws.title = 'Sheet1'
    ws['A1'], ws['B1'] = 1, 5
    for row, (formula, expected) in enumerate(EXPECTED, start=3):
        ws.cell(row=row, column=4).value = formula
    compiler = ExcelCompiler(excel=wb)
    problems = []
    for row, (formula, expected) in enumerate(EXPECTED, start=3):
        try:
            result = compiler.evaluate(f'Sheet1!D{row}')
        except Exception as exc:
            result = exc
        if type(result) is not type(expected) and not (
                isinstance(result, (int, float)) and
                isinstance(expected, (int, float)) and
                not isinstance(result, bool)) or result != expected:
            code = compiler.cell_map[f'Sheet1!D{row}'].formula.python_code
            problems.append(f'{formula} (compiled to {code}) evaluates to '
                            f'{result!r}, Excel: {expected!r}')
    for p in problems:
        print('VIOLATION:', p)
    return 1 if problems else 0


if __name__ == '__main__':
    sys.exit(main())
