"""C02, unchanged library: a formula with a chain of 202 or more binary operators
does not compile ("too many nested parentheses").

=1+1+...+1 with 201 terms evaluates to 201, with 202 terms it fails, so does
=B1+B2+B1+B2+... in a cell, or a chain of & or * (Excel accepts formulas of up
to 8192 characters, a sum of a few hundred cells written with + is legal).
"""
import logging
import sys

from openpyxl import Workbook

from pycel import ExcelCompiler
from pycel.excelformula import ExcelFormula

logging.disable(logging.CRITICAL)


def main():
    problems = []
    eval_ctx = ExcelFormula.build_eval_context(lambda a: 0, lambda a: ((0, ), ))
    for terms in (50, 201, 202, 250, 1000):
        for op, expected in (('+', terms), ('*', 1), ('&', '1' * terms)):
            formula = '=' + op.join(['1'] * terms)
            try:
                result = eval_ctx(ExcelFormula(formula))
            except Exception as exc:
                result = f'{type(exc).__name__}: {str(exc)[-90:]}'
            if result != expected:
                problems.append(f'=1{op}1{op}...{op}1 ({terms} terms) gives '
                                f'{result!r}, Excel: {str(expected)[:20]!r}')

    wb = Workbook()
    ws = wb.active
    ws.title = 'Sheet1'
    ws['B1'], ws['B2'] = 5, 6
    ws['A1'] = '=' + '+'.join(f'B{1 + i % 2}' for i in range(250))
    try:
        result = ExcelCompiler(excel=wb).evaluate('Sheet1!A1')
    except Exception as exc:
        result = f'{type(exc).__name__}: {str(exc)[-90:]}'
    if result != 125 * 11:
        problems.append(f'cell =B1+B2+B1+B2+... (250 terms) gives {result!r}, '
                        f'Excel: {125 * 11}')

    for p in problems:
        print('VIOLATION:', p)
    return 1 if problems else 0


if __name__ == '__main__':
    sys.exit(main())
