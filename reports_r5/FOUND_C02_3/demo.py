"""C02, unchanged library: a reference to a sheet whose name holds a $ or a "
is not translated to a read of that cell.

Sheet names may hold $ and " (forbidden are only \\ / ? * [ ] :).
"""
import logging
import sys

from openpyxl import Workbook

from pycel import ExcelCompiler

logging.disable(logging.CRITICAL)


def main():
    wb = Workbook()
    ws = wb.active
    ws.title = 'Main'
    wb.create_sheet('Cost$')['A1'] = 11
    wb.create_sheet('a"b')['A1'] = 22
    wb.create_sheet('US$ (2)')['A1'] = 33
    wb.create_sheet('Plain Name')['A1'] = 44
    formulas = [
        ("='Plain Name'!A1+1", 45),
        ("='Plain Name'!$A$1+1", 45),
        ("='Cost$'!A1+1", 12),
        ("='Cost$'!$A$1+1", 12),
        ("='a\"b'!A1+1", 23),
        ("='US$ (2)'!A1+1", 34),
    ]
    for row, (formula, expected) in enumerate(formulas, start=1):
        ws.cell(row=row, column=1).value = formula
    problems = []
    for row, (formula, expected) in enumerate(formulas, start=1):
        try:
            result = ExcelCompiler(excel=wb).evaluate(f'Main!A{row}')
        except Exception as exc:
            result = f'{type(exc).__name__}: {str(exc)[-80:]}'
        if result != expected:
            problems.append(f'{formula} gives {result!r}, Excel: {expected}')
    for p in problems:
        print('VIOLATION:', p)
    return 1 if problems else 0


if __name__ == '__main__':
    sys.exit(main())
