"""C02, unchanged library: the code emitted for OFFSET( is cut at the first ")"
of its first argument.

=OFFSET('Sheet (2)'!A1,1,1) and =OFFSET(INDEX(B1:C2,1,1),1,1) do not compile.
"""
import logging
import sys

from openpyxl import Workbook

from pycel import ExcelCompiler

logging.disable(logging.CRITICAL)


def main():
    wb = Workbook()
    ws = wb.active
    ws.title = 'Main'
    other = wb.create_sheet('Sheet (2)')
    other['A1'], other['B2'] = 33, 44
    ws['B1'], ws['C1'], ws['B2'], ws['C2'] = 5, 7, 6, 8
    formulas = [
        ("=OFFSET(B1,1,1)", 8),
        ("='Sheet (2)'!B2", 44),
        ("=OFFSET('Sheet (2)'!A1,1,1)", 44),
        ("=OFFSET(INDEX(B1:C2,1,1),1,1)", 8),
    ]
    for row, (formula, expected) in enumerate(formulas, start=5):
        ws.cell(row=row, column=1).value = formula
    problems = []
    for row, (formula, expected) in enumerate(formulas, start=5):
        try:
            result = ExcelCompiler(excel=wb).evaluate(f'Main!A{row}')
        except Exception as exc:
            result = f'{type(exc).__name__}: {str(exc)[-110:]}'
        if result != expected:
            problems.append(f'{formula} gives {result!r}, Excel: {expected}')
    for p in problems:
        print('VIOLATION:', p)
    return 1 if problems else 0


if __name__ == '__main__':
    sys.exit(main())
