"""C02, unchanged library: * + - on numbers beyond the range of Excel numbers.

Excel: =1E308*10, =1E308+1E308, =1E200*1E200 are #NUM! (as =10^400 is, which the
library gets right), and so is every formula these are an operand of.
"""
import logging
import sys

from pycel.excelformula import ExcelFormula

logging.disable(logging.CRITICAL)

NUM = '#NUM!'
EXPECTED = [
    ('=10^400', NUM),
    ('=1E308*10', NUM),
    ('=1E308+1E308', NUM),
    ('=1E200*1E200', NUM),
    ('=-1E308-1E308', NUM),
    ('=1E308*10+1', NUM),
    ('=1E308*10/10', NUM),
    ('=1E308*10>1', NUM),
    ('=(1E308*10)&""', NUM),
]


def main():
    problems = []
    eval_ctx = ExcelFormula.build_eval_context(lambda a: 0, lambda a: ((0, ), ))
    for formula, expected in EXPECTED:
        try:
            result = eval_ctx(ExcelFormula(formula))
        except Exception as exc:
            result = f'{type(exc).__name__}: {str(exc)[-60:]}'
        if result != expected or type(result) is not str:
            text = repr(result)
            if len(text) > 90:
                text = f'{text[:30]}...{text[-30:]} ({len(text)} characters)'
            problems.append(f'{formula} gives {text}, Excel: {expected}')
    for p in problems:
        print('VIOLATION:', p)
    return 1 if problems else 0


if __name__ == '__main__':
    sys.exit(main())
