"""C02, unchanged library: the text literals "TRUE" / "FALSE" as operands of
arithmetic, and numbers as operands of &.

Excel: ="TRUE"+1 is #VALUE! (only text which reads as a number is converted,
TRUE+1 with the logical literal is 2), =-"FALSE" is #VALUE!.
Excel: =(0.1+0.2)&"" is "0.3", =(1/3)&"" is "0.333333333333333" (a number
becomes text with 15 significant digits), =1E+20&"" is "1E+20".
"""
import logging
import sys

from pycel.excelformula import ExcelFormula

logging.disable(logging.CRITICAL)

EXPECTED = [
    ('=TRUE+1', 2),
    ('="2"+1', 3),
    ('="TRUE"+1', '#VALUE!'),
    ('="true"*2', '#VALUE!'),
    ('=-"FALSE"', '#VALUE!'),
    ('="TRUE"%', '#VALUE!'),
    ('=(0.1+0.2)&""', '0.3'),
    ('=(1/3)&""', '0.333333333333333'),
    ('=1E+20&""', '1E+20'),
]


def main():
    problems = []
    eval_ctx = ExcelFormula.build_eval_context(lambda a: 0, lambda a: ((0, ), ))
    for formula, expected in EXPECTED:
        try:
            result = eval_ctx(ExcelFormula(formula))
        except Exception as exc:
            result = f'{type(exc).__name__}: {str(exc)[-60:]}'
        if result != expected or isinstance(result, str) != isinstance(expected, str):
            problems.append(f'{formula} gives {result!r}, Excel: {expected!r}')
    for p in problems:
        print('VIOLATION:', p)
    return 1 if problems else 0


if __name__ == '__main__':
    sys.exit(main())
