"""Saving a loaded model does not reproduce the constants: floats which the
yaml file holds in exponent notation lose their last digit (unchanged library).
"""
import os
import sys
import tempfile

import openpyxl

from pycel import ExcelCompiler

VALUES = [1.234567890123457e+17, 7.983627106921453e-15, 6.79157539900278e-07,
          5e-324, 1e22, 1e-7, 0.1 + 0.2, 123.456]

wb = openpyxl.Workbook()
ws = wb.active
ws.title = 'Sheet1'
for row, value in enumerate(VALUES, start=1):
    ws.cell(row=row, column=1, value=value)
ws['B1'] = f'=SUM(A1:A{len(VALUES)})'
workdir = tempfile.mkdtemp()
path = os.path.join(workdir, 'm.xlsx')
wb.save(path)

original = ExcelCompiler(path)
original.evaluate('Sheet1!B1')
addresses = [f'Sheet1!A{row}' for row in range(1, len(VALUES) + 1)]
expected = [original.evaluate(a) for a in addresses]

failures = []
for first, loader in (('yml', 'yml'), ('pkl', 'pkl')):
    # 'pkl': to_file() writes yml + pkl, the pickle is made from the yml
    name = os.path.join(workdir, 'first_' + first + '_model')
    original.to_file(name, file_types=('pkl', 'yml'))
    loaded = ExcelCompiler.from_file(name + '.' + loader)
    got = [loaded.evaluate(a) for a in addresses]
    if got != expected:
        failures.append(f'{loader}: loaded values differ: {got}')

    again = os.path.join(workdir, 'again_' + first + '_model.yml')
    loaded.to_file(again)                    # saving the loaded model
    reloaded = ExcelCompiler.from_file(again)
    got = [reloaded.evaluate(a) for a in addresses]
    for address, e, g in zip(addresses, expected, got):
        if e != g:
            failures.append(f'loaded from {loader}, saved again: {address} '
                            f'{e!r} became {g!r}')
    with open(name + '.yml') as f1, open(again) as f2:
        t1 = f1.read().split('cell_map:')[1]
        t2 = f2.read().split('cell_map:')[1]
        if t1 != t2:
            failures.append(f'loaded from {loader}: the cells of the file '
                            f'saved again differ from the file it was loaded from')

if failures:
    print('C03 VIOLATED (unchanged library): saving a loaded model does not '
          'reproduce the constants')
    for failure in failures:
        print('  ' + failure)
    sys.exit(1)
print('ok')
