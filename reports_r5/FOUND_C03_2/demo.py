"""to_file keeps a pickle which belongs to another state of the model, when
the text formats alternate (unchanged library)."""
import os
import sys
import tempfile

import openpyxl

from pycel import ExcelCompiler

wb = openpyxl.Workbook()
ws = wb.active
ws.title = 'Sheet1'
ws['A1'] = 1
ws['B1'] = '=A1*10'
path = os.path.join(tempfile.mkdtemp(), 'm.xlsx')
wb.save(path)

model = ExcelCompiler(path)
assert model.evaluate('Sheet1!B1') == 10
model.to_file()                                # m.xlsx.yml + m.xlsx.pkl, A1 = 1
model.set_value('Sheet1!A1', 2)
model.to_file(file_types=('pkl', 'json'))      # m.xlsx.json + m.xlsx.pkl, A1 = 2
model.set_value('Sheet1!A1', 1)
model.to_file()                                # yml "unchanged" -> pkl not rewritten

expected = model.evaluate('Sheet1!A1'), model.evaluate('Sheet1!B1')
failures = []
for name in (path, path + '.pkl', path + '.yml'):
    loaded = ExcelCompiler.from_file(name)
    got = loaded.evaluate('Sheet1!A1'), loaded.evaluate('Sheet1!B1')
    print(f'from_file({os.path.basename(name)!r}): A1, B1 = {got}')
    if got != expected:
        failures.append(f'from_file({os.path.basename(name)!r}) gives A1, B1 = '
                        f'{got}, the model which was just saved has {expected}')
if failures:
    print('C03 VIOLATED (unchanged library): the model read back is not the '
          'model that was written')
    for failure in failures:
        print('  ' + failure)
    sys.exit(1)
print('ok')
