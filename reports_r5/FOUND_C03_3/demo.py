"""A text which starts with '=' is a formula after the trip (unchanged library)."""
import os
import sys
import tempfile

import openpyxl

from pycel import ExcelCompiler

wb = openpyxl.Workbook()
ws = wb.active
ws.title = 'Sheet1'
ws['A1'] = 'label'
ws['A2'] = 5
ws['B1'] = '=LEN(A1)'
ws['B2'] = '=A1&"|"&A2'
workdir = tempfile.mkdtemp()
path = os.path.join(workdir, 'm.xlsx')
wb.save(path)

addresses = ['Sheet1!A1', 'Sheet1!B1', 'Sheet1!B2']
original = ExcelCompiler(path)
[original.evaluate(a) for a in addresses]
# the user types a text which looks like a formula into the input cell
original.set_value('Sheet1!A1', '=1+1')
expected = [original.evaluate(a) for a in addresses]
print('original:', expected)

failures = []
for file_type in ('yml', 'json', 'pkl'):
    saved = os.path.join(workdir, 'saved.' + file_type)
    original.to_file(saved)
    loaded = ExcelCompiler.from_file(saved)
    got = []
    for a in addresses:
        try:
            got.append(loaded.evaluate(a))
        except Exception as exc:
            got.append(f'raises {type(exc).__name__}')
    print(file_type, got)
    if got != expected:
        failures.append(f'{file_type}: {got}, the original has {expected}')
if failures:
    print("C03 VIOLATED (unchanged library): a text constant '=1+1' is "
          "evaluated as python code in the loaded model")
    for failure in failures:
        print('  ' + failure)
    sys.exit(1)
print('ok')
