"""Unicode text which does not survive the trip (unchanged library):
U+0085 (NEL) through yml/pkl, characters outside the BMP through json."""
import os
import sys
import tempfile

import openpyxl

from pycel import ExcelCompiler

wb = openpyxl.Workbook()
ws = wb.active
ws.title = 'Sheet1'
ws['A1'] = 'next\x85line'          # NEL, a legal XML 1.0 / excel character
ws['A2'] = 'smile \U0001F600'      # outside the basic multilingual plane
ws['B1'] = '=IF(A1="next line","equals next<space>line","differs")'
ws['B2'] = '=LEN(A2)'
workdir = tempfile.mkdtemp()
path = os.path.join(workdir, 'm.xlsx')
wb.save(path)

addresses = ['Sheet1!A1', 'Sheet1!A2', 'Sheet1!B1', 'Sheet1!B2']
original = ExcelCompiler(path)
expected = [original.evaluate(a) for a in addresses]
print('original:', [ascii(v) for v in expected])

failures = []
for file_type in ('yml', 'json', 'pkl'):
    saved = os.path.join(workdir, 'saved.' + file_type)
    original.to_file(saved)
    loaded = ExcelCompiler.from_file(saved)
    got = [loaded.evaluate(a) for a in addresses]
    print(file_type, [ascii(v) for v in got])
    for address, e, g in zip(addresses, expected, got):
        if e != g:
            failures.append(f'{file_type}: {address} is {ascii(g)}, '
                            f'the original has {ascii(e)}')
if failures:
    print('C03 VIOLATED (unchanged library): unicode text is altered by the trip')
    for failure in failures:
        print('  ' + failure)
    sys.exit(1)
print('ok')
