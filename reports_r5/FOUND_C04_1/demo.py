"""FOUND (unchanged library) -- C04: the range operator between two written
references declares only its two corners, the formula reads the whole
rectangle.

    E1 = SUM(A1:(C3))     compiles to  sum_(_R_(str(_REF_("S!A1") ** (_REF_("S!C3")))))
    E2 = SUM((A1:A2):C3)  compiles to  sum_(_R_(str(_REF_("S!A1:A2") ** _REF_("S!C3"))))

needed_addresses finds the _REF_("..") shapes: [S!A1, S!C3] resp. [S!A1:A2, S!C3].
At run time _R_ is called with S!A1:C3: nine cells are read, B2 (and B1, C1,
A2/A3, ...) is neither a declared precedent nor inside a declared range, and
has no path to the formula in dep_graph.
"""
import sys

import networkx as nx
from openpyxl import Workbook

from pycel import ExcelCompiler

wb = Workbook()
ws = wb.active
ws.title = 'S'
for r in range(1, 4):
    for c in range(1, 4):
        ws.cell(r, c, 10 * r + c)          # 11 .. 33, sum 198
ws['E1'] = '=SUM(A1:(C3))'
ws['E2'] = '=SUM((A1:A2):C3)'
ws['E3'] = '=SUM(A1:C3)'                   # the plain spelling, for comparison

xl = ExcelCompiler(excel=wb)
problems = []
for addr in ('S!E1', 'S!E2', 'S!E3'):
    got = xl.evaluate(addr)
    if got != 198:
        problems.append(f'{addr} is {got}, expected 198')

block = [f'S!{col}{row}' for row in (1, 2, 3) for col in 'ABC']
for addr in ('S!E1', 'S!E2', 'S!E3'):
    cell = xl.cell_map[addr]
    ancestors = {c.address.address for c in nx.ancestors(xl.dep_graph, cell)}
    missing = [a for a in block if a not in ancestors]
    if missing:
        problems.append(
            f'{addr} {cell.formula.base_formula} -> {cell.formula.python_code}: '
            f'declared {[a.address for a in cell.formula.needed_addresses]}, '
            f'reads S!A1:C3, not among its ancestors: {missing}')

xl.set_value('S!B2', 1022)                 # +1000
for addr in ('S!E1', 'S!E2', 'S!E3'):
    got = xl.evaluate(addr)
    if got != 1198:
        problems.append(f'after set_value(S!B2, 1022): {addr} is {got}, expected 1198')

if problems:
    print('C04 violated on the unchanged library:')
    for p in problems:
        print('  -', p)
    sys.exit(1)
print('ok')
