"""FOUND (unchanged library) -- C04 after trim_graph(): a plain range which
does not depend on an input is dropped from cell_map but the formula which
reads it is kept.  The next evaluation of the formula rebuilds the range as a
NEW node which is wired to its cells but not to the formula; the formula's
edge comes from the old node, which is no longer the node its cells reset
through once it has no value.

    D1 = A1 * SUM(B1:B3)        input A1, output D1
"""
import sys

from openpyxl import Workbook

from pycel import ExcelCompiler

wb = Workbook()
ws = wb.active
ws.title = 'S'
ws['A1'] = 2
ws['B1'], ws['B2'], ws['B3'] = 10, 20, 30
ws['D1'] = '=A1*SUM(B1:B3)'

xl = ExcelCompiler(excel=wb)
problems = []
assert xl.evaluate('S!D1') == 120

xl.trim_graph(input_addrs=['S!A1'], output_addrs=['S!D1'])
assert 'S!B1' in xl.cell_map and 'S!B1:B3' not in xl.cell_map

# B1 is a cell of the trimmed model, it can be set: D1 follows, the first time
xl.set_value('S!B1', 100)
got = xl.evaluate('S!D1')               # rebuilds the node of S!B1:B3
if got != 300:
    problems.append(f'B1 := 100: D1 is {got}, expected 2 * 150 = 300')

# the range D1 has just read is a node of dep_graph with no edge to D1
d1 = xl.cell_map['S!D1']
live_range = xl.cell_map.get('S!B1:B3')
if live_range is not None and not xl.dep_graph.has_edge(live_range, d1):
    preds = [(c.address.address, c is live_range)
             for c in xl.dep_graph.predecessors(d1)]
    problems.append(
        f'D1 declares {[a.address for a in d1.formula.needed_addresses]} and '
        f'has read S!B1:B3 = cell_map["S!B1:B3"], but dep_graph has no edge '
        f'from that node to D1; predecessors of D1 (address, is the live '
        f'node): {preds}')

# ... and the second time D1 does not follow
xl.set_value('S!B1', 200)
got = xl.evaluate('S!D1')
if got != 500:
    problems.append(f'B1 := 200: D1 is {got}, expected 2 * 250 = 500 (stale)')

if problems:
    print('C04 violated on the unchanged library:')
    for p in problems:
        print('  -', p)
    sys.exit(1)
print('ok')
