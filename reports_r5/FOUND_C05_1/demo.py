"""FOUND C05: =OFFSET()/=INDIRECT() to a formula cell not yet evaluated"""
import itertools
import sys

from openpyxl import Workbook

from pycel import ExcelCompiler


def model():
    wb = Workbook()
    ws = wb.active
    ws.title = 'S'
    ws['A1'] = '=OFFSET(B1,1,0)'
    ws['A2'] = '=INDIRECT("B2")'
    ws['B2'] = '=1+1'
    ws['C1'] = '=A1+1'
    ws['C2'] = '=A2+1'
    return ExcelCompiler(excel=wb)


ADDRESSES = ('S!A1', 'S!A2', 'S!B2', 'S!C1', 'S!C2')
EXPECTED = {'S!A1': 2, 'S!A2': 2, 'S!B2': 2, 'S!C1': 3, 'S!C2': 3}

problems = []
for order in itertools.permutations(ADDRESSES):
    compiler = model()
    first = {address: compiler.evaluate(address) for address in order}
    again = {address: compiler.evaluate(address) for address in ADDRESSES}
    in_range = dict(zip(('S!A1', 'S!B1', 'S!C1'), compiler.evaluate('S!A1:C1')))
    first = {address: first[address] for address in ADDRESSES}
    if first != EXPECTED:
        problems.append(f'{order}: first evaluation gives {first}')
    elif again != EXPECTED:
        problems.append(f'{order}: second evaluation gives {again}')
    elif (in_range['S!A1'], in_range['S!C1']) != (2, 3):
        problems.append(f'{order}: evaluate(S!A1:C1) gives {in_range}')

if problems:
    print(f'C05 violated by the unchanged library, {len(problems)} of 120 '
          f'evaluation orders, expected {EXPECTED}:')
    for problem in problems[:6]:
        print('  ' + problem)
    sys.exit(1)
print('ok')
