"""C06 on the UNCHANGED library: an acyclic workbook, iterative calculation
enabled, a formula reads an unbounded range (B:B) whose used part is a single
formula cell.  After a set_value the iterative model keeps returning the old
result, the non-iterative model follows the change.

    A1 = 1      B1 = A1 * 2      C1 = SUM(B:B)
"""
import logging
import sys

import openpyxl

from pycel import ExcelCompiler

logging.getLogger('pycel').setLevel(logging.ERROR)


def workbook(second_cell):
    wb = openpyxl.Workbook()
    ws = wb.active
    ws.title = 'S'
    ws['A1'] = 1
    ws['B1'] = '=A1*2'
    if second_cell:
        ws['B2'] = '=A1*3'
    ws['C1'] = '=SUM(B:B)'
    return wb


def history(model):
    first = model.evaluate('S!C1')
    model.set_value('S!A1', 5)
    return first, model.evaluate('S!C1'), model.evaluate('S!C1')


def main():
    failures = 0
    for second_cell in (True, False):
        plain = history(ExcelCompiler(excel=workbook(second_cell), cycles=False))
        iterative = history(ExcelCompiler(
            excel=workbook(second_cell),
            cycles=dict(iterations=100, tolerance=0.001)))
        ok = plain == iterative
        failures += not ok
        print(f'{"ok  " if ok else "FAIL"} column B holds '
              f'{"two cells" if second_cell else "one cell "}: evaluate(C1), '
              f'set_value(A1, 5), evaluate(C1) x 2: non-iterative {plain}, '
              f'iterative {iterative}')
    if failures:
        print('C06 VIOLATED: iterative evaluation of an acyclic workbook '
              'returns a stale SUM(B:B) after set_value')
        return 1
    print('ok')
    return 0


if __name__ == '__main__':
    sys.exit(main())
