"""C06 on the UNCHANGED library: set_value() of a node which is itself computed
(a formula cell, or a range node with set_as_range=True) is part of a legal
set_value history.  On an acyclic workbook the non-iterative model keeps the
value that was set, the iterative model throws it away at the next evaluate.
"""
import logging
import sys

import openpyxl

from pycel import ExcelCompiler

logging.getLogger('pycel').setLevel(logging.ERROR)


def workbook():
    wb = openpyxl.Workbook()
    ws = wb.active
    ws.title = 'S'
    ws['A1'], ws['A2'], ws['A3'] = 1, 2, 3
    ws['B1'] = '=SUM(A1:A3)'
    ws['D1'] = '=A1*2+1'
    ws['E1'] = '=D1+1'
    return wb


def models():
    return (ExcelCompiler(excel=workbook(), cycles=False),
            ExcelCompiler(excel=workbook(),
                          cycles=dict(iterations=100, tolerance=0.001)))


def main():
    failures = 0

    results = []
    for model in models():
        first = model.evaluate('S!E1')
        model.set_value('S!D1', 100)          # D1 is a formula cell
        results.append((first, model.evaluate('S!E1'), model.evaluate('S!D1')))
    ok = results[0] == results[1]
    failures += not ok
    print(f'{"ok  " if ok else "FAIL"} evaluate(E1), set_value(D1, 100), '
          f'evaluate(E1), evaluate(D1): non-iterative {results[0]}, '
          f'iterative {results[1]}')

    results = []
    for model in models():
        first = model.evaluate('S!B1')
        model.set_value('S!A1:A3', ((10,), (20,), (30,)), set_as_range=True)
        results.append((first, model.evaluate('S!B1')))
    ok = results[0] == results[1]
    failures += not ok
    print(f'{"ok  " if ok else "FAIL"} evaluate(B1), set_value(A1:A3, ..., '
          f'set_as_range=True), evaluate(B1): non-iterative {results[0]}, '
          f'iterative {results[1]}')

    if failures:
        print('C06 VIOLATED: after a set_value history the iterative result '
              'differs from the non-iterative result on an acyclic workbook')
        return 1
    print('ok')
    return 0


if __name__ == '__main__':
    sys.exit(main())
