"""FOUND (unchanged library): trim_graph() after a set_value() freezes cells
to None instead of to their value.

History:  evaluate(input); set_value(input, v); trim_graph([input], [output])

Since "formula cells built after a set_value() do not trust their stored
result", the cells which trim_graph() builds in its step 1 (_gen_graph of the
outputs) have value None.  Step 3 then drops the formula of every cell which
does not depend on an input ("now we will need only its value") without
calculating it: the cell is frozen to None, and the output is calculated
from an empty cell, in the trimmed model and in the saved/reloaded one.

Shown (a) on the 'trim-range' sheet of tests/fixtures/excelcompiler.xlsx
(a real Excel file with stored results) and (b) on an openpyxl workbook.
"""
import os
import shutil
import sys
import tempfile

from openpyxl import Workbook

import pycel
from pycel import ExcelCompiler


def run(make_model, inputs, outputs, value, tmp, tag):
    problems = []
    untrimmed = make_model()
    untrimmed.evaluate(inputs[0])
    untrimmed.set_value(inputs[0], value)
    expected = untrimmed.evaluate(outputs[0])

    trimmed = make_model()
    trimmed.evaluate(inputs[0])          # puts the input in the cell map
    trimmed.set_value(inputs[0], value)  # an assignment BEFORE the trim
    trimmed.trim_graph(inputs, outputs)
    got = trimmed.evaluate(outputs[0])
    if got != expected:
        problems.append(f'{tag}: trimmed model {outputs[0]} = {got!r}, '
                        f'untrimmed model = {expected!r}')
    fname = os.path.join(tmp, tag + '.json')
    trimmed.to_file(fname)
    got = ExcelCompiler.from_file(fname).evaluate(outputs[0])
    if got != expected:
        problems.append(f'{tag}: trimmed+reloaded model {outputs[0]} = '
                        f'{got!r}, untrimmed model = {expected!r}')
    frozen_none = [a for a, c in trimmed.cell_map.items()
                   if ':' not in a and c.formula is None and c.value is None]
    if frozen_none:
        problems.append(f'{tag}: cells frozen to None: {frozen_none}')
    return problems


def main():
    tmp = tempfile.mkdtemp()
    problems = []

    fixture = os.path.join(os.path.dirname(pycel.__file__), '..', '..',
                           'tests', 'fixtures', 'excelcompiler.xlsx')
    if os.path.exists(fixture):
        def from_fixture():
            fd, copy = tempfile.mkstemp(suffix='.xlsx', dir=tmp)
            os.close(fd)
            shutil.copy(fixture, copy)
            return ExcelCompiler(filename=copy)
        problems += run(from_fixture, ['trim-range!D5'], ['trim-range!B2'],
                        200, tmp, 'fixture')

    def from_openpyxl():
        wb = Workbook()
        ws = wb.active
        ws.title = 'S'
        ws['A1'] = 3            # input
        ws['C1'] = 5
        ws['B1'] = '=C1*2'      # does not depend on the input: frozen
        ws['B2'] = '=B1+A1'     # output
        return ExcelCompiler(excel=wb)
    problems += run(from_openpyxl, ['S!A1'], ['S!B2'], 4, tmp, 'openpyxl')

    if problems:
        print('C08 VIOLATED on the unchanged library:')
        for problem in problems:
            print('  ' + problem)
        return 1
    print('ok')
    return 0


if __name__ == '__main__':
    sys.exit(main())
