"""FOUND (unchanged library): a frozen text value starting with '=' is read
back as a formula by from_file()."""
import os
import sys
import tempfile

from openpyxl import Workbook

from pycel import ExcelCompiler


def build():
    wb = Workbook()
    ws = wb.active
    ws.title = 'S'
    ws['A1'] = 3                  # input
    ws['C1'] = 1
    ws['B1'] = '="="&C1&"+1"'     # the text '=1+1', does not depend on A1
    ws['B2'] = '=LEN(B1)+A1'      # output: 4 + A1
    return wb


def main():
    tmp = tempfile.mkdtemp()
    problems = []
    untrimmed = ExcelCompiler(excel=build())
    trimmed = ExcelCompiler(excel=build())
    assert untrimmed.evaluate('S!B2') == trimmed.evaluate('S!B2') == 7
    trimmed.trim_graph(['S!A1'], ['S!B2'])
    assert trimmed.cell_map['S!B1'].value == '=1+1'

    for value in (3, 10):
        untrimmed.set_value('S!A1', value)
        trimmed.set_value('S!A1', value)
        expected = untrimmed.evaluate('S!B2')
        if trimmed.evaluate('S!B2') != expected:
            problems.append(f'A1={value}: trimmed {trimmed.evaluate("S!B2")!r}'
                            f' != untrimmed {expected!r}')
        for ext in ('json', 'yml', 'pkl'):
            fname = os.path.join(tmp, f'm{value}.{ext}')
            trimmed.to_file(fname)
            try:
                loaded = ExcelCompiler.from_file(fname)
                got = loaded.evaluate('S!B2')
                frozen = loaded.cell_map['S!B1']
            except Exception as exc:
                got, frozen = f'{type(exc).__name__}: {exc}', None
            if got != expected:
                problems.append(
                    f'A1={value}: trimmed+reloaded ({ext}) S!B2 = {got!r}, '
                    f'untrimmed = {expected!r}; reloaded B1 is [{frozen}]')

    if problems:
        print('C08 VIOLATED on the unchanged library:')
        for problem in problems:
            print('  ' + problem)
        return 1
    print('ok')
    return 0


if __name__ == '__main__':
    sys.exit(main())
