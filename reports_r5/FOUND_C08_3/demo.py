"""FOUND (unchanged library): an input with a dependant but without an output
is deleted by trim_graph(), set_value() of that input raises afterwards."""
import os
import sys
import tempfile

from openpyxl import Workbook

from pycel import ExcelCompiler


def build():
    wb = Workbook()
    ws = wb.active
    ws.title = 'S'
    ws['A1'] = 3
    ws['A2'] = 4
    ws['B1'] = '=A1*2'   # output
    ws['C1'] = '=A2+1'   # a dependant of the input A2, not an output
    model = ExcelCompiler(excel=wb)
    model.evaluate(['S!B1', 'S!C1'])
    return model


def main():
    problems = []
    untrimmed = build()
    trimmed = build()
    trimmed.trim_graph(['S!A1', 'S!A2'], ['S!B1'])
    fname = os.path.join(tempfile.mkdtemp(), 'm.json')
    trimmed.to_file(fname)
    loaded = ExcelCompiler.from_file(fname)

    untrimmed.set_value('S!A2', 9)
    expected = untrimmed.evaluate('S!B1')
    for name, model in (('trimmed', trimmed), ('trimmed+reloaded', loaded)):
        try:
            model.set_value('S!A2', 9)
            got = model.evaluate('S!B1')
            if got != expected:
                problems.append(f'{name}: S!B1 = {got!r} != {expected!r}')
        except BaseException as exc:
            problems.append(
                f'{name}: set_value of the input S!A2 raises '
                f'{type(exc).__name__}: {exc} (cell map: {sorted(model.cell_map)})')

    if problems:
        print('C08 VIOLATED on the unchanged library:')
        for problem in problems:
            print('  ' + problem)
        return 1
    print('ok')
    return 0


if __name__ == '__main__':
    sys.exit(main())
