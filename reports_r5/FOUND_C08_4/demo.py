"""FOUND (unchanged library): input ranges which are not a plain range node:
(a) a range no formula reads as that range, (b) an unbounded range."""
import sys

from openpyxl import Workbook

from pycel import ExcelCompiler


def case_a():
    def build():
        wb = Workbook()
        ws = wb.active
        ws.title = 'S'
        ws['D4'] = 4
        ws['E4'] = 8
        ws['B1'] = '=D4+E4'
        ws['B2'] = '=B1*2'
        model = ExcelCompiler(excel=wb)
        model.evaluate('S!B2')
        return model
    untrimmed, trimmed = build(), build()
    trimmed.trim_graph(['S!D4:E4'], ['S!B2'])
    results = []
    for model in (untrimmed, trimmed):
        model.evaluate('S!D4:E4')     # put the range into the cell map
        model.set_value('S!D4:E4', [5, 6])
        results.append(model.evaluate('S!B2'))
    if results[0] != results[1]:
        return [f'(a) inputs [S!D4:E4], set to [5, 6]: untrimmed S!B2 = '
                f'{results[0]!r}, trimmed S!B2 = {results[1]!r}']
    return []


def case_b():
    def build():
        wb = Workbook()
        ws = wb.active
        ws.title = 'S'
        ws['A1'] = 1
        ws['A2'] = 2
        ws['B1'] = '=A1*10'
        ws['B2'] = '=SUM(A:A)+B1'
        model = ExcelCompiler(excel=wb)
        model.evaluate('S!B2')
        return model
    untrimmed, trimmed = build(), build()
    trimmed.trim_graph(['S!A:A'], ['S!B2'])
    results = []
    for model in (untrimmed, trimmed):
        model.set_value('S!A1', 5)
        try:
            results.append(model.evaluate('S!B2'))
        except Exception as exc:
            results.append(f'{type(exc).__name__}: '
                           + str(exc).strip().splitlines()[-2])
    if results[0] != results[1]:
        return [f'(b) inputs [S!A:A], A1 set to 5: untrimmed S!B2 = '
                f'{results[0]!r}, trimmed S!B2 = {results[1]!r}']
    return []


def main():
    import logging
    logging.disable(logging.CRITICAL)
    problems = case_a() + case_b()
    if problems:
        print('C08 VIOLATED on the unchanged library:')
        for problem in problems:
            print('  ' + problem)
        return 1
    print('ok')
    return 0


if __name__ == '__main__':
    sys.exit(main())
