"""C09 on the UNCHANGED library, iterative mode: a cell whose evaluation fails
AFTER its formula has run (while the reference it returned is resolved) stays
"work in progress" for ever.

  A1 = INDIRECT(B1)     B1 = "Nope!A1"  (a sheet which does not exist)
  C1 = A1 + 1           dependant
  D1 = 7

evaluate(C1) raises FormulaEvalError (KeyError: Worksheet Nope does not exist)
- fine.  The retry returns 1, evaluate(A1) returns None: stale values, no
error.  After B1 is repaired ("Sheet!D1") A1 still is None for ever.
In plain mode the model recovers, but evaluate(A1) raises a bare KeyError.
"""
import logging
import sys

from openpyxl import Workbook

from pycel import ExcelCompiler
from pycel.excelutil import PyCelException

logging.disable(logging.CRITICAL)
problems = []

for cycles in (False, True):
    mode = 'iterative' if cycles else 'plain'
    wb = Workbook()
    wb.calculation.iterate = cycles
    ws = wb.active
    ws['A1'] = '=INDIRECT(B1)'
    ws['B1'] = 'Nope!A1'
    ws['C1'] = '=A1+1'
    ws['D1'] = 7
    compiler = ExcelCompiler(excel=wb)

    for addr in ('Sheet!C1', 'Sheet!C1', 'Sheet!A1', 'Sheet!A1'):
        try:
            value = compiler.evaluate(addr)
            problems.append(f'{mode}: evaluate({addr}) returned {value!r} '
                            f'while B1 names a sheet which does not exist')
        except PyCelException:
            pass
        except Exception as exc:
            problems.append(f'{mode}: evaluate({addr}) raised a bare '
                            f'{type(exc).__name__}: {exc}')

    compiler.set_value('Sheet!B1', 'Sheet!D1')   # repair the input
    try:
        got = compiler.evaluate('Sheet!A1'), compiler.evaluate('Sheet!C1')
    except Exception as exc:
        got = f'{type(exc).__name__}: {exc}'
    if got != (7, 8):
        problems.append(f'{mode}: after B1 is repaired (A1, C1) = {got!r}, '
                        f'expected (7, 8)')

if problems:
    print('C09 violated on the unchanged library:')
    for p in problems:
        print('  ', p)
    sys.exit(1)
print('ok')
