"""C09 on the UNCHANGED library: "once the failing cell is overwritten with a
constant its dependants evaluate as in a fresh model ... in plain and
iterative mode".

  A1 = 1;  B1 = NOSUCHFUNC(A1);  C1 = B1 + 1;  D1 = C1 * 2

set_value(B1, 5) is the only public way to overwrite a cell.
 - iterative mode: the next evaluate() recalculates B1 from its formula,
   the constant is ignored, D1 still raises.
 - plain mode: D1 is 12 at first, but after set_value(A1, 3) (an input of the
   formula B1 used to hold) B1 is reset, its formula is back, D1 raises again.
   In a fresh model where B1 is the constant 5, D1 is 12 whatever A1 is.
"""
import logging
import sys

from openpyxl import Workbook

from pycel import ExcelCompiler

logging.disable(logging.CRITICAL)
problems = []

for cycles in (False, True):
    mode = 'iterative' if cycles else 'plain'
    wb = Workbook()
    wb.calculation.iterate = cycles
    ws = wb.active
    ws['A1'] = 1
    ws['B1'] = '=NOSUCHFUNC(A1)'
    ws['C1'] = '=B1+1'
    ws['D1'] = '=C1*2'
    compiler = ExcelCompiler(excel=wb)
    try:
        compiler.evaluate('Sheet!D1')
        problems.append(f'{mode}: D1 did not fail')
    except Exception:
        pass

    compiler.set_value('Sheet!B1', 5)
    for step in ('after set_value(B1, 5)', 'then set_value(A1, 3)'):
        try:
            got = compiler.evaluate('Sheet!D1')
        except Exception as exc:
            got = f'{type(exc).__name__}'
        if got != 12:
            problems.append(f'{mode}, {step}: D1 = {got!r}, a fresh model '
                            f'with B1 = 5 gives 12')
        compiler.set_value('Sheet!A1', 3)

if problems:
    print('C09 violated on the unchanged library:')
    for p in problems:
        print('  ', p)
    sys.exit(1)
print('ok')
